import DirectVerif.Model.TensorLift
import DirectVerif.Model.Crop
import DirectVerif.Model.Shift
/-!
# `Tensor.alongAxis` is the functorial per-fibre application (proofs)

The drivers execute n-D operations as `Tensor.alongAxis t axis f` with `f` a 1-D list model
(`Crop.centerCrop`, `Crop.fPad`, `Shift.rollOne`, …); the property theorems are about the 1-D `f`.
This file proves the lifting laws that connect the two, for the very `Tensor.alongAxis` of
`Model/Basic.lean` (array-based, unchanged):

* `alongAxis_eq_alongAxisL` — `alongAxis = alongAxisL` (the list-level definition of
  `Model/TensorLift.lean`), for every tensor and every function, no side condition;
* `alongAxis_shape`, `alongAxis_wellFormed`, `alongAxis_fibre`/`alongAxis_getD` (fibre `(o,i)` of the
  result is `f` of fibre `(o,i)` of the input), `alongAxis_congr`, `alongAxis_id(_of)`,
  `alongAxis_comp`, `alongAxis_cancel`;
* `alongAxis_comm_gather` — liftings along two different axes commute when one of the functions is
  an index gather with fill (`IsGather`: roll, crop, constant pad, …); for arbitrary functions this
  is false (`alongAxis_comm_fails_in_general`);
* n-D corollaries of `Props/C10.lean` and `Props/C01.lean` (last section; the only part that needs
  the two `Props` imports — everything above it is core Lean over `Model/TensorLift.lean`).

`n = t.shape.getD axis 1` is the axis length (`t.shape[axis]` when `axis < t.shape.length`).
-/
namespace DirectVerif.TensorLift
open DirectVerif DirectVerif.Tensor

theorem toArray_getElem! {α} [Inhabited α] (l : List α) (i : Nat) : l.toArray[i]! = l.getD i default := by
  simp [getElem!_def, List.getD_eq_getElem?_getD]
  cases l[i]? <;> rfl

theorem toArray2_getElem! {α} [Inhabited α] (F : List (List α)) (j k : Nat) :
    ((F.toArray.map List.toArray)[j]!)[k]! = (F.getD j []).getD k default := by
  simp [getElem!_def, List.getD_eq_getElem?_getD]
  cases F[j]? <;> simp
  · rfl
  · rename_i l; cases l[k]? <;> rfl

theorem alongAxis_eq_alongAxisL {α} [Inhabited α] (t : Tensor α) (axis : Nat) (f : List α → List α) :
    t.alongAxis axis f = t.alongAxisL axis f := by
  unfold Tensor.alongAxis Tensor.alongAxisL fibres gather fibre outLen
  simp only [toArray_getElem!, toArray2_getElem!]
  rfl

/-! ### `prod` -/
theorem foldl_mul (s : List Nat) (a : Nat) : s.foldl (· * ·) a = a * prod s := by
  induction s generalizing a with
  | nil => simp [prod]
  | cons x xs ih =>
    simp only [prod, List.foldl_cons] at ih ⊢
    rw [ih (a * x), ih (1 * x), Nat.one_mul, Nat.mul_assoc]

theorem prod_nil : prod [] = 1 := rfl

theorem prod_cons (x : Nat) (xs : List Nat) : prod (x :: xs) = x * prod xs := by
  show (x :: xs).foldl (· * ·) 1 = _
  rw [List.foldl_cons, foldl_mul, Nat.one_mul]

theorem prod_append (xs ys : List Nat) : prod (xs ++ ys) = prod xs * prod ys := by
  induction xs with
  | nil => simp [prod_nil]
  | cons x xs ih => rw [List.cons_append, prod_cons, prod_cons, ih, Nat.mul_assoc]

theorem prod_split (s : List Nat) (a : Nat) (h : a < s.length) :
    prod s = prod (s.take a) * s[a] * prod (s.drop (a + 1)) := by
  conv => lhs; rw [← List.take_append_drop a s, List.drop_eq_getElem_cons h]
  rw [prod_append, prod_cons, Nat.mul_assoc]

theorem prod_set (s : List Nat) (a m : Nat) (h : a < s.length) :
    prod (s.set a m) = prod (s.take a) * m * prod (s.drop (a + 1)) := by
  rw [List.set_eq_take_append_cons_drop, if_pos h, prod_append, prod_cons, Nat.mul_assoc]

/-! ### nested `range` comprehensions as a single `range` -/
theorem flatMap_range_map {β} (A B : Nat) (g : Nat → Nat → β) :
    (List.range A).flatMap (fun o => (List.range B).map (g o)) =
      (List.range (A * B)).map fun j => g (j / B) (j % B) := by
  induction A with
  | zero => simp
  | succ A ih =>
    rw [List.range_succ, List.flatMap_append, ih, Nat.succ_mul, List.range_add, List.map_append,
      List.map_map]
    congr 1
    simp only [List.flatMap_cons, List.flatMap_nil, List.append_nil]
    apply List.map_congr_left
    intro i hi
    have hi : i < B := List.mem_range.mp hi
    have hB : 0 < B := by omega
    simp only [Function.comp]
    rw [Nat.mul_comm A B, Nat.mul_add_div hB, Nat.mul_add_mod, Nat.div_eq_of_lt hi, Nat.mod_eq_of_lt hi,
      Nat.add_zero]

theorem flatMap_congr_mem {β γ} (l : List β) (f g : β → List γ) (h : ∀ a ∈ l, f a = g a) :
    l.flatMap f = l.flatMap g := by
  rw [List.flatMap_def, List.flatMap_def, List.map_congr_left h]

theorem flatMap_range_length {β} (A B : Nat) (g : Nat → Nat → β) :
    ((List.range A).flatMap (fun o => (List.range B).map (g o))).length = A * B := by
  rw [flatMap_range_map]; simp

theorem idx2 (o i B : Nat) (hi : i < B) : (o * B + i) / B = o ∧ (o * B + i) % B = i := by
  have hB : 0 < B := by omega
  rw [Nat.mul_comm o B, Nat.mul_add_div hB, Nat.mul_add_mod, Nat.div_eq_of_lt hi, Nat.mod_eq_of_lt hi]
  simp

theorem idx2_lt (o i A B : Nat) (ho : o < A) (hi : i < B) : o * B + i < A * B := by
  have : (o + 1) * B ≤ A * B := Nat.mul_le_mul_right B ho
  rw [Nat.succ_mul] at this; omega

theorem flatMap_range_getD {β} (A B : Nat) (g : Nat → Nat → β) (d : β) (o i : Nat) (ho : o < A) (hi : i < B) :
    ((List.range A).flatMap (fun o => (List.range B).map (g o))).getD (o * B + i) d = g o i := by
  rw [flatMap_range_map, List.getD_eq_getElem?_getD, List.getElem?_map,
    List.getElem?_range (idx2_lt o i A B ho hi)]
  simp only [Option.map_some, Option.getD_some, idx2 o i B hi]

theorem range_map_getD {α} (L : List α) (d : α) : (List.range L.length).map (fun k => L.getD k d) = L := by
  apply List.ext_getElem
  · simp
  · intro i h1 h2
    simp [List.getD_eq_getElem?_getD, List.getElem?_eq_getElem h2]

variable {α : Type} [Inhabited α]

theorem fibre_length (D : List α) (n inner o i : Nat) : (fibre D n inner o i).length = n := by
  simp [fibre]

theorem fibres_length (D : List α) (outer n inner : Nat) (f : List α → List α) :
    (fibres D outer n inner f).length = outer * inner := flatMap_range_length _ _ _

theorem fibres_getD (D : List α) (outer n inner : Nat) (f : List α → List α) (o i : Nat)
    (ho : o < outer) (hi : i < inner) :
    (fibres D outer n inner f).getD (o * inner + i) [] = f (fibre D n inner o i) :=
  flatMap_range_getD outer inner (fun o i => f (fibre D n inner o i)) [] o i ho hi

theorem mem_fibres (D : List α) (outer n inner : Nat) (f : List α → List α) (x : List α)
    (hx : x ∈ fibres D outer n inner f) : ∃ o i, o < outer ∧ i < inner ∧ x = f (fibre D n inner o i) := by
  simp only [fibres, List.mem_flatMap, List.mem_map, List.mem_range] at hx
  obtain ⟨o, ho, i, hi, rfl⟩ := hx
  exact ⟨o, i, ho, hi, rfl⟩

theorem outLen_fibres (D : List α) (outer n inner : Nat) (f : List α → List α) (m : Nat)
    (hf : LenUniform f n m) : outLen (fibres D outer n inner f) n f = m := by
  cases h : fibres D outer n inner f with
  | nil => exact hf _ (by simp)
  | cons x xs =>
    obtain ⟨o, i, _, _, rfl⟩ := mem_fibres D outer n inner f x (by rw [h]; exact List.mem_cons_self)
    exact hf _ (fibre_length ..)

theorem gather_eq (F : List (List α)) (outer m inner : Nat) :
    gather F outer m inner = (List.range outer).flatMap fun o => (List.range (m * inner)).map
      fun j => (F.getD (o * inner + j % inner) []).getD (j / inner) default := by
  unfold gather
  congr 1; funext o
  exact flatMap_range_map m inner (fun k i => (F.getD (o * inner + i) []).getD k default)

theorem gather_length (F : List (List α)) (outer m inner : Nat) :
    (gather F outer m inner).length = outer * (m * inner) := by
  rw [gather_eq]; exact flatMap_range_length _ _ _

theorem gather_getD (F : List (List α)) (outer m inner : Nat) (o k i : Nat)
    (ho : o < outer) (hk : k < m) (hi : i < inner) :
    (gather F outer m inner).getD (o * m * inner + k * inner + i) default =
      (F.getD (o * inner + i) []).getD k default := by
  rw [gather_eq, Nat.mul_assoc, Nat.add_assoc,
    flatMap_range_getD outer (m * inner) _ default o (k * inner + i) ho (idx2_lt k i m inner hk hi)]
  simp only [idx2 k i inner hi]

/-- the `(o, i)` fibre of re-interleaved data is the `(o, i)`-th gathered list -/
theorem fibre_gather (F : List (List α)) (outer m inner : Nat) (o i : Nat)
    (ho : o < outer) (hi : i < inner) (hlen : (F.getD (o * inner + i) []).length = m) :
    fibre (gather F outer m inner) m inner o i = F.getD (o * inner + i) [] := by
  unfold fibre
  rw [List.map_congr_left (g := fun k => (F.getD (o * inner + i) []).getD k default)]
  · conv => lhs; rw [← hlen]
    exact range_map_getD _ _
  · intro k hk
    exact gather_getD F outer m inner o k i ho (List.mem_range.mp hk) hi

/-! ### index decomposition `j = o*m*inner + k*inner + i` -/
theorem idx3_decomp (j outer m inner : Nat) (h : j < outer * (m * inner)) :
    ∃ o k i, o < outer ∧ k < m ∧ i < inner ∧ j = o * m * inner + k * inner + i := by
  have hP : 0 < m * inner := by
    rcases Nat.eq_zero_or_pos (m * inner) with h0 | h0
    · rw [h0, Nat.mul_zero] at h; omega
    · exact h0
  have hI : 0 < inner := by
    rcases Nat.eq_zero_or_pos inner with h0 | h0
    · rw [h0, Nat.mul_zero] at hP; omega
    · exact h0
  have hr : j % (m * inner) < m * inner := Nat.mod_lt _ hP
  refine ⟨j / (m * inner), j % (m * inner) / inner, j % (m * inner) % inner, ?_, ?_, Nat.mod_lt _ hI, ?_⟩
  · exact Nat.div_lt_of_lt_mul (by rw [Nat.mul_comm]; exact h)
  · exact Nat.div_lt_of_lt_mul (Nat.mul_comm m inner ▸ hr)
  · have h1 := Nat.div_add_mod j (m * inner)
    have h2 := Nat.div_add_mod (j % (m * inner)) inner
    rw [Nat.mul_assoc, Nat.mul_comm (j / (m * inner)), Nat.mul_comm (j % (m * inner) / inner)]
    omega

theorem ext_getD {α} (l₁ l₂ : List α) (d : α) (hl : l₁.length = l₂.length)
    (h : ∀ j, j < l₁.length → l₁.getD j d = l₂.getD j d) : l₁ = l₂ := by
  apply List.ext_getElem hl
  intro j h1 h2
  have := h j h1
  simpa [List.getD_eq_getElem?_getD, List.getElem?_eq_getElem h1, List.getElem?_eq_getElem h2] using this

theorem fibre_getD (D : List α) (n inner o i k : Nat) (hk : k < n) :
    (fibre D n inner o i).getD k default = D.getD (o * n * inner + k * inner + i) default := by
  simp [fibre, List.getD_eq_getElem?_getD, List.getElem?_map, List.getElem?_range hk]

/-- congruence: only the values of `f` on lists of length `n` matter -/
theorem fibres_congr (D : List α) (outer n inner : Nat) (f g : List α → List α)
    (h : ∀ xs : List α, xs.length = n → f xs = g xs) :
    fibres D outer n inner f = fibres D outer n inner g := by
  unfold fibres
  congr 1; funext o
  apply List.map_congr_left
  intro i _
  exact h _ (fibre_length ..)

/-- interleaving the untouched fibres gives the data back -/
theorem gather_fibres_id (D : List α) (outer n inner : Nat) (hD : D.length = outer * (n * inner)) :
    gather (fibres D outer n inner id) outer n inner = D := by
  apply ext_getD _ _ default
  · rw [gather_length, hD]
  · intro j hj
    rw [gather_length] at hj
    obtain ⟨o, k, i, ho, hk, hi, rfl⟩ := idx3_decomp j outer n inner hj
    rw [gather_getD _ _ _ _ o k i ho hk hi, fibres_getD _ _ _ _ _ o i ho hi, id, fibre_getD _ _ _ _ _ _ hk]

/-! ### `alongAxisL`: normal form under length-uniformity -/

theorem alongAxisL_eq (t : Tensor α) (axis : Nat) (f : List α → List α) (m : Nat)
    (hf : LenUniform f (t.shape.getD axis 1) m) :
    t.alongAxisL axis f =
      { shape := t.shape.set axis m,
        data := gather (fibres t.data (prod (t.shape.take axis)) (t.shape.getD axis 1)
                  (prod (t.shape.drop (axis + 1))) f)
                  (prod (t.shape.take axis)) m (prod (t.shape.drop (axis + 1))) } := by
  unfold alongAxisL
  simp only [outLen_fibres _ _ _ _ f m hf]

theorem getD_set_self (s : List Nat) (axis m d : Nat) (hax : axis < s.length) :
    (s.set axis m).getD axis d = m := by
  rw [List.getD_eq_getElem?_getD, List.getElem?_set_self hax]; rfl

/-! ## The laws, for the array-based `Tensor.alongAxis` that the drivers execute

Below `n = t.shape.getD axis 1` is the length of the axis (`= t.shape[axis]` when
`axis < t.shape.length`), `outer = prod (t.shape.take axis)`, `inner = prod (t.shape.drop (axis+1))`. -/

/-- normal form of `alongAxis` for a length-uniform `f` -/
theorem alongAxis_eq (t : Tensor α) (axis : Nat) (f : List α → List α) (m : Nat)
    (hf : LenUniform f (t.shape.getD axis 1) m) :
    t.alongAxis axis f =
      { shape := t.shape.set axis m,
        data := gather (fibres t.data (prod (t.shape.take axis)) (t.shape.getD axis 1)
                  (prod (t.shape.drop (axis + 1))) f)
                  (prod (t.shape.take axis)) m (prod (t.shape.drop (axis + 1))) } := by
  rw [alongAxis_eq_alongAxisL, alongAxisL_eq t axis f m hf]

theorem alongAxis_shape (t : Tensor α) (axis : Nat) (f : List α → List α) (m : Nat)
    (hf : LenUniform f (t.shape.getD axis 1) m) :
    (t.alongAxis axis f).shape = t.shape.set axis m := by
  rw [alongAxis_eq t axis f m hf]

theorem alongAxis_data_length (t : Tensor α) (axis : Nat) (f : List α → List α) (m : Nat)
    (hf : LenUniform f (t.shape.getD axis 1) m) :
    (t.alongAxis axis f).data.length = prod (t.shape.take axis) * (m * prod (t.shape.drop (axis + 1))) := by
  rw [alongAxis_eq t axis f m hf, gather_length]

/-- the result is well-formed (whether or not the input was) -/
theorem alongAxis_wellFormed (t : Tensor α) (axis : Nat) (f : List α → List α) (m : Nat)
    (hax : axis < t.shape.length) (hf : LenUniform f (t.shape.getD axis 1) m) :
    (t.alongAxis axis f).data.length = prod (t.alongAxis axis f).shape := by
  rw [alongAxis_data_length t axis f m hf, alongAxis_shape t axis f m hf, prod_set _ _ _ hax, Nat.mul_assoc]

omit [Inhabited α] in
theorem wellFormed_iff (t : Tensor α) : t.wellFormed = true ↔ t.data.length = prod t.shape := by
  simp [wellFormed]

theorem alongAxis_wellFormed' (t : Tensor α) (axis : Nat) (f : List α → List α) (m : Nat)
    (hax : axis < t.shape.length) (hf : LenUniform f (t.shape.getD axis 1) m) :
    (t.alongAxis axis f).wellFormed = true :=
  (wellFormed_iff _).mpr (alongAxis_wellFormed t axis f m hax hf)

/-- **the `(o, i)` fibre of the result is `f` applied to the `(o, i)` fibre of the input** -/
theorem alongAxis_fibre (t : Tensor α) (axis : Nat) (f : List α → List α) (m : Nat)
    (hf : LenUniform f (t.shape.getD axis 1) m) (o i : Nat)
    (ho : o < prod (t.shape.take axis)) (hi : i < prod (t.shape.drop (axis + 1))) :
    fibre (t.alongAxis axis f).data m (prod (t.shape.drop (axis + 1))) o i =
      f (fibre t.data (t.shape.getD axis 1) (prod (t.shape.drop (axis + 1))) o i) := by
  rw [alongAxis_eq t axis f m hf]
  show fibre (gather _ _ _ _) _ _ _ _ = _
  have hg := fibres_getD t.data (prod (t.shape.take axis)) (t.shape.getD axis 1)
    (prod (t.shape.drop (axis + 1))) f o i ho hi
  rw [fibre_gather _ _ _ _ o i ho hi (by rw [hg]; exact hf _ (fibre_length ..)), hg]

/-- element-wise reading of the same fact -/
theorem alongAxis_getD (t : Tensor α) (axis : Nat) (f : List α → List α) (m : Nat)
    (hf : LenUniform f (t.shape.getD axis 1) m) (o k i : Nat)
    (ho : o < prod (t.shape.take axis)) (hk : k < m) (hi : i < prod (t.shape.drop (axis + 1))) :
    (t.alongAxis axis f).data.getD (o * m * prod (t.shape.drop (axis + 1)) + k * prod (t.shape.drop (axis + 1)) + i)
        default =
      (f (fibre t.data (t.shape.getD axis 1) (prod (t.shape.drop (axis + 1))) o i)).getD k default := by
  rw [← alongAxis_fibre t axis f m hf o i ho hi, fibre_getD _ _ _ _ _ _ hk]

/-- only the values of `f` on lists of the axis length matter (no side conditions) -/
theorem alongAxis_congr (t : Tensor α) (axis : Nat) (f g : List α → List α)
    (h : ∀ xs : List α, xs.length = t.shape.getD axis 1 → f xs = g xs) :
    t.alongAxis axis f = t.alongAxis axis g := by
  rw [alongAxis_eq_alongAxisL, alongAxis_eq_alongAxisL]
  unfold alongAxisL
  have hF := fibres_congr t.data (prod (t.shape.take axis)) (t.shape.getD axis 1)
    (prod (t.shape.drop (axis + 1))) f g h
  have hm : ∀ F : List (List α), outLen F (t.shape.getD axis 1) f = outLen F (t.shape.getD axis 1) g := by
    intro F
    cases F with
    | nil => show (f _).length = (g _).length; rw [h _ (by simp)]
    | cons x xs => rfl
  simp only [hF, hm]

/-- a function that fixes every list of the axis length acts as the identity -/
theorem alongAxis_id_of (t : Tensor α) (axis : Nat) (f : List α → List α)
    (hwf : t.data.length = prod t.shape) (hax : axis < t.shape.length)
    (h : ∀ xs : List α, xs.length = t.shape.getD axis 1 → f xs = xs) :
    t.alongAxis axis f = t := by
  rw [alongAxis_congr t axis f id h, alongAxis_eq t axis id (t.shape.getD axis 1) (fun _ h => h)]
  have hn : t.shape.getD axis 1 = t.shape[axis] := by
    rw [List.getD_eq_getElem?_getD, List.getElem?_eq_getElem hax]; rfl
  rw [gather_fibres_id _ _ _ _ (by rw [hwf, prod_split _ _ hax, hn, Nat.mul_assoc]), hn,
    List.set_getElem_self]

theorem alongAxis_id (t : Tensor α) (axis : Nat)
    (hwf : t.data.length = prod t.shape) (hax : axis < t.shape.length) :
    t.alongAxis axis id = t :=
  alongAxis_id_of t axis id hwf hax (fun _ _ => rfl)

/-- **functoriality**: lifting `f` and then `g` along the same axis is lifting `g ∘ f` -/
theorem alongAxis_comp (t : Tensor α) (axis : Nat) (f g : List α → List α) (m p : Nat)
    (hax : axis < t.shape.length)
    (hf : LenUniform f (t.shape.getD axis 1) m) (hg : LenUniform g m p) :
    (t.alongAxis axis f).alongAxis axis g = t.alongAxis axis (g ∘ f) := by
  have hgf : LenUniform (g ∘ f) (t.shape.getD axis 1) p := fun xs hxs => hg _ (hf xs hxs)
  have hs : (t.alongAxis axis f).shape = t.shape.set axis m := alongAxis_shape t axis f m hf
  have hn' : (t.alongAxis axis f).shape.getD axis 1 = m := by rw [hs, getD_set_self _ _ _ _ hax]
  rw [alongAxis_eq (t.alongAxis axis f) axis g p (by rw [hn']; exact hg), alongAxis_eq t axis (g ∘ f) p hgf,
    hn', hs, List.set_set, List.take_set_of_le (Nat.le_refl _), List.drop_set_of_lt (Nat.lt_succ_self _)]
  congr 2
  unfold fibres
  apply flatMap_congr_mem
  intro o ho
  apply List.map_congr_left
  intro i hi
  rw [alongAxis_fibre t axis f m hf o i (List.mem_range.mp ho) (List.mem_range.mp hi)]
  rfl

/-- **cancellation**: if `g` undoes `f` on every list of the axis length, lifting `f` and then `g`
along the same axis of a well-formed tensor gives the tensor back -/
theorem alongAxis_cancel (t : Tensor α) (axis : Nat) (f g : List α → List α) (m : Nat)
    (hwf : t.data.length = prod t.shape) (hax : axis < t.shape.length)
    (hf : LenUniform f (t.shape.getD axis 1) m) (hg : LenUniform g m (t.shape.getD axis 1))
    (h : ∀ xs : List α, xs.length = t.shape.getD axis 1 → g (f xs) = xs) :
    (t.alongAxis axis f).alongAxis axis g = t := by
  rw [alongAxis_comp t axis f g m _ hax hf hg]
  exact alongAxis_id_of t axis (g ∘ f) hwf hax h

/-! ## Commutation of liftings along two different axes -/

theorem idx_o_lt (α' x μ A n M : Nat) (h1 : α' < A) (h2 : x < n) (h3 : μ < M) :
    (α' * n + x) * M + μ < A * n * M :=
  idx2_lt _ _ _ _ (idx2_lt _ _ _ _ h1 h2) h3

theorem idx_i_lt (μ j c M n C : Nat) (h1 : μ < M) (h2 : j < n) (h3 : c < C) :
    μ * n * C + j * C + c < M * n * C := by
  have := idx2_lt _ _ _ _ (idx2_lt _ _ _ _ h1 h2) h3
  rw [Nat.add_mul] at this; omega

/-- `fibre` only looks at the `n` addressed entries -/
theorem fibre_congr (D D' : List α) (n inner o i n' inner' o' i' : Nat) (hn : n = n')
    (h : ∀ k, k < n → D.getD (o * n * inner + k * inner + i) default =
      D'.getD (o' * n' * inner' + k * inner' + i') default) :
    fibre D n inner o i = fibre D' n' inner' o' i' := by
  subst hn
  unfold fibre
  apply List.map_congr_left
  intro k hk
  exact h k (List.mem_range.mp hk)

theorem fibre_const (D : List α) (n inner o i : Nat) (c : α)
    (h : ∀ k, k < n → D.getD (o * n * inner + k * inner + i) default = c) :
    fibre D n inner o i = List.replicate n c := by
  unfold fibre
  rw [List.map_congr_left (g := fun _ => c) (fun k hk => h k (List.mem_range.mp hk))]
  clear h
  induction n with
  | zero => rfl
  | succ n ih => rw [List.range_succ, List.map_append, ih]; simp [List.replicate_succ']

/-- value of the lifted data at `(o, k, i)` for a gather -/
theorem gather_fibres_getD (D : List α) (outer n m inner : Nat) (f : List α → List α)
    (σ : Nat → Option Nat) (c : α) (hf : IsGather f n m σ c) (o k i : Nat)
    (ho : o < outer) (hk : k < m) (hi : i < inner) :
    (gather (fibres D outer n inner f) outer m inner).getD (o * m * inner + k * inner + i) default =
      match σ k with
      | some j => D.getD (o * n * inner + j * inner + i) default
      | none => c := by
  rw [gather_getD _ _ _ _ o k i ho hk hi, fibres_getD _ _ _ _ _ o i ho hi,
    hf.get _ (fibre_length ..) k hk]
  cases hσ : σ k with
  | none => rfl
  | some j => exact fibre_getD _ _ _ _ _ _ (hf.bound k j hk hσ)

/-- 5-index decomposition of a flat offset into `A × ma × M × mb × C` -/
theorem idx5_decomp (j A ma M mb C : Nat) (h : j < A * (ma * (M * mb * C))) :
    ∃ a k μ l c, a < A ∧ k < ma ∧ μ < M ∧ l < mb ∧ c < C ∧
      j = a * ma * (M * mb * C) + k * (M * mb * C) + (μ * mb * C + l * C + c) := by
  obtain ⟨a, k, i, ha, hk, hi, rfl⟩ := idx3_decomp j A ma (M * mb * C) h
  rw [Nat.mul_assoc] at hi
  obtain ⟨μ, l, c, hμ, hl, hc, rfl⟩ := idx3_decomp i M mb C hi
  exact ⟨a, k, μ, l, c, ha, hk, hμ, hl, hc, rfl⟩

/-- **data-level commutation, gather on the earlier axis**: view `D` as `A × na × M × nb × C`;
lifting a gather `f` along the 2nd index and any length-uniform `g` along the 4th commute. -/
theorem comm_data_gather_first (D : List α) (A na M nb C ma mb : Nat) (f g : List α → List α)
    (σ : Nat → Option Nat) (c : α) (hf : IsGather f na ma σ c)
    (hfill : ∀ k, k < ma → σ k = none → ∀ l, l < mb → (g (List.replicate nb c)).getD l default = c) :
    gather (fibres (gather (fibres D A na (M * nb * C) f) A ma (M * nb * C)) (A * ma * M) nb C g)
        (A * ma * M) mb C =
      gather (fibres (gather (fibres D (A * na * M) nb C g) (A * na * M) mb C) A na (M * mb * C) f)
        A ma (M * mb * C) := by
  apply ext_getD _ _ default
  · rw [gather_length, gather_length]; grind
  · intro j hj
    rw [gather_length] at hj
    have hj' : j < A * (ma * (M * mb * C)) := by
      have e : A * ma * M * (mb * C) = A * (ma * (M * mb * C)) := by grind
      omega
    obtain ⟨a, k, μ, l, c', ha, hk, hμ, hl, hc, rfl⟩ := idx5_decomp j A ma M mb C hj'
    have hi' : μ * mb * C + l * C + c' < M * mb * C := idx_i_lt _ _ _ _ _ _ hμ hl hc
    -- right-hand side
    rw [gather_fibres_getD _ _ _ _ _ f σ c hf a k _ ha hk hi']
    -- left-hand side
    have e1 : a * ma * (M * mb * C) + k * (M * mb * C) + (μ * mb * C + l * C + c') =
        ((a * ma + k) * M + μ) * mb * C + l * C + c' := by grind
    rw [e1, gather_getD _ _ _ _ _ l c' (idx_o_lt _ _ _ _ _ _ ha hk hμ) hl hc,
      fibres_getD _ _ _ _ _ _ c' (idx_o_lt _ _ _ _ _ _ ha hk hμ) hc]
    cases hσ : σ k with
    | none =>
      rw [fibre_const _ _ _ _ _ c]
      · exact hfill k hk hσ l hl
      · intro jj hjj
        have e2 : ((a * ma + k) * M + μ) * nb * C + jj * C + c' =
            a * ma * (M * nb * C) + k * (M * nb * C) + (μ * nb * C + jj * C + c') := by grind
        rw [e2, gather_fibres_getD _ _ _ _ _ f σ c hf a k _ ha hk (idx_i_lt _ _ _ _ _ _ hμ hjj hc), hσ]
    | some x =>
      have hx := hf.bound k x hk hσ
      have e3 : a * na * (M * mb * C) + x * (M * mb * C) + (μ * mb * C + l * C + c') =
          ((a * na + x) * M + μ) * mb * C + l * C + c' := by grind
      simp only []
      rw [e3, gather_getD _ _ _ _ _ l c' (idx_o_lt _ _ _ _ _ _ ha hx hμ) hl hc,
        fibres_getD _ _ _ _ _ _ c' (idx_o_lt _ _ _ _ _ _ ha hx hμ) hc]
      congr 2
      apply fibre_congr _ _ _ _ _ _ _ _ _ _ rfl
      intro jj hjj
      have e2 : ((a * ma + k) * M + μ) * nb * C + jj * C + c' =
          a * ma * (M * nb * C) + k * (M * nb * C) + (μ * nb * C + jj * C + c') := by grind
      have e4 : ((a * na + x) * M + μ) * nb * C + jj * C + c' =
          a * na * (M * nb * C) + x * (M * nb * C) + (μ * nb * C + jj * C + c') := by grind
      rw [e2, gather_fibres_getD _ _ _ _ _ f σ c hf a k _ ha hk (idx_i_lt _ _ _ _ _ _ hμ hjj hc), hσ, e4]

/-- **data-level commutation, gather on the later axis**: any length-uniform `g` along the 2nd index
and a gather `f` along the 4th commute. -/
theorem comm_data_gather_second (D : List α) (A na M nb C ma mb : Nat) (g f : List α → List α)
    (σ : Nat → Option Nat) (c : α) (hf : IsGather f nb mb σ c)
    (hfill : ∀ l, l < mb → σ l = none → ∀ k, k < ma → (g (List.replicate na c)).getD k default = c) :
    gather (fibres (gather (fibres D A na (M * nb * C) g) A ma (M * nb * C)) (A * ma * M) nb C f)
        (A * ma * M) mb C =
      gather (fibres (gather (fibres D (A * na * M) nb C f) (A * na * M) mb C) A na (M * mb * C) g)
        A ma (M * mb * C) := by
  apply ext_getD _ _ default
  · rw [gather_length, gather_length]; grind
  · intro j hj
    rw [gather_length] at hj
    have hj' : j < A * (ma * (M * mb * C)) := by
      have e : A * ma * M * (mb * C) = A * (ma * (M * mb * C)) := by grind
      omega
    obtain ⟨a, k, μ, l, c', ha, hk, hμ, hl, hc, rfl⟩ := idx5_decomp j A ma M mb C hj'
    have hi' : μ * mb * C + l * C + c' < M * mb * C := idx_i_lt _ _ _ _ _ _ hμ hl hc
    -- right-hand side
    rw [gather_getD _ _ _ _ a k _ ha hk hi', fibres_getD _ _ _ _ _ a _ ha hi']
    -- left-hand side
    have e1 : a * ma * (M * mb * C) + k * (M * mb * C) + (μ * mb * C + l * C + c') =
        ((a * ma + k) * M + μ) * mb * C + l * C + c' := by grind
    rw [e1, gather_fibres_getD _ _ _ _ _ f σ c hf _ l c' (idx_o_lt _ _ _ _ _ _ ha hk hμ) hl hc]
    have hT2 : ∀ x, x < na →
        (gather (fibres D (A * na * M) nb C f) (A * na * M) mb C).getD
          (a * na * (M * mb * C) + x * (M * mb * C) + (μ * mb * C + l * C + c')) default =
        match σ l with
        | some y => D.getD (((a * na + x) * M + μ) * nb * C + y * C + c') default
        | none => c := by
      intro x hx
      have e3 : a * na * (M * mb * C) + x * (M * mb * C) + (μ * mb * C + l * C + c') =
          ((a * na + x) * M + μ) * mb * C + l * C + c' := by grind
      rw [e3, gather_fibres_getD _ _ _ _ _ f σ c hf _ l c' (idx_o_lt _ _ _ _ _ _ ha hx hμ) hl hc]
    cases hσ : σ l with
    | none =>
      rw [fibre_const _ _ _ _ _ c (fun x hx => by rw [hT2 x hx, hσ])]
      exact (hfill l hl hσ k hk).symm
    | some y =>
      have hy := hf.bound l y hl hσ
      have e2 : ((a * ma + k) * M + μ) * nb * C + y * C + c' =
          a * ma * (M * nb * C) + k * (M * nb * C) + (μ * nb * C + y * C + c') := by grind
      simp only []
      rw [e2, gather_getD _ _ _ _ a k _ ha hk (idx_i_lt _ _ _ _ _ _ hμ hy hc),
        fibres_getD _ _ _ _ _ a _ ha (idx_i_lt _ _ _ _ _ _ hμ hy hc)]
      congr 2
      apply fibre_congr _ _ _ _ _ _ _ _ _ _ rfl
      intro x hx
      have e4 : ((a * na + x) * M + μ) * nb * C + y * C + c' =
          a * na * (M * nb * C) + x * (M * nb * C) + (μ * nb * C + y * C + c') := by grind
      rw [hT2 x hx, hσ]
      exact congrArg (fun z => D.getD z default) e4.symm

/-! ### shapes seen from two axes `a < b` -/
theorem shape_split2 (s : List Nat) (a b : Nat) (hab : a < b) (hb : b < s.length) :
    ∃ M, (∀ x, prod ((s.set a x).take b) = prod (s.take a) * x * M) ∧
         (∀ y, prod ((s.set b y).drop (a + 1)) = M * y * prod (s.drop (b + 1))) := by
  refine ⟨prod ((s.drop (a + 1)).take (b - (a + 1))), ?_, ?_⟩
  · intro x
    have hl : a < (s.take b).length := by rw [List.length_take]; omega
    rw [List.take_set, prod_set _ _ _ hl, List.take_take, Nat.min_eq_left (Nat.le_of_lt hab), List.drop_take]
  · intro y
    have hl : b - (a + 1) < (s.drop (a + 1)).length := by rw [List.length_drop]; omega
    rw [List.drop_set, if_neg (by omega), prod_set _ _ _ hl, List.drop_drop]
    congr 2; congr 1; omega

theorem set_getD_self (s : List Nat) (a : Nat) : s.set a (s.getD a 1) = s := by
  by_cases h : a < s.length
  · rw [List.getD_eq_getElem?_getD, List.getElem?_eq_getElem h]; exact List.set_getElem_self h
  · exact List.set_eq_of_length_le (by omega)

theorem getD_set_ne (s : List Nat) (a b x d : Nat) (h : a ≠ b) : (s.set a x).getD b d = s.getD b d := by
  rw [List.getD_eq_getElem?_getD, List.getD_eq_getElem?_getD, List.getElem?_set_ne h]

/-- tensor-level commutation for axes `a < b`, reduced to the data-level equation -/
theorem alongAxis_comm_of_data (t : Tensor α) (a b : Nat) (f g : List α → List α) (ma mb : Nat)
    (hab : a < b) (hb : b < t.shape.length)
    (hf : LenUniform f (t.shape.getD a 1) ma) (hg : LenUniform g (t.shape.getD b 1) mb)
    (hdata : ∀ A M C : Nat,
      gather (fibres (gather (fibres t.data A (t.shape.getD a 1) (M * t.shape.getD b 1 * C) f) A ma
          (M * t.shape.getD b 1 * C)) (A * ma * M) (t.shape.getD b 1) C g) (A * ma * M) mb C =
      gather (fibres (gather (fibres t.data (A * t.shape.getD a 1 * M) (t.shape.getD b 1) C g)
          (A * t.shape.getD a 1 * M) mb C) A (t.shape.getD a 1) (M * mb * C) f) A ma (M * mb * C)) :
    (t.alongAxis a f).alongAxis b g = (t.alongAxis b g).alongAxis a f := by
  obtain ⟨M, hM1, hM2⟩ := shape_split2 t.shape a b hab hb
  have hne : a ≠ b := by omega
  have hsa : (t.alongAxis a f).shape = t.shape.set a ma := alongAxis_shape t a f ma hf
  have hsb : (t.alongAxis b g).shape = t.shape.set b mb := alongAxis_shape t b g mb hg
  have hnb : (t.alongAxis a f).shape.getD b 1 = t.shape.getD b 1 := by rw [hsa, getD_set_ne _ _ _ _ _ hne]
  have hna : (t.alongAxis b g).shape.getD a 1 = t.shape.getD a 1 := by rw [hsb, getD_set_ne _ _ _ _ _ hne.symm]
  rw [alongAxis_eq (t.alongAxis a f) b g mb (by rw [hnb]; exact hg),
    alongAxis_eq (t.alongAxis b g) a f ma (by rw [hna]; exact hf), hnb, hna, hsa, hsb,
    alongAxis_eq t a f ma hf, alongAxis_eq t b g mb hg]
  simp only []
  have h1 := hM1 (t.shape.getD a 1)
  have h2 := hM2 (t.shape.getD b 1)
  rw [set_getD_self] at h1 h2
  rw [hM1 ma, hM2 mb, h1, h2, List.drop_set_of_lt (show a < b + 1 by omega),
    List.take_set_of_le (Nat.le_of_lt hab), List.set_comm _ _ hne, hdata]

omit [Inhabited α] in
theorem getD_replicate_lt (n k : Nat) (c d : α) (h : k < n) : (List.replicate n c).getD k d = c := by
  rw [List.getD_eq_getElem?_getD, List.getElem?_replicate, if_pos h]; rfl

/-- **commutation across two different axes**: lifting an index gather `f` (roll, flip, crop, slice,
constant pad …) along axis `a` commutes with lifting *any* length-uniform `g` along a different axis
`b`; if `f` really fills (some `σ k = none`), `g` must map the constant list to the constant list.
(For two arbitrary length-uniform functions the statement is false, see
`alongAxis_comm_fails_in_general`.) -/
theorem alongAxis_comm_gather (t : Tensor α) (a b : Nat) (f g : List α → List α) (ma mb : Nat)
    (σ : Nat → Option Nat) (c : α) (hne : a ≠ b) (ha : a < t.shape.length) (hb : b < t.shape.length)
    (hf : IsGather f (t.shape.getD a 1) ma σ c) (hg : LenUniform g (t.shape.getD b 1) mb)
    (hfill : (∃ k, k < ma ∧ σ k = none) →
      g (List.replicate (t.shape.getD b 1) c) = List.replicate mb c) :
    (t.alongAxis a f).alongAxis b g = (t.alongAxis b g).alongAxis a f := by
  have hfill' : ∀ k, k < ma → σ k = none → ∀ l, l < mb →
      (g (List.replicate (t.shape.getD b 1) c)).getD l default = c := by
    intro k hk hσ l hl
    rw [hfill ⟨k, hk, hσ⟩, getD_replicate_lt _ _ _ _ hl]
  rcases Nat.lt_or_gt_of_ne hne with hab | hba
  · exact alongAxis_comm_of_data t a b f g ma mb hab hb hf.len hg
      (fun A M C => comm_data_gather_first t.data A _ M _ C ma mb f g σ c hf hfill')
  · exact (alongAxis_comm_of_data t b a g f mb ma hba ha hg hf.len
      (fun A M C => comm_data_gather_second t.data A _ M _ C mb ma g f σ c hf hfill')).symm

/-- `IsGather` only depends on the values on lists of length `n` -/
theorem _root_.DirectVerif.Tensor.IsGather.congr {f f' : List α → List α} {n m : Nat} {σ : Nat → Option Nat} {c : α}
    (hf : IsGather f n m σ c) (h : ∀ xs : List α, xs.length = n → f' xs = f xs) : IsGather f' n m σ c :=
  ⟨fun xs hxs => by rw [h xs hxs]; exact hf.len xs hxs, hf.bound,
   fun xs hxs k hk => by rw [h xs hxs]; exact hf.get xs hxs k hk⟩

/-- a gather without fill, given by its index map -/
theorem _root_.DirectVerif.Tensor.IsGather.of_getElem? {f : List α → List α} {n m : Nat} (τ : Nat → Nat) (c : α)
    (hlen : LenUniform f n m) (hb : ∀ k, k < m → τ k < n)
    (hget : ∀ xs : List α, xs.length = n → ∀ k, k < m → (f xs)[k]? = xs[τ k]?) :
    IsGather f n m (fun k => some (τ k)) c :=
  ⟨hlen, fun k j hk e => by cases e; exact hb k hk,
   fun xs hxs k hk => by
     simp only [List.getD_eq_getElem?_getD, hget xs hxs k hk]⟩


end DirectVerif.TensorLift
