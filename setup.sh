#!/bin/sh
# Build everything the checks need from files on disk only (offline).
set -e
here="$(cd "$(dirname "$0")" && pwd)"
cd "$here"
export PYTHONDONTWRITEBYTECODE=1 PYTHONWARNINGS=ignore
# 1. out-of-tree build of the Cython kernels (falls back to the .pyx front-end when impossible)
/venv/bin/python -c "import sys; sys.path.insert(0,'harness'); import boot; import direct.common.subsample, direct.ssl.ssl; print(boot.ext_info)" || true
# 2. regenerate the translated Lean files and build the whole Lean project
/venv/bin/python - <<'PY'
import sys, pathlib
sys.path.insert(0, 'harness')
from translate.gen import generate
import re
props = sorted({p.stem for p in pathlib.Path('lean/DirectVerif/Props').glob('C*.lean')} |
               {p.stem for p in pathlib.Path('lean/DirectVerif/Bridge').glob('C*.lean')})
for p in props:
    print(p, generate(p))
PY
cd lean
mods="DirectVerif"
for f in DirectVerif/Props/*.lean DirectVerif/Bridge/*.lean; do
  [ -f "$f" ] || continue
  m=$(echo "${f%.lean}" | tr / .)
  mods="$mods $m"
done
# a failing proof module must not fail the setup: the per-property check reports it
lake build $mods 2>&1 | tail -5 || true
