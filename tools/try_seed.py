#!/usr/bin/env python3
"""Run checks against a seeded change without touching /repo.

  tools/try_seed.py <seed_dir> [PROP ...] [--tier quick|thorough] [--demo]

<seed_dir> holds patch.diff (+ demo.py, meta.json).  A scratch worktree of /repo's HEAD is created under
/tmp, the patch applied, the given checks (default: the property named in meta.json) run with
VERIF_REPO pointing at it, and the worktree removed.  Prints one line per check:
  <seed> <PROP> exit=<code> <first VIOLATION line or 'quiet'>
With --demo the seed's demo.py is also run on the clean and on the patched worktree.
"""
import json
import os
import pathlib
import shutil
import subprocess
import sys
import tempfile

VERIF = pathlib.Path(__file__).resolve().parent.parent


def sh(cmd, **kw):
    return subprocess.run(cmd, capture_output=True, text=True, **kw)


def main():
    args = [a for a in sys.argv[1:] if not a.startswith("--")]
    tier = "quick"
    if "--tier" in sys.argv:
        tier = sys.argv[sys.argv.index("--tier") + 1]
        args.remove(tier)
    demo = "--demo" in sys.argv
    seed_dir = pathlib.Path(args[0]).resolve()
    meta = json.loads((seed_dir / "meta.json").read_text()) if (seed_dir / "meta.json").exists() else {}
    props = args[1:] or [meta.get("property") or seed_dir.name.split("-")[0].lstrip("R") or seed_dir.name[:3]]
    wt = pathlib.Path(tempfile.mkdtemp(prefix="mut_", dir="/tmp"))
    wt.rmdir()
    r = sh(["git", "-C", "/repo", "worktree", "add", "--detach", str(wt), "HEAD"])
    if r.returncode != 0:
        print("worktree failed", r.stderr)
        return 2
    try:
        for rel in ("direct/common/_gaussian.c", "direct/common/_poisson.c", "direct/ssl/_gaussian_fill.c"):
            src = pathlib.Path("/repo") / rel
            if src.exists():
                shutil.copy(src, wt / rel)
        env = dict(os.environ, VERIF_REPO=str(wt), PYTHONDONTWRITEBYTECODE="1")
        if demo and (seed_dir / "demo.py").exists():
            r0 = sh(["/venv/bin/python", str(seed_dir / "demo.py")], env=env, cwd=str(wt), timeout=900)
            print(f"{seed_dir.name} demo clean exit={r0.returncode}")
        r = sh(["git", "-C", str(wt), "apply", str(seed_dir / "patch.diff")])
        if r.returncode != 0:
            print(f"{seed_dir.name} patch does not apply: {r.stderr.strip()[:300]}")
            return 2
        if demo and (seed_dir / "demo.py").exists():
            r1 = sh(["/venv/bin/python", str(seed_dir / "demo.py")], env=env, cwd=str(wt), timeout=900)
            print(f"{seed_dir.name} demo patched exit={r1.returncode} {(r1.stdout + r1.stderr).strip()[-200:]!r}")
        for p in props:
            ev = VERIF / "evidence" / f"{p}.json"
            saved = ev.read_bytes() if ev.exists() else None
            r = sh([str(VERIF / "check"), p, "--tier", tier], env=env, cwd=str(VERIF), timeout=7200)
            viol = [l for l in r.stdout.split("\n") if l.startswith("VIOLATION")]
            known = [l for l in r.stdout.split("\n") if l.startswith("KNOWN-FINDING")]
            concrete = [l for l in viol if not l.rstrip().endswith("no-failing-input-found")]
            first = (concrete or viol or ["quiet"])[0]
            print(f"{seed_dir.name} {p} exit={r.returncode} {first}"
                  + (f" [{len(viol)} VIOLATION lines, {len(concrete)} with a concrete replay; {len(known)} known]" if viol else
                     (f" [{len(known)} known findings only]" if known else "")))
            if r.returncode == 2:
                print("   tool failure:", (r.stderr or r.stdout).strip()[-400:])
            if saved is not None:
                ev.write_bytes(saved)
    finally:
        sh(["git", "-C", "/repo", "worktree", "remove", "--force", str(wt)])
        shutil.rmtree(wt, ignore_errors=True)
    return 0


if __name__ == "__main__":
    sys.exit(main())
