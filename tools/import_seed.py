#!/usr/bin/env python3
"""tools/import_seed.py /tmp/seed_out/<id> [...] — copy an independently produced seeded change into seeded/<id>/,
making demo.py self-contained (uses harness/boot.py instead of the seeders' /tmp/seedtools/envboot.py)."""
import json, pathlib, shutil, subprocess, sys
V = pathlib.Path(__file__).resolve().parent.parent
for src in map(pathlib.Path, sys.argv[1:]):
    if not (src / "patch.diff").exists():
        print(src.name, "no patch.diff"); continue
    dst = V / "seeded" / src.name
    dst.mkdir(parents=True, exist_ok=True)
    shutil.copy(src / "patch.diff", dst / "patch.diff")
    if (src / "demo.py").exists():
        d = (src / "demo.py").read_text()
        d = d.replace('"/tmp/seedtools"', 'str(__import__("pathlib").Path(__file__).resolve().parents[2] / "harness")')
        d = d.replace("'/tmp/seedtools'", 'str(__import__("pathlib").Path(__file__).resolve().parents[2] / "harness")')
        d = d.replace("import envboot", "import boot as envboot")
        d = d.replace("SEED_REPO", "VERIF_REPO")
        (dst / "demo.py").write_text(d)
    meta = json.loads((src / "meta.json").read_text()) if (src / "meta.json").exists() else {}
    meta.setdefault("property", src.name.split("-")[0])
    meta["origin"] = "independent sub-agent given only the property text and a scratch worktree"
    (dst / "meta.json").write_text(json.dumps(meta, indent=1))
    r = subprocess.run(["git", "-C", "/repo", "apply", "--check", str(dst / "patch.diff")], capture_output=True, text=True)
    print(src.name, "imported;", "applies to /repo HEAD" if r.returncode == 0 else "DOES NOT APPLY: " + r.stderr.strip()[:200])
