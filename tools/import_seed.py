#!/usr/bin/env python3
"""tools/import_seed.py /tmp/seed_out/<id> [...] — copy an independently produced seeded change into seeded/<id>/,
making demo.py self-contained (uses harness/boot.py instead of the seeders' /tmp/seedtools/envboot.py)."""
import json, pathlib, shutil, subprocess, sys
V = pathlib.Path(__file__).resolve().parent.parent
for src in map(pathlib.Path, sys.argv[1:]):
    if not (src / "patch.diff").exists():
        print(src.name, "no patch.diff"); continue
    dst = V / "seeded" / src.name
    dst.mkdir(parents=True, exist_ok=True)
    shutil.copy(src / "patch.diff", dst / "patch.diff")
    if (src / "demo.py").exists():
        d = (src / "demo.py").read_text()
        # the shim location is taken from the environment so that scripts the demo writes for child processes find it too
        d = d.replace('"/tmp/seedtools"', '__import__("os").environ["VERIF_HARNESS"]')
        d = d.replace("'/tmp/seedtools'", '__import__("os").environ["VERIF_HARNESS"]')
        import ast as _ast
        _line = 0
        for _node in _ast.parse(d).body:
            if isinstance(_node, _ast.Expr) and isinstance(getattr(_node, "value", None), _ast.Constant) and isinstance(_node.value.value, str) and _line == 0:
                _line = _node.end_lineno; continue
            if isinstance(_node, _ast.ImportFrom) and _node.module == "__future__":
                _line = _node.end_lineno; continue
            break
        _ls = d.split("\n")
        _ls.insert(_line, 'import os as _os, pathlib as _pl  # added on import into /verif: where the import shim lives (also for child processes)\n'
                          '_os.environ.setdefault("VERIF_HARNESS", str(_pl.Path(__file__).resolve().parents[2] / "harness"))')
        d = "\n".join(_ls)
        d = d.replace("import envboot", "import boot as envboot")
        d = d.replace("SEED_REPO", "VERIF_REPO")
        (dst / "demo.py").write_text(d)
    meta = json.loads((src / "meta.json").read_text()) if (src / "meta.json").exists() else {}
    meta.setdefault("property", src.name.split("-")[0])
    meta["origin"] = "independent sub-agent given only the property text and a scratch worktree"
    (dst / "meta.json").write_text(json.dumps(meta, indent=1))
    r = subprocess.run(["git", "-C", "/repo", "apply", "--check", str(dst / "patch.diff")], capture_output=True, text=True)
    print(src.name, "imported;", "applies to /repo HEAD" if r.returncode == 0 else "DOES NOT APPLY: " + r.stderr.strip()[:200])
