#!/usr/bin/env python3
"""tools/seed_matrix.py [--jobs 3] [seed ...] — run every seeded change under seeded/ against the check of its property
(tools/try_seed.py) and write seeded/RESULTS.md (which checks catch which changes)."""
import concurrent.futures as cf, json, pathlib, subprocess, sys, time
V = pathlib.Path(__file__).resolve().parent.parent
args = sys.argv[1:]
jobs = 3
merge = "--merge" in args   # keep the rows (and the preamble) of RESULTS.md for changes that are not re-run now
if merge:
    args.remove("--merge")
if "--jobs" in args:
    i = args.index("--jobs"); jobs = int(args[i + 1]); del args[i:i + 2]
claimed = [l.split("#")[0].strip() for l in (V / "harness/claimed.txt").read_text().split("\n") if l.split("#")[0].strip()]
seeds = [V / "seeded" / a for a in args] or sorted(p for p in (V / "seeded").iterdir() if (p / "patch.diff").exists())
def run(sd):
    meta = json.loads((sd / "meta.json").read_text())
    prop = meta.get("property") or sd.name.lstrip("R-").split("-")[0]
    if prop not in claimed:
        return sd.name, prop, "check-not-claimed", ""
    t = time.time()
    r = subprocess.run([sys.executable, str(V / "tools/try_seed.py"), str(sd), prop], capture_output=True, text=True)
    line = [l for l in r.stdout.split("\n") if l.startswith(sd.name + " " + prop)]
    return sd.name, prop, (line[0].split(" ", 2)[2] if line else r.stdout.strip()[-200:]), f"{time.time() - t:.0f}s"
rows = []
# seeds of one property share Gen/Cxx.lean and the driver of that property: run them one after the other, different
# properties in parallel
groups: dict[str, list] = {}
for sd in seeds:
    meta = json.loads((sd / "meta.json").read_text())
    groups.setdefault(meta.get("property") or sd.name.lstrip("R-").split("-")[0], []).append(sd)
def run_group(sds):
    out = []
    for sd in sds:
        out.append(run(sd))
        print(*out[-1], flush=True)
    return out
with cf.ThreadPoolExecutor(jobs) as ex:
    for res in ex.map(run_group, groups.values()):
        rows.extend(res)
rows.sort()
out = ["# Seeded changes vs checks", "", "| seed | property | result of `./check <property>` (quick) on the patched tree | time |", "|---|---|---|---|"]
for name, prop, res, dt in rows:
    meta = json.loads((V / "seeded" / name / "meta.json").read_text())
    out.append(f"| {name} — {meta.get('summary', '')[:110]} | {prop} | {res.replace('|', '/')} | {dt} |")
res_file = V / "seeded" / "RESULTS.md"
if merge and res_file.exists():
    old = res_file.read_text().split("\n")
    new_rows = {l.split(" ", 2)[1]: l for l in out[4:]}
    head = [l for l in old if not l.startswith("| ") or l.startswith("| seed ")]
    kept = {l.split(" ", 2)[1]: l for l in old if l.startswith("| ") and not l.startswith("| seed ")}
    kept.update(new_rows)
    while head and not head[-1].strip():
        head.pop()
    out = head + [kept[k] for k in sorted(kept)]
res_file.write_text("\n".join(out) + "\n")
