#!/usr/bin/env python3
"""Regenerate MANIFEST.json from harness/manifest_data.py (keeps the manifest valid at all times)."""
import json, pathlib, sys
HERE = pathlib.Path(__file__).resolve().parent.parent
sys.path.insert(0, str(HERE / "harness"))
from manifest_data import CLAIMED, NOT_APPLICABLE, NOTES  # noqa: E402

checks = []
for pid, d in sorted(CLAIMED.items()):
    checks.append({
        "property_id": pid,
        "quick_cmd": f"./check {pid} --tier quick",
        "thorough_cmd": f"./check {pid} --tier thorough",
        "evidence_file": f"evidence/{pid}.json",
        "replay_cmd_template": f"./check {pid} --replay {{path}}",
        "engine": "lean4-proof+correspondence",
        "level_claimed": {"category": "proof", "text": d["text"], "design_ref": d.get("design_ref", f"DESIGN.md section 8 ({pid})")},
        "level_note": d["note"],
        "technique": d["technique"],
    })
m = {
    "version": 1,
    "setup_cmd": "./setup.sh",
    "hooks": {
        "guard": "NKI_AI_DIRECT_VERIF",
        "enable": "no hooks in /repo are needed: instrumentation is done from the harness (attribute assignment, sub-classing, stub modules, out-of-tree extension build)",
        "baseline_off_cmd": "cd /repo && /venv/bin/python -m pytest -ra -q -p no:cacheprovider --timeout=900 --continue-on-collection-errors",
        "source_commits": [],
        "add_only": True,
    },
    "engines": [{
        "name": "lean4-proof+correspondence",
        "path": "lean/ (Lean 4 models, theorems, bridges) + harness/ (translator, correspondence, oracles)",
        "serves_properties": sorted(CLAIMED),
        "kind_free_text": "machine-checked Lean 4 theorems about executable models; models tied to /repo by a Python-AST->Lean translator (bridge lemmas) and by differential correspondence through a line-protocol driver; failing-input search on the real code when either breaks",
    }],
    "checks": checks,
    "notes": NOTES,
    "not_applicable": [{"property_id": k, "reason": v} for k, v in sorted(NOT_APPLICABLE.items())],
}
(HERE / "MANIFEST.json").write_text(json.dumps(m, indent=1) + "\n")
try:
    import jsonschema
    jsonschema.validate(m, json.load(open("/root/.vp/MANIFEST.schema.json")))
    print("MANIFEST.json valid;", len(checks), "checks,", len(m["not_applicable"]), "not_applicable")
except ImportError:
    print("MANIFEST.json written (jsonschema not available)")
