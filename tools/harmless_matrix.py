#!/usr/bin/env python3
"""tools/harmless_matrix.py [--jobs 3] [H-Cxx-n ...] — run every behaviour-preserving refactoring under harmless/ against
the check of its property (tools/try_seed.py with --demo) and write harmless/RESULTS.md.  The property holds on these
trees (each demo.py proves agreement with the unchanged code), so the expected result is exit 0 (quiet or KNOWN-FINDING
lines only); exit 1 is a false alarm."""
import concurrent.futures as cf, json, pathlib, subprocess, sys, time
V = pathlib.Path(__file__).resolve().parent.parent
args = sys.argv[1:]
jobs = 3
if "--jobs" in args:
    i = args.index("--jobs"); jobs = int(args[i + 1]); del args[i:i + 2]
items = [V / "harmless" / a for a in args] or sorted(p for p in (V / "harmless").iterdir() if (p / "patch.diff").exists())
groups: dict[str, list] = {}
for sd in items:
    groups.setdefault(json.loads((sd / "meta.json").read_text())["property"], []).append(sd)


def run_group(item):
    prop, sds = item
    out = []
    for sd in sds:
        t = time.time()
        r = subprocess.run([sys.executable, str(V / "tools/try_seed.py"), str(sd), prop, "--demo"], capture_output=True, text=True)
        lines = r.stdout.split("\n")
        demo = " / ".join(l.split(" ", 1)[1].split(" '")[0] for l in lines if l.startswith(sd.name + " demo"))
        res = [l for l in lines if l.startswith(f"{sd.name} {prop} ")]
        out.append((sd.name, prop, demo, res[0].split(" ", 2)[2] if res else r.stdout.strip()[-200:], f"{time.time() - t:.0f}s"))
        print(*out[-1], flush=True)
    return out


rows = []
with cf.ThreadPoolExecutor(jobs) as ex:
    for res in ex.map(run_group, groups.items()):
        rows.extend(res)
rows.sort()
quiet = sum(1 for r in rows if r[3].startswith("exit=0"))
out = ["# Behaviour-preserving refactorings vs checks", "",
       "Independent sub-agents (property text + scratch worktree only) were asked for refactorings that do NOT change behaviour;",
       "each `demo.py` proves agreement with the unchanged code.  Expected: exit 0.  `exit=1 … no-failing-input-found` = a translated",
       "kernel / table changed although the semantics did not (false alarm in the sense of the property, reported by design because",
       "the property is no longer *shown* to hold).", "",
       f"Quiet: {quiet} of {len(rows)}.", "",
       "| refactoring | property | demo (clean / patched) | result of `./check <property>` (quick) on the refactored tree | time |", "|---|---|---|---|---|"]
for name, prop, demo, res, dt in rows:
    meta = json.loads((V / "harmless" / name / "meta.json").read_text())
    out.append(f"| {name} — {meta.get('summary', '')[:110]} | {prop} | {demo} | {res.replace('|', '/')} | {dt} |")
(V / "harmless" / "RESULTS.md").write_text("\n".join(out) + "\n")
