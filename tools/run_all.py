#!/usr/bin/env python3
"""tools/run_all.py [--tier quick] [--seeds 0,1,2] [--jobs 6] [PROP ...] — run the claimed checks, report exit/time."""
import concurrent.futures as cf, os, pathlib, subprocess, sys, time
V = pathlib.Path(__file__).resolve().parent.parent
args = sys.argv[1:]
def opt(name, default):
    if name in args:
        i = args.index(name); v = args[i + 1]; del args[i:i + 2]; return v
    return default
tier = opt("--tier", "quick"); seeds = [int(x) for x in opt("--seeds", "0").split(",")]; jobs = int(opt("--jobs", "6"))
props = args or [l.split("#")[0].strip() for l in (V / "harness/claimed.txt").read_text().split("\n") if l.split("#")[0].strip()]
def run(p, s):
    t = time.time()
    r = subprocess.run([str(V / "check"), p, "--tier", tier], cwd=V, env=dict(os.environ, VERIF_SEED=str(s)), capture_output=True, text=True)
    bad = [l for l in r.stdout.split("\n") if l.startswith(("VIOLATION", "KNOWN-FINDING"))]
    return p, s, r.returncode, time.time() - t, bad, (r.stderr or "")[-300:] if r.returncode == 2 else ""
with cf.ThreadPoolExecutor(jobs) as ex:
    futs = [ex.submit(run, p, s) for s in seeds for p in props]
    worst = 0
    for f in futs:
        p, s, rc, dt, bad, err = f.result()
        worst = max(worst, rc)
        print(f"{p} seed={s} exit={rc} {dt:.0f}s {' | '.join(bad[:3])} {err}")
sys.exit(worst)
