"""./check Cxx --tier quick|thorough [--replay file]   — decision procedure (DESIGN.md section 3)."""
from __future__ import annotations

import argparse
import importlib
import json
import os
import pathlib
import sys
import time
import traceback

HERE = pathlib.Path(__file__).resolve().parent
sys.path.insert(0, str(HERE))

import core  # noqa: E402
from core import Ctx, ToolFailure, Violation  # noqa: E402


def main(argv=None) -> int:
    ap = argparse.ArgumentParser()
    ap.add_argument("prop")
    ap.add_argument("--tier", default=os.environ.get("VERIF_TIER", "quick"), choices=["quick", "thorough"])
    ap.add_argument("--replay")
    ap.add_argument("--no-lean", action="store_true", help="skip the Lean stage (debugging only)")
    a = ap.parse_args(argv)
    prop = a.prop.upper()
    seed = int(os.environ.get("VERIF_SEED", "0") or 0)
    try:
        mod = importlib.import_module(f"props.{prop.lower()}")
    except ModuleNotFoundError as e:
        if e.name == f"props.{prop.lower()}":
            print(f"no check for {prop}", file=sys.stderr)
            return 2
        mod = None
        import_error = e
    except Exception as e:  # noqa: BLE001 - the repository itself may be unimportable (that is a finding for C20)
        mod = None
        import_error = e
    if a.replay:
        rep = json.loads(pathlib.Path(a.replay).read_text())
        still = mod.replay(rep["replay"]) if mod else True
        print(("STILL-FAILS " if still else "NO-LONGER-FAILS ") + a.replay)
        return 1 if still else 0
    ctx = Ctx(prop, a.tier, seed)
    try:
        return decide(ctx, mod, a, import_error if mod is None else None)
    except ToolFailure as e:
        print(f"TOOL-FAILURE property={prop}: {e}", file=sys.stderr)
        return 2
    except Exception:  # noqa: BLE001
        traceback.print_exc()
        print(f"TOOL-FAILURE property={prop}: unexpected exception in the harness", file=sys.stderr)
        return 2


def impl_exception_violation(e: BaseException):
    """Violation for an exception raised from code under core.REPO (innermost frame), else None."""
    tb = traceback.extract_tb(e.__traceback__)
    if not tb:
        return None
    repo = str(core.REPO)
    inner = tb[-1]
    in_repo = [f for f in tb if f.filename.startswith(repo + "/")]
    if not in_repo or not (inner.filename.startswith(repo + "/") or "site-packages" in inner.filename
                           or "/lib/python" in inner.filename):
        return None
    site = in_repo[-1]
    rel = site.filename[len(repo) + 1:]
    return Violation(f"impl-exception:{type(e).__name__}:{rel}:{site.name}",
                     f"the implementation raised {type(e).__name__} on an input the harness built as valid: {e}"[:300],
                     {"op": "exception", "exception": repr(e)[:500], "site": f"{rel}:{site.lineno} in {site.name}",
                      "traceback": traceback.format_exception(type(e), e, e.__traceback__)[-12:]})


def decide(ctx: Ctx, mod, a, import_error) -> int:
    prop = ctx.prop
    lean = None
    if not a.no_lean:
        lean = core.lean_obligations(prop, getattr(mod, "EXTRA_LEAN_MODULES", None), recheck=ctx.thorough)
    violations: list[Violation] = []
    if mod is None:
        # the implementation cannot even be imported: that is what the search found
        violations.append(Violation("import-failure", f"importing the implementation fails: {import_error!r}",
                                    {"op": "import", "error": repr(import_error)}))
        dis = []
    else:
        dis = []
        harness_errors: list[str] = []

        def stage(name, fn):
            """Run one stage of the check.  An exception escaping from the implementation on an input the harness built
            as valid is the implementation failing (violation with the traceback as replay).  Any other exception is the
            harness being unable to compare what the implementation returned (typically an output of unexpected shape
            or type): the remaining stages still run, and if nothing else explains it the property is reported as no
            longer shown to hold (never a silent tool failure)."""
            try:
                return fn()
            except ToolFailure:
                raise
            except Exception as e:  # noqa: BLE001
                v = impl_exception_violation(e)
                if v is not None:
                    violations.append(v)
                else:
                    harness_errors.append(f"{name}: " + "".join(traceback.format_exception(type(e), e, e.__traceback__)[-6:]))
                return None

        if hasattr(mod, "prepare"):
            stage("prepare", lambda: mod.prepare(ctx))
        if hasattr(mod, "correspondence"):
            dis = stage("correspondence", lambda: core.correspond(ctx, mod.correspondence(ctx))) or []
        if hasattr(mod, "custom_correspondence"):
            dis = dis + (stage("custom_correspondence", lambda: list(mod.custom_correspondence(ctx))) or [])
            ctx.disagreements = dis
        stage("oracle", lambda: violations.extend(mod.oracle(ctx)))
    broken = []
    if lean and lean["failing"]:
        broken.append("lean: " + ", ".join(lean["failing"]))
    if mod is not None and harness_errors:
        broken.append("harness could not evaluate the implementation's answers: " + harness_errors[0][-600:])
        ctx.notes.extend("harness exception in stage " + h[:300] for h in harness_errors)
    if dis:
        broken.append(f"correspondence: {len(dis)} disagreement(s), first: {json.dumps(dis[0], default=str)[:400]}")
    known = core.known_findings(prop)
    listed = {k for k, _ in known} | set(getattr(mod, "PENDING_FINDINGS", []) or [])

    def fresh():
        # violations that are not already listed findings: only those can explain a broken obligation
        return [v for v in violations if v.key not in listed]

    if broken and not fresh() and mod is not None:
        # failing-input search at the deep budget, seeded with the disagreeing inputs
        ctx.notes.append("obligation/correspondence broken -> deep failing-input search")
        try:
            violations.extend(mod.oracle(ctx, deep=True))
            if hasattr(mod, "search"):
                violations.extend(mod.search(ctx, dis, lean))
        except ToolFailure:
            raise
        except Exception as e:  # noqa: BLE001
            v = impl_exception_violation(e)
            if v is not None:
                violations.append(v)
            else:
                ctx.notes.append("harness exception in the deep search: " + repr(e)[:300])
    if broken and not fresh():
        violations.append(Violation(
            "unproved:" + (lean["failing"][0] if lean and lean["failing"] else
                           ("correspondence" if dis else "harness-exception")),
            "property no longer shown to hold: " + "; ".join(broken),
            {"kind": "obligation", "broken": broken, "lean_failing": lean["failing"] if lean else [],
             "disagreements": dis[:5], "build_log_tail": (lean or {}).get("build_log", "")[-1500:]},
            found_input=False))
    # known findings
    reported = 0
    seen_keys = set()
    for v in violations:
        if v.key in seen_keys:
            continue
        seen_keys.add(v.key)
        kn = [d for k, d in known if k == v.key]
        if kn and v.found_input:
            print(f"KNOWN-FINDING: property={prop} {v.key}: {kn[0]}")
            continue
        extra = {"broken_obligations": broken} if broken else None
        path = core.write_replay(prop, v, extra)
        tail = "" if v.found_input else " no-failing-input-found"
        print(f"VIOLATION property={prop} replay={path}{tail}")
        print(f"  {v.what}"[:500], file=sys.stderr)
        reported += 1
    if mod is not None:
        core.write_evidence(ctx, lean, getattr(mod, "TRUSTED", []), getattr(mod, "ASSUMPTIONS", []),
                            getattr(mod, "RULE", ""), reported,
                            {"known_findings_seen": sorted(k for k in seen_keys if any(k == kk for kk, _ in known)),
                             "ext_kernels": getattr(sys.modules.get("boot"), "ext_info", {})})
    else:
        core.write_evidence(ctx, lean, [], [], "implementation not importable", reported)
    print(f"{prop} {ctx.tier} seed={ctx.seed}: obligations "
          f"{sum(1 for o in (lean or {'obligations': []})['obligations'] if o['status'] == 'proved')}/"
          f"{len((lean or {'obligations': []})['obligations'])}, cases {ctx.evaluations} "
          f"({len(ctx.distinct)} distinct non-trivial), disagreements {len(dis)}, violations {reported}, "
          f"{time.time() - ctx.t0:.1f}s")
    return 1 if reported else 0


if __name__ == "__main__":
    sys.exit(main())
