"""Shared machinery of the checks: Lean obligations, driver line protocol, evidence, replays,
known findings, decision procedure.  See DESIGN.md section 3."""
from __future__ import annotations

import contextlib
import fcntl
import hashlib
import json
import os
import pathlib
import random
import re
import subprocess
import sys
import time
from dataclasses import dataclass, field
from typing import Any, Callable, Iterable

VERIF = pathlib.Path(__file__).resolve().parent.parent
LEAN = VERIF / "lean"
BUILD = VERIF / ".build"
REPO = pathlib.Path(os.environ.get("VERIF_REPO", "/repo")).resolve()
ALLOWED_AXIOMS = {"propext", "Classical.choice", "Quot.sound"}
FORBIDDEN = re.compile(r"\b(sorry|admit|native_decide|bv_decide|implemented_by|maxHeartbeats 0)\b|^axiom |\bunsafe ")


class ToolFailure(Exception):
    """infrastructure problem (exit 2) — never a VIOLATION"""


# --------------------------------------------------------------------------------------------------
@dataclass
class Violation:
    key: str                 # stable key of the failing input class (matched against KNOWN_FINDINGS)
    what: str                # one-line description
    replay: dict             # concrete input / ops / history, expected vs observed
    found_input: bool = True


@dataclass
class Ctx:
    prop: str
    tier: str
    seed: int
    rng: random.Random = None
    t0: float = field(default_factory=time.time)
    evaluations: int = 0
    distinct: set = field(default_factory=set)
    samples: list = field(default_factory=list)
    hist: dict = field(default_factory=dict)
    violations: list = field(default_factory=list)
    disagreements: list = field(default_factory=list)
    traces: int = 0
    notes: list = field(default_factory=list)

    def __post_init__(self):
        if self.rng is None:
            self.rng = random.Random(f"{self.prop}-{self.seed}")

    @property
    def thorough(self) -> bool:
        return self.tier == "thorough"

    def count(self, case_key: Any, nontrivial: bool, sample: Any = None, bucket: str | None = None):
        self.evaluations += 1
        if nontrivial:
            k = hashlib.sha1(repr(case_key).encode()).hexdigest()[:16]
            self.distinct.add(k)
        if sample is not None and len(self.samples) < 8:
            self.samples.append(sample)
        if bucket is not None:
            self.hist[bucket] = self.hist.get(bucket, 0) + 1

    def budget(self, quick: int, thorough: int) -> int:
        return thorough if self.thorough else quick


# --------------------------------------------------------------------------------------------------
# Lean side
@contextlib.contextmanager
def lake_lock():
    BUILD.mkdir(parents=True, exist_ok=True)
    with open(BUILD / "lake.lock", "w") as fh:
        fcntl.flock(fh, fcntl.LOCK_EX)
        try:
            yield
        finally:
            fcntl.flock(fh, fcntl.LOCK_UN)


def _run(cmd, cwd=None, timeout=1800, input=None):
    try:
        return subprocess.run(cmd, cwd=cwd, capture_output=True, text=True, timeout=timeout, input=input)
    except subprocess.TimeoutExpired as e:
        raise ToolFailure(f"timeout running {' '.join(cmd)}") from e
    except FileNotFoundError as e:
        raise ToolFailure(str(e)) from e


_THM = re.compile(r"^(?:private\s+)?(theorem|lemma)\s+([\w.'!?]+)", re.M)
_NS = re.compile(r"^namespace\s+([\w.]+)", re.M)


def theorems_in(path: pathlib.Path) -> list[tuple[str, int]]:
    """[(fully qualified theorem name, line)] — single top-level namespace per file by convention."""
    if not path.exists():
        return []
    src = path.read_text()
    ns = _NS.search(src)
    prefix = ns.group(1) + "." if ns else ""
    out = []
    for m in _THM.finditer(src):
        line = src.count("\n", 0, m.start()) + 1
        out.append((prefix + m.group(2), line))
    return out


def hygiene(paths: Iterable[pathlib.Path]) -> list[str]:
    bad = []
    for p in paths:
        if not p.exists():
            continue
        in_block = False
        for i, ln in enumerate(p.read_text().split("\n"), 1):
            s = ln
            # strip comments (block comments may span lines)
            if in_block:
                if "-/" in s:
                    s = s.split("-/", 1)[1]
                    in_block = False
                else:
                    continue
            while "/-" in s:
                a, rest = s.split("/-", 1)
                if "-/" in rest:
                    s = a + rest.split("-/", 1)[1]
                else:
                    s = a
                    in_block = True
            s = s.split("--", 1)[0]
            if FORBIDDEN.search(s):
                bad.append(f"{p.name}:{i}: {ln.strip()}")
    return bad


def lean_obligations(prop: str, extra_modules: list[str] | None = None, recheck: bool = False) -> dict:
    """Regenerate Gen/<prop>.lean, build the property's theorem and bridge modules, audit axioms.

    Returns {obligations: [{name, kind, status}], failing: [names], gen: {kernel: status},
             build_log: str, checker_cmd: str}"""
    from translate.gen import generate

    mods = []
    files = []
    for kind, rel in (("theorem", f"Props/{prop}.lean"), ("bridge", f"Bridge/{prop}.lean")):
        p = LEAN / "DirectVerif" / rel
        if p.exists():
            mods.append((kind, "DirectVerif." + rel[:-5].replace("/", "."), p))
            files.append(p)
    for m in extra_modules or []:
        p = LEAN / (m.replace(".", "/") + ".lean")
        mods.append(("theorem", m, p))
        files.append(p)
    if not mods:
        raise ToolFailure(f"no Lean modules for {prop}")
    checker_cmd = "cd lean && lake build " + " ".join(m for _, m, _ in mods) + " && lake env lean <audit: #print axioms …>"
    with lake_lock():
        gen_status = generate(prop)
        r = _run(["lake", "build"] + [m for _, m, _ in mods], cwd=LEAN)
        log = r.stdout + r.stderr
        obligations = []
        failing = []
        # map errors to theorems
        errs: dict[str, list[int]] = {}
        for m in re.finditer(r"error: (?:\./)?([\w/.]+\.lean):(\d+):\d+", log):
            errs.setdefault(pathlib.Path(m.group(1)).name + "|" + m.group(1), []).append(int(m.group(2)))
        failed_files = {k.split("|", 1)[1] for k in errs}
        for kind, mod, p in mods:
            thms = theorems_in(p)
            rel = str(p.relative_to(LEAN))
            lines = sorted(l for k, v in errs.items() if k.split("|", 1)[1].endswith(rel) for l in v)
            module_failed = (r.returncode != 0) and (any(f.endswith(rel) for f in failed_files) or
                                                     f"- {mod}" in log)
            for idx, (name, ln) in enumerate(thms):
                nxt = thms[idx + 1][1] if idx + 1 < len(thms) else 10 ** 9
                bad = any(ln <= e < nxt for e in lines)
                if module_failed and not lines:
                    bad = True   # module failed for a reason we could not localise (e.g. import failed)
                st = "failed" if bad else ("proved" if not module_failed else "unchecked")
                obligations.append({"name": name, "kind": kind, "status": st})
                if st != "proved":
                    failing.append(name)
        if r.returncode != 0 and not failing:
            failing.append(f"build:{prop}")
        # a dependency (Model/Gen) failing to compile
        if r.returncode != 0:
            dep_fail = [f for f in failed_files if "/Gen/" in f or "/Model/" in f or "/Lemmas/" in f]
            for f in dep_fail:
                if f"module:{f}" not in failing:
                    failing.append(f"module:{f}")
        # hygiene + axioms audit on what did build
        bad = hygiene(files + [LEAN / "DirectVerif" / "Gen" / f"{prop}.lean"])
        if bad:
            raise ToolFailure("forbidden construct in proof files: " + "; ".join(bad))
        proved = [o["name"] for o in obligations if o["status"] == "proved"]
        axioms: dict[str, list[str]] = {}
        if proved and r.returncode == 0:
            audit = BUILD / f"Audit_{prop}.lean"
            audit.write_text("".join(f"import {m}\n" for _, m, _ in mods) +
                             "".join(f"#print axioms {n}\n" for n in proved))
            ra = _run(["lake", "env", "lean", str(audit)], cwd=LEAN)
            if ra.returncode != 0:
                raise ToolFailure("axiom audit failed: " + (ra.stdout + ra.stderr)[-2000:])
            for m in re.finditer(r"^'(.+?)' (does not depend on any axioms|depends on axioms: \[([^\]]*)\])", ra.stdout, re.M):
                axioms[m.group(1)] = [a.strip() for a in (m.group(3) or "").replace("\n", " ").split(",") if a.strip()]
            for n in proved:
                if n not in axioms:
                    raise ToolFailure(f"axiom audit: no report for {n}")
                extra = set(axioms[n]) - ALLOWED_AXIOMS
                if extra:
                    raise ToolFailure(f"{n} depends on non-standard axioms {sorted(extra)}")
    rechecked = None
    if recheck and r.returncode == 0:
        # independent re-check of the compiled .olean files (thorough tier)
        rc = _run(["lake", "env", "leanchecker"] + [m for _, m, _ in mods], cwd=LEAN, timeout=3600)
        if rc.returncode != 0:
            raise ToolFailure("leanchecker rejected the compiled modules: " + (rc.stdout + rc.stderr)[-2000:])
        rechecked = "leanchecker ok: " + " ".join(m for _, m, _ in mods)
    skipped = [k for k, v in gen_status.items() if v.startswith("skipped")]
    return {
        "leanchecker": rechecked,
        "obligations": obligations, "failing": failing, "gen": gen_status, "skipped_kernels": skipped,
        "build_log": log[-6000:], "checker_cmd": checker_cmd, "axioms_used": sorted({a for v in axioms.values() for a in v}),
    }


def run_driver(prop: str, lines: list[str]) -> list[str]:
    """Pipe protocol lines through the property's Lean model driver; one answer per line."""
    if not lines:
        return []
    mod = f"DirectVerif.Driver.{prop}"
    with lake_lock():
        r = _run(["lake", "build", mod], cwd=LEAN)
        if r.returncode != 0:
            raise ToolFailure("model driver does not build:\n" + (r.stdout + r.stderr)[-3000:])
        BUILD.mkdir(parents=True, exist_ok=True)
        main = BUILD / f"Main_{prop}.lean"
        text = f"import {mod}\ndef main : IO Unit := DirectVerif.Driver.mainWith {mod}.step\n"
        if not main.exists() or main.read_text() != text:
            main.write_text(text)
    r = _run(["lake", "env", "lean", "--run", str(main)], cwd=LEAN, input="\n".join(lines) + "\n", timeout=3600)
    if r.returncode != 0:
        raise ToolFailure("driver failed:\n" + (r.stdout + r.stderr)[-3000:])
    out = r.stdout.rstrip("\n").split("\n")
    if len(out) != len(lines):
        raise ToolFailure(f"driver answered {len(out)} lines for {len(lines)} operations")
    return out


# --------------------------------------------------------------------------------------------------
# protocol helpers
def ints(xs) -> str:
    return " ".join(str(int(x)) for x in xs)


def line(op: str, *groups) -> str:
    return op + " " + " | ".join(ints(g) for g in groups)


def tensor_groups(t) -> tuple[list[int], list[int]]:
    import torch

    t = torch.as_tensor(t)
    return list(t.shape), [int(v) for v in t.reshape(-1).tolist()]


def ok_tensor(t) -> str:
    s, d = tensor_groups(t)
    return "ok " + ints(s) + " | " + ints(d)


def err_name(e: BaseException) -> str:
    n = type(e).__name__
    return {"AssertionError": "AssertionError"}.get(n, n)


# --------------------------------------------------------------------------------------------------
# known findings
def known_findings(prop: str) -> list[tuple[str, str]]:
    p = VERIF / "KNOWN_FINDINGS.txt"
    out = []
    if p.exists():
        for ln in p.read_text().split("\n"):
            m = re.match(rf"known:\s+property={prop}\s+key=(\S+)\s+(.*)$", ln.strip())
            if m:
                out.append((m.group(1), m.group(2)))
    return out


def write_replay(prop: str, v: Violation, extra: dict | None = None) -> str:
    d = VERIF / "replays"
    d.mkdir(exist_ok=True)
    body = {"property_id": prop, "key": v.key, "what": v.what, "found_failing_input": v.found_input,
            "replay": v.replay, "rerun": f"./check {prop} --replay replays/<this file>"}
    if extra:
        body.update(extra)
    h = hashlib.sha1(json.dumps(body, sort_keys=True, default=str).encode()).hexdigest()[:10]
    path = d / f"{prop}-{h}.json"
    path.write_text(json.dumps(body, indent=1, default=str))
    return str(path.relative_to(VERIF))


def write_evidence(ctx: Ctx, lean: dict | None, trusted: list[str], assumptions: list[str], rule: str,
                   n_violations: int, extra: dict | None = None):
    cov: dict[str, Any] = {
        "evaluations": ctx.evaluations,
        "distinct_nontrivial": len(ctx.distinct),
        "rule": rule,
        "samples": ctx.samples[:8] or ["(none)"],
        "traces_validated_against_impl": ctx.traces,
        "input_histogram": dict(sorted(ctx.hist.items())),
        "disagreements_checked": len(ctx.disagreements),
    }
    if lean is not None:
        obs = lean["obligations"]
        cov.update({
            "obligations": len(obs),
            "discharged": sum(1 for o in obs if o["status"] == "proved"),
            "checker_cmd": lean["checker_cmd"],
            "trusted_base": trusted,
            "obligation_list": obs,
            "translated_kernels": lean["gen"],
            "axioms_used": lean["axioms_used"],
            "leanchecker": lean.get("leanchecker"),
        })
    if extra:
        cov.update(extra)
    if ctx.notes:
        cov["notes"] = ctx.notes
    ev = {
        "property_id": ctx.prop, "tier": ctx.tier, "seed": ctx.seed, "level": "proof", "coverage": cov,
        "assumptions": assumptions, "wall_s": round(time.time() - ctx.t0, 2), "violations": n_violations,
    }
    d = VERIF / "evidence"
    d.mkdir(exist_ok=True)
    tmp = d / f"{ctx.prop}.json.tmp"
    tmp.write_text(json.dumps(ev, indent=1, default=str))
    os.replace(tmp, d / f"{ctx.prop}.json")


# --------------------------------------------------------------------------------------------------
def correspond(ctx: Ctx, cases: Iterable[dict]) -> list[dict]:
    """cases: dicts with `line` (protocol), `impl` (thunk -> answer string), `key`, `nontrivial`,
    optional `bucket`.  Runs impl in-process, the model through the driver, and diffs."""
    cases = list(cases)
    impl_out = []
    for c in cases:
        try:
            impl_out.append(c["impl"]())
        except Exception as e:  # noqa: BLE001 - canonicalised to the error enum
            impl_out.append("err " + err_name(e))
    model_out = run_driver(ctx.prop, [c["line"] for c in cases])
    dis = []
    for c, a, b in zip(cases, impl_out, model_out):
        ctx.count(c.get("key", c["line"]), c.get("nontrivial", True),
                  sample={"op": c["line"][:200], "impl": a[:200], "model": b[:200]}, bucket=c.get("bucket"))
        ctx.traces += 1
        if a.strip() != b.strip():
            dis.append({"line": c["line"], "impl": a, "model": b, "key": c.get("key")})
    ctx.disagreements.extend(dis)
    return dis
