"""Source of MANIFEST.json (tools/mkmanifest.py)."""
NOTES = ("All checks: ./check <id> --tier quick|thorough. Exit 0 = held, 1 = VIOLATION line(s), 2 = tool failure. "
         "Every check regenerates lean/DirectVerif/Gen/<id>.lean from /repo's working tree, rebuilds the property's theorem and "
         "bridge modules, audits axioms, runs the differential correspondence model-vs-implementation and the property oracle.")
_ALL = [f"C{i:02d}" for i in range(1, 21)]
CLAIMED = {
    "C10": {
        "text": "Lean 4 theorems over all sizes/parities: centre crop = central window of floor((n-s)/2) offset; pad places data at "
                "floor((N-n)/2); pad followed by centre crop is the identity; F.pad pair order for any number of axes; bbox window "
                "specification. Tied to the code by translated arithmetic (bridge lemmas closed by omega) and exact differential "
                "correspondence on labelled tensors.",
        "note": "Trusted: Lean kernel (+propext, Classical.choice, Quot.sound), the AST translator, the row-major lifting alongAxis "
                "(validated by correspondence), torch slicing/F.pad semantics. k-space crop/pad equivalence is checked on the "
                "implementation under FFT rounding tolerance, not proved.",
        "technique": "Lean 4 proof (omega/list induction) + AST translation bridge + differential correspondence",
    },
}
NOT_APPLICABLE = {p: "check under construction in this round (model and harness not yet committed); will be claimed once it is sound"
                  for p in _ALL if p not in CLAIMED}
