"""Source of MANIFEST.json (tools/mkmanifest.py): every harness/props/cXX.py carries a literal `MANIFEST = {...}`;
a property is claimed when it is listed in harness/claimed.txt (the lead edits that file)."""
import ast
import pathlib

HERE = pathlib.Path(__file__).resolve().parent
NOTES = ("All checks: ./check <id> --tier quick|thorough. Exit 0 = held, 1 = VIOLATION line(s), 2 = tool failure. "
         "Every check regenerates lean/DirectVerif/Gen/<id>.lean from /repo's working tree, rebuilds the property's theorem and "
         "bridge modules, audits axioms, runs the differential correspondence model-vs-implementation and the property oracle.")
_ALL = [f"C{i:02d}" for i in range(1, 21)]
_claimed = [l.split("#")[0].strip() for l in (HERE / "claimed.txt").read_text().split("\n")]
_claimed = [c for c in _claimed if c]
CLAIMED = {}
for pid in _claimed:
    src = (HERE / "props" / f"{pid.lower()}.py").read_text()
    for node in ast.parse(src).body:
        if isinstance(node, ast.Assign) and getattr(node.targets[0], "id", None) == "MANIFEST":
            CLAIMED[pid] = ast.literal_eval(node.value)
    assert pid in CLAIMED, f"{pid}: no MANIFEST literal in props module"
_reasons = {}
_r = HERE / "not_applicable.txt"
if _r.exists():
    for l in _r.read_text().split("\n"):
        if l.strip() and not l.startswith("#"):
            k, v = l.split(":", 1)
            _reasons[k.strip()] = v.strip()
NOT_APPLICABLE = {p: _reasons.get(p, "check under construction in this round (model and harness not yet committed); will be "
                                     "claimed once it is sound") for p in _ALL if p not in CLAIMED}
