"""C10 — the k-space crop / pad *modules* (CropKspace, PadKspace, RescaleKspace, PadCoilDimensionModule):
call histories on persistent instances, every constructor option, key plumbing, aliasing.

Everything here is stated directly on the implementation:

* **history independence** — a persistent instance applied to a sequence of samples (different ranks, slice counts,
  shapes, key sets) gives, call by call, bit-identically what a *fresh* instance gives on a copy of that sample
  (same exception class when it raises);
* **reference semantics** — the stored k-space is `forward(window(backward(kspace)))` for the documented window
  (centre: start = floor((n-s)/2); seeded random: the corner numpy draws for that file name; unseeded random: *some*
  in-range corner) resp. `forward(zero-pad-centred(backward(kspace)))`; exact (bit-identical) for the exact operator
  pair `flip`, under tolerance for the FFT pairs;
* **key plumbing** — the transform reads and writes `sample[kspace_key]`; every key it was not asked to touch is
  bit-identical afterwards (and is the same object), the tensors that went in are not modified in place.

A *history spec* is JSON (it is the replay): {"cls", "kwargs", "ops", "samples": [sample spec …]}.
"""
from __future__ import annotations

import functools
import itertools

import boot  # noqa: F401
import numpy as np
import torch

from core import Ctx, Violation, err_name

TOL = 1e-4


# --------------------------------------------------------------------------------------------------
# operators
def _flip_op(data, dim=(1, 2), **kw):
    """exact involution standing in for an operator pair (`backward ∘ forward = id` holds exactly)"""
    return torch.flip(data, dims=tuple(dim))


def operators(name: str):
    import direct.data.transforms as T

    if name in ("fft", "default"):
        return T.fft2, T.ifft2
    if name == "fft_uncentered":
        return functools.partial(T.fft2, centered=False), functools.partial(T.ifft2, centered=False)
    if name == "fft_ortho":
        return functools.partial(T.fft2, normalized=True), functools.partial(T.ifft2, normalized=True)
    if name == "flip":
        return _flip_op, _flip_op
    raise ValueError(name)


EXACT_OPS = ("flip",)


# --------------------------------------------------------------------------------------------------
# samples
def make_sample(spec: dict) -> dict:
    """spec: rank (4|5), coils, slices, h, w, seed, keys (extra keys to add), filename, recon (list|None)"""
    g = torch.Generator().manual_seed(int(spec["seed"]))
    shp = [spec["coils"]] + ([spec["slices"]] if spec["rank"] == 5 else []) + [spec["h"], spec["w"], 2]
    smp: dict = {}
    keys = spec.get("keys", [])
    if "kspace" in keys:
        smp["kspace"] = torch.randint(-8, 9, shp, generator=g).float()
    if "masked_kspace" in keys:
        smp["masked_kspace"] = torch.randint(-8, 9, shp, generator=g).float()
    mshp = [1] + ([1] if spec["rank"] == 5 else []) + [spec["h"], spec["w"], 1]
    if "sampling_mask" in keys:
        smp["sampling_mask"] = torch.randint(0, 2, mshp, generator=g).bool()
        smp["acs_mask"] = torch.randint(0, 2, mshp, generator=g).bool()
    if "target" in keys:
        smp["target"] = torch.randint(-8, 9, shp[1:-1], generator=g).float()
    if "sensitivity_map" in keys:
        smp["sensitivity_map"] = torch.randint(-8, 9, shp, generator=g).float()
    if "padding" in keys:
        smp["padding"] = torch.randint(0, 2, mshp, generator=g).bool()
    if "scaling_factor" in keys:
        smp["scaling_factor"] = torch.tensor(2.0)
    smp["filename"] = spec.get("filename", "file")
    smp["slice_no"] = 3
    if spec.get("recon") is not None:
        smp["reconstruction_size"] = tuple(spec["recon"])
    return smp


def _crop_arg(kw: dict):
    c, form = kw["crop"], kw.get("crop_form", "tuple")
    if form == "tuple":
        return tuple(c)
    if form == "list":
        return list(c)
    if form == "str_tuple":
        return "(" + ", ".join(str(v) for v in c) + ")"
    if form == "str_list":
        return "[" + ",".join(str(v) for v in c) + "]"
    if form == "key":
        return str(c)
    raise ValueError(form)


def build(spec: dict):
    """a fresh transform instance from a JSON spec"""
    import direct.data.mri_transforms as M
    from direct.types import KspaceKey

    cls, kw, ops = spec["cls"], dict(spec.get("kwargs", {})), spec.get("ops", "fft")

    def key(v):
        return {"enum:kspace": KspaceKey.KSPACE, "enum:masked_kspace": KspaceKey.MASKED_KSPACE}.get(v, v)

    if cls == "PadCoilDimensionModule":
        return M.PadCoilDimensionModule(pad_coils=kw.get("pad_coils"), key=kw.get("key", "masked_kspace"),
                                        coil_dim=kw.get("coil_dim", 0))
    fwd, bwd = operators(ops)
    opkw = {} if ops == "default" else {"forward_operator": fwd, "backward_operator": bwd}
    if cls == "CropKspace":
        extra = {k: kw[k] for k in ("image_space_center_crop", "random_crop_sampler_type", "random_crop_sampler_use_seed",
                                    "random_crop_sampler_gaussian_sigma") if k in kw}
        return M.CropKspace(_crop_arg(kw), **opkw, **extra)
    if cls == "PadKspace":
        extra = {"kspace_key": key(kw["kspace_key"])} if "kspace_key" in kw else {}
        shape = kw["pad_shape"]
        return M.PadKspace(tuple(shape) if kw.get("shape_form", "tuple") == "tuple" else list(shape), **opkw, **extra)
    if cls == "RescaleKspace":
        extra = {"kspace_key": key(kw["kspace_key"])} if "kspace_key" in kw else {}
        if "rescale_2d_if_3d" in kw:
            extra["rescale_2d_if_3d"] = kw["rescale_2d_if_3d"]
        return M.RescaleKspace(tuple(kw["shape"]), **opkw, **extra)
    raise ValueError(cls)


def kspace_key_of(spec: dict) -> str:
    if spec["cls"] == "CropKspace":
        return "kspace"
    if spec["cls"] == "PadCoilDimensionModule":
        return spec["kwargs"].get("key", "masked_kspace")
    return str(spec["kwargs"].get("kspace_key", "kspace")).replace("enum:", "")


def touched_keys(spec: dict, smp: dict) -> set:
    """keys the transform is *asked* to write"""
    k = kspace_key_of(spec)
    if spec["cls"] == "CropKspace":
        return {k} | ({"sampling_mask", "acs_mask"} if "sampling_mask" in smp else set())
    if spec["cls"] == "PadKspace":
        return {k, "original_size"}
    return {k}


# --------------------------------------------------------------------------------------------------
# comparisons
def same_value(a, b) -> bool:
    if isinstance(a, torch.Tensor) or isinstance(b, torch.Tensor):
        return (isinstance(a, torch.Tensor) and isinstance(b, torch.Tensor) and a.dtype == b.dtype
                and a.shape == b.shape and torch.equal(a, b))
    if isinstance(a, np.ndarray) or isinstance(b, np.ndarray):
        return isinstance(a, np.ndarray) and isinstance(b, np.ndarray) and a.dtype == b.dtype and np.array_equal(a, b)
    return type(a) is type(b) and a == b


def close(a: torch.Tensor, b: torch.Tensor, exact: bool) -> bool:
    if not (isinstance(a, torch.Tensor) and isinstance(b, torch.Tensor)) or a.shape != b.shape or a.dtype != b.dtype:
        return False
    if exact:
        return torch.equal(a, b)
    scale = max(1.0, float(b.abs().max())) if b.numel() else 1.0
    return bool(torch.allclose(a, b, atol=TOL * scale, rtol=0))


def describe(v):
    if isinstance(v, torch.Tensor):
        return {"shape": list(v.shape), "dtype": str(v.dtype), "head": v.reshape(-1)[:6].tolist()}
    return repr(v)[:80]


def call(tr, smp):
    """(result dict | None, exception name | None); numpy's global stream is restored (CropKspace seeds it)"""
    st = np.random.get_state()
    try:
        with torch.no_grad():
            return tr(smp), None
    except (ValueError, TypeError, IndexError, RuntimeError, AssertionError, KeyError) as e:
        return None, err_name(e)
    finally:
        np.random.set_state(st)


# --------------------------------------------------------------------------------------------------
# reference semantics
def resolve_crop(spec: dict, smp: dict, k: torch.Tensor):
    """the crop shape the documentation describes: the last two entries are (height, width); a 2-element crop leaves
    the slice/time axis of 5-D k-space alone.  Returns (shape tuple, form-is-ambiguous)"""
    kw = spec["kwargs"]
    form = kw.get("crop_form", "tuple")
    c = tuple(smp[kw["crop"]][:-1]) if form == "key" else tuple(kw["crop"])
    if k.ndim == 5 and len(c) == 2:
        return (k.shape[1],) + c, form not in ("tuple", "list")
    return c, False


def window(img: torch.Tensor, starts, sizes, offset=1) -> torch.Tensor:
    idx = [slice(None)] * img.ndim
    for j, (a, s) in enumerate(zip(starts, sizes)):
        idx[offset + j] = slice(a, a + s)
    return img[tuple(idx)]


def random_corner(spec: dict, smp: dict, img_shape, eff) -> list | None:
    """the corner `complex_random_crop` draws for this sample (seeded from the file name), None when unseeded"""
    kw = spec["kwargs"]
    if not kw.get("random_crop_sampler_use_seed", True):
        return None
    seed = tuple(map(ord, str(smp["filename"])))
    rs = np.random.RandomState(seed)
    dims = list(img_shape[1:1 + len(eff)])
    limits = [n - e for n, e in zip(dims, eff)]
    if kw.get("random_crop_sampler_type", "uniform") == "uniform":
        return rs.randint(0, np.asarray(limits) + 1).tolist()
    ds = np.asarray(dims)
    sigma = kw.get("random_crop_sampler_gaussian_sigma")
    if not sigma:
        sigma = ds / 6
    elif isinstance(sigma, float):
        sigma = [sigma] * len(eff)
    lp = (rs.normal(loc=ds / 2, scale=sigma, size=len(ds)) - np.asarray(eff) / 2).astype(int)
    return np.clip(lp, 0, limits).tolist()


def reference(spec: dict, smp_in: dict):
    """expected result keys of ONE call on `smp_in` (not modified): dict key -> tensor | ("any", [candidates]) |
    ("raises",).  None when the semantics of this configuration are not pinned down here (only history checks)."""
    import direct.data.transforms as T

    cls, kw = spec["cls"], spec["kwargs"]
    fwd, bwd = operators(spec.get("ops", "fft"))
    key = kspace_key_of(spec)
    if key not in smp_in:
        return {} if cls == "PadCoilDimensionModule" else {"__raises__": True}
    k = smp_in[key]
    dim = (1, 2) if k.ndim == 4 else (2, 3)
    if cls == "PadKspace":
        tgt = list(kw["pad_shape"])
        img = bwd(k, dim=dim)
        if len(tgt) > k.ndim - 2:
            return None                     # a (z, x, y) target on 2-D data: not pinned down (pad_tensor pads the coil axis)
        cur = list(img.shape[-1 - len(tgt):-1])
        out_sp = [max(t, n) for t, n in zip(tgt, cur)]
        ref = torch.zeros(list(img.shape[:img.ndim - 1 - len(tgt)]) + out_sp + [2], dtype=img.dtype)
        idx = [slice(None)] * (img.ndim - 1 - len(tgt)) + [slice((o - n) // 2, (o - n) // 2 + n) for o, n in zip(out_sp, cur)]
        ref[tuple(idx)] = img
        return {key: fwd(ref, dim=dim), "original_size": ("value", tuple(k.shape[1:-1]))}
    if cls == "CropKspace":
        if kw.get("crop_form") == "key" and kw["crop"] not in smp_in:
            return {"__raises__": True}
        crop, ambiguous = resolve_crop(spec, smp_in, k)
        if len(crop) > k.ndim - 2:
            return None                     # a 3-element crop on 2-D data reaches the complex axis: not pinned down
        img = bwd(k, dim=dim)
        dims = list(img.shape[1:1 + len(crop)])
        eff = [c if c else n for c, n in zip(crop, dims)]
        if any(e > n for e, n in zip(eff, dims)):
            return {"__raises__": True}
        out: dict = {"__ambiguous__": ambiguous}
        centre = [(n - e) // 2 for n, e in zip(dims, eff)]
        if kw.get("image_space_center_crop", False):
            out[key] = fwd(window(img, centre, eff), dim=dim)
        else:
            if kw.get("random_crop_sampler_type", "uniform") == "uniform" and kw.get("random_crop_sampler_gaussian_sigma"):
                return {"__raises__": True}
            sg = kw.get("random_crop_sampler_gaussian_sigma")
            if isinstance(sg, list) and len(sg) not in (1, len(eff)):
                return None                 # one sigma per entry of the resolved crop shape is required: not pinned down here
            corner = random_corner(spec, smp_in, img.shape, eff)
            if corner is not None:
                out[key] = fwd(window(img, corner, eff), dim=dim)
            else:
                cands = itertools.product(*[range(n - e + 1) for n, e in zip(dims, eff)])
                out[key] = ("any", [fwd(window(img, c, eff), dim=dim) for c in cands])
        if "sampling_mask" in smp_in:
            mcrop = ((1,) + tuple(eff)[1:]) if k.ndim == 5 else tuple(eff)
            for mk in ("sampling_mask", "acs_mask"):
                m = smp_in[mk]
                md = list(m.shape[1:1 + len(mcrop)])
                if any(e > n for e, n in zip(mcrop, md)):
                    return {"__raises__": True}
                out[mk] = window(m, [(n - e) // 2 for n, e in zip(md, mcrop)], mcrop)
        return out
    if cls == "PadCoilDimensionModule":
        n, cd = kw.get("pad_coils"), kw.get("coil_dim", 0)
        if not n or key not in smp_in:
            return {}
        cur = k.shape[cd]
        if cur > n:
            return {"__raises__": True}
        shp = list(k.shape)
        shp[cd] = n - cur
        return {key: torch.cat([torch.zeros(shp, dtype=k.dtype), k], dim=cd)}
    return None


# --------------------------------------------------------------------------------------------------
def run_history(spec: dict):
    """Run ONE history; returns list of (key, what, detail) problems (empty = property holds on this history).
    `spec["instances"]` (optional) lists further transform specs whose persistent instances are called in between
    (interleaving must not matter either)."""
    problems = []
    exact = spec.get("ops", "fft") in EXACT_OPS or spec["cls"] == "PadCoilDimensionModule"
    try:
        persistent = build(spec)
    except (ValueError, TypeError, AssertionError) as e:
        return [("module-constructor-raises/" + spec["cls"], f"{spec['cls']} constructor raises {err_name(e)} for valid options",
                 {"error": repr(e)[:200]})]
    others = [(o, build(o)) for o in spec.get("instances", [])]
    cls = spec["cls"]
    for i, sspec in enumerate(spec["samples"]):
        smp_p, smp_f, smp_ref = make_sample(sspec), make_sample(sspec), make_sample(sspec)
        orig_objs = dict(smp_p)                        # the very tensor objects that go in
        for o, inst in others:                         # an unrelated instance works on its own copy in between
            call(inst, make_sample(sspec))
        res_p, err_p = call(persistent, smp_p)
        res_f, err_f = call(build(spec), smp_f)
        where = {"call": i, "sample": sspec}
        # ---- (a) history independence: persistent == fresh, bit-identical
        if err_p != err_f:
            problems.append((f"module-history/{cls}", f"{cls}: call {i} of a persistent instance {'raises ' + err_p if err_p else 'succeeds'} "
                             f"but a fresh instance {'raises ' + err_f if err_f else 'succeeds'}", where))
            continue
        if err_p is None:
            if set(res_p) != set(res_f):
                problems.append((f"module-history/{cls}", f"{cls}: key sets differ between persistent and fresh instance",
                                 dict(where, persistent=sorted(res_p), fresh=sorted(res_f))))
            for kk in sorted(set(res_p) & set(res_f)):
                if not same_value(res_p[kk], res_f[kk]):
                    problems.append((f"module-history/{cls}", f"{cls}: call {i} on a persistent instance differs from a fresh instance "
                                     f"in sample['{kk}'] (state kept between calls)",
                                     dict(where, key=kk, persistent=describe(res_p[kk]), fresh=describe(res_f[kk]))))
        # ---- (b) inputs not modified in place; foreign keys untouched
        for kk, obj in orig_objs.items():
            if isinstance(obj, torch.Tensor) and not same_value(obj, smp_ref[kk]):
                problems.append((f"module-inplace/{cls}", f"{cls}: the tensor passed as sample['{kk}'] was modified in place",
                                 dict(where, key=kk)))
        if err_p is None:
            asked = touched_keys(spec, smp_ref)
            for kk in sorted(set(smp_ref) | set(res_p)):
                if kk in asked:
                    continue
                if kk not in res_p or kk not in smp_ref or not same_value(res_p[kk], smp_ref[kk]):
                    problems.append((f"module-foreign-key/{cls}", f"{cls} (kspace_key='{kspace_key_of(spec)}') changed sample['{kk}'], "
                                     f"which it was not asked to touch", dict(where, key=kk, before=describe(smp_ref.get(kk)),
                                                                             after=describe(res_p.get(kk)))))
        # ---- (c) reference semantics of this call
        ref = reference(spec, smp_ref)
        if ref is None:
            continue
        if ref.get("__raises__"):
            if err_f is None:
                problems.append((f"module-accepts-invalid/{cls}", f"{cls}: call {i} should be rejected (crop larger than the data / "
                                 f"missing key) but succeeds", where))
            continue
        amb = ref.pop("__ambiguous__", False)
        if err_f is not None:
            kk = "cropkspace-crop-form-5d" if amb else f"module-raises/{cls}"
            if cls == "CropKspace" and spec["kwargs"].get("random_crop_sampler_gaussian_sigma") is not None and \
                    len(spec["kwargs"]["random_crop_sampler_gaussian_sigma"]) == 1:
                kk = "random-crop-sigma-singleton-list"
            problems.append((kk, f"{cls}: call {i} raises {err_f} on a valid sample", where))
            continue
        for kk, exp in ref.items():
            got = res_f.get(kk)
            if isinstance(exp, tuple) and exp[0] == "value":
                ok = tuple(got) == tuple(exp[1]) if got is not None else False
            elif isinstance(exp, tuple) and exp[0] == "any":
                ok = any(close(got, e, exact) for e in exp[1])
            else:
                ok = close(got, exp, exact or kk in ("sampling_mask", "acs_mask"))
            if not ok:
                vk = "cropkspace-crop-form-5d" if amb else f"module-semantics/{cls}"
                problems.append((vk, f"{cls}: sample['{kk}'] after the call is not "
                                 + ("forward(window(backward(kspace)))" if cls == "CropKspace" else
                                    "forward(zero-pad-centred(backward(kspace)))" if cls == "PadKspace" else "the zero-padded coil stack")
                                 + (" for the documented window" if cls == "CropKspace" else ""),
                                 dict(where, key=kk, observed=describe(got),
                                      expected=describe(exp if isinstance(exp, torch.Tensor) else exp[1][0] if exp[0] == "any" else exp[1]))))
    return problems


# --------------------------------------------------------------------------------------------------
# generators
def _sample_spec(rng, rank, keys, h=None, w=None, slices=None, coils=None, recon=True, filename=None):
    h = h or rng.randint(3, 8)
    w = w or rng.randint(3, 8)
    s = slices or rng.randint(1, 5)
    spec = {"rank": rank, "coils": coils or rng.randint(1, 3), "slices": s, "h": h, "w": w, "seed": rng.randrange(2 ** 31),
            "keys": sorted(keys), "filename": filename or rng.choice(["file_a.h5", "f", "vol-12.h5"])}
    if recon:
        spec["recon"] = ([rng.randint(1, s)] if rank == 5 else []) + [rng.randint(1, h), rng.randint(1, w), 1]
    return spec


def _key_sets(rng, need):
    extra = [k for k in ("kspace", "masked_kspace", "sampling_mask", "target", "sensitivity_map", "padding", "scaling_factor")
             if rng.random() < 0.45]
    return set(extra) | set(need)


def gen_histories(ctx: Ctx, deep: bool):
    """fixed histories first (one per lesson of the seeded regressions), then random ones"""
    rng = ctx.rng
    ops_all = ["flip", "fft", "fft", "fft_uncentered", "fft_ortho"]
    # --- fixed: 5-D then other slice counts then 4-D on one CropKspace instance, every crop form
    for form in ("tuple", "list", "str_tuple", "str_list"):
        for centre in (True, False):
            for ops in ("flip", "fft"):
                yield {"cls": "CropKspace", "ops": ops,
                       "kwargs": {"crop": [3, 2], "crop_form": form, "image_space_center_crop": centre},
                       "samples": [_sample_spec(rng, 5, {"kspace"}, slices=2, h=5, w=4),
                                   _sample_spec(rng, 5, {"kspace", "sampling_mask"}, slices=4, h=6, w=5),
                                   _sample_spec(rng, 5, {"kspace"}, slices=1, h=4, w=4),
                                   _sample_spec(rng, 4, {"kspace", "target"}, h=5, w=6),
                                   _sample_spec(rng, 5, {"kspace"}, slices=3, h=3, w=2)]}
    # --- fixed: non-default key on Pad/Rescale with both k-spaces present, 4-D and 5-D, enum and plain string
    for cls, kw in (("PadKspace", {"pad_shape": [7, 8]}), ("PadKspace", {"pad_shape": [4, 7, 6]}),
                    ("RescaleKspace", {"shape": [6, 4]})):
        for kk in ("enum:masked_kspace", "masked_kspace", "enum:kspace"):
            for ops in ("flip", "fft"):
                need = {"kspace", "masked_kspace"}
                rank = 5 if len(kw.get("pad_shape", [])) == 3 else None
                yield {"cls": cls, "ops": ops, "kwargs": dict(kw, kspace_key=kk),
                       "samples": [_sample_spec(rng, rank or 4, need, h=5, w=6), _sample_spec(rng, 5, need, slices=3, h=4, w=7),
                                   _sample_spec(rng, rank or 4, need | {"padding", "target"}, h=7, w=3)]}
    # --- fixed: argument forms that were defects of the pinned tree (regression cases, once per run)
    yield {"cls": "CropKspace", "ops": "flip", "kwargs": {"crop": [3, 2], "crop_form": "str_tuple", "image_space_center_crop": True},
           "samples": [_sample_spec(rng, 5, {"kspace"}, slices=4, h=5, w=4)]}
    yield {"cls": "CropKspace", "ops": "flip",
           "kwargs": {"crop": [3, 2], "crop_form": "tuple", "image_space_center_crop": False, "random_crop_sampler_type": "gaussian",
                      "random_crop_sampler_gaussian_sigma": [1.5]},
           "samples": [_sample_spec(rng, 4, {"kspace"}, h=5, w=4)]}
    # a sample that only has the requested key
    yield {"cls": "PadKspace", "ops": "flip", "kwargs": {"pad_shape": [6, 6], "kspace_key": "masked_kspace"},
           "samples": [_sample_spec(rng, 4, {"masked_kspace"}, h=3, w=4), _sample_spec(rng, 5, {"masked_kspace"}, h=5, w=2)]}
    # --- random histories
    n = 150 if (deep or ctx.thorough) else 36
    for _ in range(n):
        cls = rng.choice(["CropKspace", "CropKspace", "PadKspace", "PadKspace", "RescaleKspace", "PadCoilDimensionModule"])
        ops = rng.choice(ops_all)
        nsmp = rng.randint(2, 4)
        if cls == "CropKspace":
            form = rng.choice(["tuple", "list", "str_tuple", "str_list", "key"])
            three = rng.random() < 0.3
            crop = ([rng.randint(1, 3)] if three else []) + [rng.randint(1, 5), rng.randint(1, 5)]
            if rng.random() < 0.15 and form in ("tuple", "list"):
                crop[rng.randrange(len(crop))] = 0          # "False in a crop direction": keep that axis
            kw = {"crop": "reconstruction_size" if form == "key" else crop, "crop_form": form,
                  "image_space_center_crop": rng.random() < 0.5}
            if not kw["image_space_center_crop"]:
                kw["random_crop_sampler_type"] = rng.choice(["uniform", "gaussian"])
                kw["random_crop_sampler_use_seed"] = rng.random() < 0.7
            mixed = [rng.choice([4, 5]) for _ in range(nsmp)]
            if three:
                ranks = [5] * nsmp
            elif form in ("str_tuple", "str_list"):
                ranks = mixed                                              # string crops on 5-D data (repaired in f148874)
            else:
                ranks = mixed
            if (not kw["image_space_center_crop"] and kw["random_crop_sampler_type"] == "gaussian" and rng.random() < 0.5
                    and form != "key" and len(set(ranks)) == 1 and (ranks[0] == 4 or three)):
                # one sigma per entry of the RESOLVED crop shape (2-element list/tuple crops grow a slice entry on 5-D data)
                kw["random_crop_sampler_gaussian_sigma"] = [rng.choice([0.5, 1.0, 2.5]) for _ in crop]
            samples = []
            for r in ranks:
                hmin = max([c for c in crop[-2:-1]] + [2])
                wmin = max([c for c in crop[-1:]] + [2])
                big = rng.random() < 0.9                                  # mostly valid; some crops larger than the data
                samples.append(_sample_spec(rng, r, _key_sets(rng, {"kspace"}), h=rng.randint(hmin if big else 1, hmin + 3),
                                            w=rng.randint(wmin if big else 1, wmin + 3),
                                            slices=rng.randint(crop[0] if three and big else 1, 5)))
            yield {"cls": cls, "ops": ops, "kwargs": kw, "samples": samples}
        elif cls == "PadKspace":
            three = rng.random() < 0.3
            shape = ([rng.randint(1, 5)] if three else []) + [rng.randint(2, 9), rng.randint(2, 9)]
            kk = rng.choice(["enum:kspace", "enum:masked_kspace", "masked_kspace", None])
            kw = {"pad_shape": shape, "shape_form": rng.choice(["tuple", "list"])}
            if kk:
                kw["kspace_key"] = kk
            need = {"masked_kspace" if kk and "masked" in kk else "kspace"}
            yield {"cls": cls, "ops": ops, "kwargs": kw,
                   "samples": [_sample_spec(rng, 5 if three else rng.choice([4, 5]), _key_sets(rng, need)) for _ in range(nsmp)]}
        elif cls == "RescaleKspace":
            kk = rng.choice(["enum:kspace", "enum:masked_kspace", "masked_kspace", None])
            kw = {"shape": [rng.randint(2, 8), rng.randint(2, 8)]}
            if kk:
                kw["kspace_key"] = kk
            r5 = rng.random() < 0.4
            if r5:
                kw["rescale_2d_if_3d"] = True
            need = {"masked_kspace" if kk and "masked" in kk else "kspace"}
            yield {"cls": cls, "ops": ops, "kwargs": kw,
                   "samples": [_sample_spec(rng, rng.choice([4, 5]) if r5 else 4, _key_sets(rng, need)) for _ in range(nsmp)]}
        else:
            key = rng.choice(["masked_kspace", "kspace"])
            kw = {"pad_coils": rng.choice([None, 0, 3, 4, 6]), "key": key, "coil_dim": 0}
            yield {"cls": cls, "kwargs": kw,
                   "samples": [_sample_spec(rng, rng.choice([4, 5]), _key_sets(rng, {key} if rng.random() < 0.9 else set()),
                                            coils=rng.randint(1, 4)) for _ in range(nsmp)]}


def _bucket(spec):
    kw = spec["kwargs"]
    b = spec["cls"]
    if spec["cls"] == "CropKspace":
        b += "/" + kw.get("crop_form", "tuple") + ("/centre" if kw.get("image_space_center_crop") else
                                                   "/" + kw.get("random_crop_sampler_type", "uniform")
                                                   + ("" if kw.get("random_crop_sampler_use_seed", True) else "-unseeded"))
    elif "kspace_key" in kw:
        b += "/key=" + str(kw["kspace_key"]).replace("enum:", "E.")
    ranks = sorted({s["rank"] for s in spec["samples"]})
    slices = {s["slices"] for s in spec["samples"] if s["rank"] == 5}
    return b + "/ranks=" + "".join(map(str, ranks)) + ("/slices-vary" if len(slices) > 1 else "")


def oracle_modules(ctx: Ctx, deep: bool = False):
    seen = set()
    for spec in gen_histories(ctx, deep):
        ctx.count(("modhist", repr(spec)), len(spec["samples"]) >= 2, bucket="oracle/module-history/" + _bucket(spec))
        for key, what, detail in run_history(spec):
            if key in seen:
                continue
            seen.add(key)
            yield Violation(key, what, {"op": "module_history", "history": spec, "detail": detail})


def replay_modules(rep: dict) -> bool:
    want = rep.get("key")
    probs = run_history(rep["history"])
    return bool(probs)


# --------------------------------------------------------------------------------------------------
# exact correspondence of the module ops (driver: `padk`, `cropk`): flip operators, integer data, both k-space keys
def _two_tensors(res) -> str:
    from core import ints, tensor_groups

    a, b = tensor_groups(res["kspace"]), tensor_groups(res["masked_kspace"])
    return "ok " + " | ".join(ints(g) for g in (a[0], a[1], b[0], b[1]))


def _module_impl(spec, sspec):
    def run():
        smp = make_sample(sspec)
        st = np.random.get_state()
        try:
            with torch.no_grad():
                return _two_tensors(build(spec)(smp))
        except (ValueError, TypeError, IndexError, RuntimeError, AssertionError, KeyError) as e:
            n = err_name(e)
            return "err " + ("ShapeError" if n == "RuntimeError" else n)
        finally:
            np.random.set_state(st)
    return run


def correspondence_modules(ctx: Ctx):
    from core import line, tensor_groups

    rng = ctx.rng
    for _ in range(ctx.budget(60, 900)):
        rank = rng.choice([4, 4, 5])
        three = rank == 5 and rng.random() < 0.4
        sspec = _sample_spec(rng, rank, {"kspace", "masked_kspace"}, h=rng.randint(1, 6), w=rng.randint(1, 6),
                             slices=rng.randint(1, 4), coils=rng.randint(1, 2))
        smp = make_sample(sspec)
        gk, gm = tensor_groups(smp["kspace"]), tensor_groups(smp["masked_kspace"])
        if rng.random() < 0.5:
            # ---- PadKspace, default and non-default key (enum member or plain string)
            kk = rng.choice(["enum:kspace", "enum:masked_kspace", "masked_kspace", None])
            dims = ([sspec["slices"]] if three else []) + [sspec["h"], sspec["w"]]
            target = [max(1, n + rng.choice([-2, -1, 0, 0, 1, 2, 3, 4])) for n in dims]
            kw = {"pad_shape": target, "shape_form": rng.choice(["tuple", "list"])}
            if kk:
                kw["kspace_key"] = kk
            spec = {"cls": "PadKspace", "ops": "flip", "kwargs": kw}
            code = 1 if kk and "masked" in kk else 0
            odd = any((t - n) % 2 == 1 and t > n for t, n in zip(target, dims))
            yield {"line": line("padk", [code], gk[0], gk[1], gm[0], gm[1], target), "impl": _module_impl(spec, sspec),
                   "nontrivial": odd, "bucket": f"PadKspace/rank{rank}/key={'masked' if code else 'kspace'}/" + ("odd" if odd else "even")}
        else:
            # ---- CropKspace (centre), every argument form
            form = rng.choice(["tuple", "list", "str_tuple", "str_list", "key"])
            dims = ([sspec["slices"]] if three else []) + [sspec["h"], sspec["w"]]
            crop = []
            for n in dims:
                r = rng.random()
                crop.append(0 if r < 0.08 and form in ("tuple", "list") else n + 1 if r < 0.12 else rng.randint(1, n))
            recon = crop + [1]
            if form == "key":
                sspec = dict(sspec, recon=recon)
            spec = {"cls": "CropKspace", "ops": "flip",
                    "kwargs": {"crop": "reconstruction_size" if form == "key" else crop, "crop_form": form,
                               "image_space_center_crop": True}}
            code = {"str_tuple": 0, "str_list": 0, "key": 1, "tuple": 2, "list": 2}[form]
            odd = any(c and (n - c) % 2 == 1 for c, n in zip(crop, dims))
            yield {"line": line("cropk", [code], gk[0], gk[1], gm[0], gm[1], [] if form == "key" else crop,
                                recon if form == "key" else []),
                   "impl": _module_impl(spec, sspec), "nontrivial": odd,
                   "bucket": f"CropKspace/rank{rank}/{form}/" + ("odd" if odd else "even")}


# --------------------------------------------------------------------------------------------------
# exact correspondence of PadCoilDimensionModule (driver: `padcoil`): every pad_coils (None, 0, smaller, equal, larger,
# negative), both keys, coil_dim 0 / 1, samples with and without the requested key
def _padcoil_impl(spec, sspec):
    from core import ints, tensor_groups

    def run():
        smp = make_sample(sspec)
        try:
            with torch.no_grad():
                res = build(spec)(smp)
        except (ValueError, TypeError, IndexError, RuntimeError, AssertionError, KeyError) as e:
            return "err " + err_name(e)
        groups = []
        for k in ("kspace", "masked_kspace"):
            if k in res:
                t = res[k]
                if not isinstance(t, torch.Tensor) or t.dtype != torch.float32:
                    return f"err DtypeChanged({getattr(t, 'dtype', type(t).__name__)})"
                groups += list(tensor_groups(t))
            else:
                groups += [[-1], [-1]]
        return "ok " + " | ".join(ints(g) for g in groups)
    return run


def correspondence_padcoil(ctx: Ctx):
    from core import line, tensor_groups

    rng = ctx.rng
    for _ in range(ctx.budget(40, 400)):
        rank = rng.choice([4, 5])
        present = rng.choice([{"kspace", "masked_kspace"}] * 3 + [{"kspace"}, {"masked_kspace"}])
        coils = rng.randint(1, 4)
        sspec = _sample_spec(rng, rank, present, h=rng.randint(1, 3), w=rng.randint(1, 3), slices=rng.randint(1, 3), coils=coils)
        key = rng.choice(["kspace", "masked_kspace"])
        cd = rng.choice([0, 0, 0, 1])
        full = make_sample(dict(sspec, keys=["kspace", "masked_kspace"]))      # placeholders for an absent key (ignored)
        smp = make_sample(sspec)
        cur = (smp.get(key) if key in smp else full[key]).shape[cd]
        n = rng.choice([None, 0, -1, cur, cur + 1, cur + 2, cur + 3, max(cur - 1, 1), rng.randint(1, 6)])
        spec = {"cls": "PadCoilDimensionModule", "kwargs": {"pad_coils": n, "key": key, "coil_dim": cd}}
        gk = tensor_groups(smp["kspace"] if "kspace" in smp else full["kspace"])
        gm = tensor_groups(smp["masked_kspace"] if "masked_kspace" in smp else full["masked_kspace"])
        num = n or 0
        kind = ("none" if not n else "missing-key" if key not in smp else "raises" if cur > n else "equal" if cur == n else "pads")
        yield {"line": line("padcoil", [num, 1 if key == "masked_kspace" else 0, cd, int("kspace" in smp), int("masked_kspace" in smp)],
                            gk[0], gk[1], gm[0], gm[1]),
               "impl": _padcoil_impl(spec, sspec), "nontrivial": kind == "pads",
               "bucket": f"PadCoilDimensionModule/rank{rank}/dim{cd}/{kind}"}
