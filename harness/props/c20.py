"""C20 — every shipped configuration and registered name resolves and validates.

Real side of the tie: for every YAML file (and for mutated copies of small ones) the *real*
`direct.environment.setup_common_environment` is run up to the point where it would build the model (its
`initialize_models_from_config` is replaced by a stub that hands the merged configuration back), the real `setup_engine`
is run up to the class lookup, and the real `build_transforms_from_environment` / `direct.predict._get_transforms` are run
with the two builders replaced by signature-binding stubs.  The verdict (stage, exception class) is diffed against the
Lean model's `checkConfig` on the generated tree.  The oracle then does the real thing: it instantiates model, engine,
masking functions and transform pipelines of every file (meta device in the quick tier, plus real CPU instantiation of
a seeded sample of distinct (model, engine) pairs; everything on the CPU in the thorough tier) and of the default
configuration of every model / dataset / masking function.

Phase 3 adds the *values*: the guard / dispatch / keyword-loop / attribute-chain tables extracted by
translate/recipes/c20_guards.py are evaluated in Lean (Model/ConfigGuard.lean, Props/GuardsC20.lean) and, for the same candidate
values, by the real constructors (meta device), the real masking / dataset builders, the real test expressions of the dispatch
chains, the real `_compute_resolution` and real attribute access on the structured configuration (`real_phase3`); the oracle
states the same on every merged shipped configuration (`value_failures`, `dataset_failures`) and on every default.
"""
from __future__ import annotations

import copy
import multiprocessing
import os
import pathlib
import shutil
import tempfile
import time
import traceback

from core import REPO, Ctx, ToolFailure, Violation, line

PROP = "C20"
# (named GuardsC20, not C20Guards: core.py attributes build failures to modules by substring, and "Props.C20" is a prefix of the latter)
EXTRA_LEAN_MODULES = ["DirectVerif.Props.GuardsC20"]
MANIFEST = {
    "text": "Lean 4: executable model of OmegaConf's structured merge (typed schema generated from the live dataclasses), of the "
            "key loop of setup_common_environment, of the name arithmetic of load_model_from_name / "
            "load_model_config_from_name / setup_engine and of dict_flatten; kernel-evaluated theorems (decide +kernel) that "
            "every shipped YAML tree (87, regenerated from the working tree each run; full strength, no file or class excluded) "
            "passes merge, operator, engine and "
            "dataset-block checks, that every transform-schema key is a parameter of build_mri_transforms, that every "
            "dataclass default is a value of its declared type, that no dataclass instance is a class-level default, that "
            "every model class binds the fields of its config class and that every module imports; all_registered_names_resolve (every model / engine / dataset / masking-function / "
            "TransformsType name under direct/, every metric, regularizer and loss the files mention); generic theorems specify the "
            "checker (validate accepts exactly the WellTyped trees, rejects unknown keys). Bridge lemmas: the string arithmetic of "
            "all eight name look-ups is AST-translated to functions on code points and proved equal to the model's for every name; "
            "the statement order of setup_common_environment, the shape of dict_flatten and the removed transform keys are "
            "translated tables satisfying decidable predicates. Differential correspondence runs the real setup_common_environment / setup_engine / "
            "build_transforms_from_environment on all files and on mutated files and diffs verdict and error class. "
            "Phase 3 (Props/GuardsC20.lean, Model/ConfigGuard.lean; 35 further theorems): the VALUES — an AST extractor turns the "
            "argument-validation statements of every model / masking-function / dataset constructor (membership tests, if/elif/else-raise "
            "chains, all(lo<f<hi), isinstance-int, len-in, -1-or-range against another parameter, asserts, base-class guards through "
            "super().__init__, guards that only fire in forward, `for key in kwargs: raise` loops) and of _compute_resolution into a guard "
            "table; a three-valued evaluator with Python's DirectEnum.__eq__ / OmegaConf conversion semantics proves that every "
            "shipped model block, masking block, dataset block and every dataclass default passes the guards of the class it is "
            "routed to (all decided on the model blocks), that every architecture / update-rule value selects a named branch of the "
            "dispatches that have no raising else (_get_model_config, ConjGrad.cg), that no str-typed field defaults to an enum member, "
            "that Model(**cfg) / Dataset(transform, **cfg) / MaskFunc(**init_args) bind including the keyword loops, that "
            "validation.crop / training.loss.crop / inference.crop (files and defaults) are accepted by _compute_resolution and "
            "training.optimizer is a torch.optim class, that every cfg.a.b.c chain under direct/ and every cfg.model.<field> an engine "
            "reads is a declared field, that every str_to_class site is a modelled look-up, that no file uses interpolation, that the "
            "transform schema and build_mri_transforms agree in both directions and dict_flatten never merges two keys; the merge stage is "
            "specified by iff theorems (mergeCheck_spec, rawBlockCheck_spec, list_any_unchecked + dataset_blocks_untyped = exactly what the "
            "real merge does not look at). Correspondence for all of it: real constructors on the meta device, real "
            "build_masking_function / dataset constructors over an empty data root, the real test expressions of the dispatch chains, "
            "real _compute_resolution, real attribute access on the structured config.",
    "note": "Partial: instantiation of torch modules, engines, masking functions and transform objects is run (meta device for "
            "all files, CPU for a sample; everything on CPU in the thorough tier), not proved. Value-level checks: the guard "
            "language covers the statement shapes listed above; 23 raising statements are outside it (conditions on derived "
            "values such as self.domain_sequence, len(list-of-modules), file-system checks) and are reported as opaque, not judged; "
            "guards of transform classes reached through build_mri_transforms (RescaleKspace, PadKspace, RandomRotation) and the "
            "conv_activation values that travel through **kwargs are covered by real instantiation only. project_attribute_chains is "
            "_partial: a never-called function of projects/calgary_campinas/predict_test.py reads cfg.inference.dataset.transforms.crop "
            "(witness uncalled_chain_current_violates). Training/validation dataset blocks are not type-checked by the real "
            "merge (proved: list_any_unchecked) and the model mirrors that. Trusted: Lean kernel, the "
            "introspecting generator and the guard extractor, OmegaConf, synthetic Calgary-Campinas masks served instead of the download (no network), "
            "torchvision/tensorboard stubs, logging set-up skipped.",
    "technique": "Lean 4 kernel evaluation over generated finite tables + generic lemmas about the checker and the guard evaluator + "
                 "differential correspondence + real instantiation sweep",
}
TRUSTED = [
    "Lean 4.33 kernel; axioms ⊆ {propext, Classical.choice, Quot.sound}; decide +kernel on generated tables",
    "harness/translate/recipes/c20.py: introspection of the live dataclasses / modules / signatures and YAML parsing into Lean data",
    "harness/translate/recipes/c20_guards.py: AST extraction of guards, dispatch chains, keyword loops, attribute chains, "
    "str_to_class sites (a statement it cannot read is counted as opaque, never as a passing guard)",
    "OmegaConf 2.3 (its loader parses the YAML files; its merge is the reference the model is diffed against)",
    "sandbox stub: synthetic .npy masks (218x170/174/180) served to CalgaryCampinasMaskFunc instead of download_url (no network)",
    "sandbox stubs of boot.py (torchvision.utils.make_grid, tensorboard SummaryWriter); setup_logging replaced by a no-op",
    "torch meta device stands for allocation-free construction of the modules in the quick tier",
    "an empty directory stands for the data root when dataset constructors are run (no data in the sandbox)",
]
ASSUMPTIONS = [
    "instantiation of models / engines / masking functions / transforms is executed, not proved",
    "strings are compared by interned id; the id table is regenerated with the trees on every run",
    "non-ASCII upper-case letters do not occur in model names or enum values (ASCII lower() in the model)",
    "the three call chains from validation.crop / training.loss.crop / inference.crop to _compute_resolution are declared in the "
    "recipe and re-checked syntactically on every run (consumers_verified); other consumers of configuration values are not traced",
    "a function whose name occurs only once in direct/, projects/ and tools/ is taken to be never called (project_attribute_chains)",
]
RULE = ("one case per shipped YAML file (verdict of the whole pipeline), per mutated file (unknown key / ill-typed value / "
        "deleted or renamed name at typed and untyped positions), per (schema, value) pair sent through OmegaConf.merge and "
        "validate, per name resolved, per (constructor, parameter, candidate value) sent through the real constructor and the "
        "guard evaluator (allowed constants, case variants, other enum members, numeric neighbours, wrong lengths), per keyword "
        "offered to a constructor, per consumer value, per attribute chain (extracted, corrupted, shortened), per optimizer name; "
        "non-trivial = the tree has at least one dataset block or the value is not accepted "
        "trivially (Any); distinct = distinct protocol line")

# keys of findings on the current tree that the lead has not yet repaired or listed as known (still reported)
PENDING_FINDINGS: list[str] = []

STAGE = {1: "merge", 2: "operators", 3: "engine", 4: "blocks"}
N_WORKERS = int(os.environ.get("VERIF_C20_WORKERS", "12"))


# --------------------------------------------------------------------------------------------------
# real pipeline (runs in worker processes)
class _Stop(BaseException):
    def __init__(self, *payload):
        self.payload = payload


_SCRATCH: pathlib.Path | None = None


def _scratch() -> pathlib.Path:
    """per-process scratch directory with the synthetic Calgary-Campinas masks (sandbox stub, see TRUSTED)"""
    global _SCRATCH
    if _SCRATCH is None or not _SCRATCH.exists():
        import numpy as np

        _SCRATCH = pathlib.Path(tempfile.mkdtemp(prefix="verif_c20_"))
        cache = _SCRATCH / "cache" / "calgary_campinas_masks"
        cache.mkdir(parents=True)
        rng = np.random.RandomState(0)
        for acc in (5, 10):
            for w in (170, 174, 180):
                np.save(cache / f"R{acc}_218x{w}.npy", rng.rand(3, 218, w) < 1.0 / acc)
    return _SCRATCH


def _cleanup():
    global _SCRATCH
    if _SCRATCH is not None:
        shutil.rmtree(_SCRATCH, ignore_errors=True)
        _SCRATCH = None


def _patch_sandbox():
    import boot  # noqa: F401
    import direct.common.subsample as S

    S.download_url = lambda *a, **k: None               # no network here; masks are pre-populated
    S.DIRECT_CACHE_DIR = _scratch() / "cache"


def _err(e: BaseException) -> str:
    return type(e).__name__


def _tb(e: BaseException) -> str:
    return "".join(traceback.format_exception(type(e), e, e.__traceback__))[-1800:]


def _tb_functions(e: BaseException) -> list[str]:
    return [f.name for f in traceback.extract_tb(e.__traceback__)]


def real_merge(path: pathlib.Path):
    """the REAL setup_common_environment up to (excluding) model construction -> (cfg, models, fwd, bwd)"""
    import direct.environment as E

    saved = (E.initialize_models_from_config, E.setup_logging)

    def stop(cfg, models, forward_operator, backward_operator, device):
        raise _Stop(cfg, models, forward_operator, backward_operator)

    E.initialize_models_from_config = stop
    E.setup_logging = lambda *a, **k: None
    try:
        E.setup_common_environment("run", _scratch() / "exp", path, "cpu", 0, False)
    except _Stop as s:
        return s.payload
    finally:
        E.initialize_models_from_config, E.setup_logging = saved
    raise ToolFailure("setup_common_environment returned without building a model")


def real_engine_class(cfg):
    """the REAL setup_engine up to (excluding) the constructor call -> engine class"""
    import direct.environment as E

    saved = E.str_to_class

    def resolve_then_stop(module_name, function_name):
        raise _Stop(saved(module_name, function_name))

    E.str_to_class = resolve_then_stop
    try:
        E.setup_engine(cfg, "cpu", None, {}, None, None, False)
    except _Stop as s:
        return s.payload[0]
    finally:
        E.str_to_class = saved
    raise ToolFailure("setup_engine returned without looking up the engine class")


class _Env:
    def __init__(self, cfg, fwd, bwd, engine=None):
        self.cfg = cfg

        class _E:
            forward_operator = fwd
            backward_operator = bwd

        self.engine = engine if engine is not None else _E()


def _bind_stubs():
    """signature-binding stand-ins for the two builders (the call must bind; nothing is constructed)"""
    import inspect

    from direct.common import subsample
    from direct.data import mri_transforms
    from direct.utils import str_to_class

    sig_m = inspect.signature(subsample.build_masking_function)
    sig_t = inspect.signature(mri_transforms.build_mri_transforms)

    def masking_stub(*a, **k):
        b = sig_m.bind(*a, **k)
        str_to_class("direct.common.subsample", b.arguments["name"] + "MaskFunc")
        return None

    def transforms_stub(*a, **k):
        sig_t.bind(*a, **k)
        return None

    return masking_stub, transforms_stub


def real_blocks(cfg, file_tree, fwd, bwd, bind_only: bool, engine=None):
    """run the REAL build_transforms_from_environment on every training / validation block and the REAL
    direct.predict._get_transforms on the inference block (when the file has one).  `bind_only`: builders are replaced by
    signature-binding stubs.  Returns [(section, index, exception)]"""
    import direct.inference as I
    import direct.predict as P
    import direct.train as T

    env = _Env(cfg, fwd, bwd, engine)
    saved = (T.build_masking_function, T.build_mri_transforms, P.build_masking_function, I.build_mri_transforms)
    if bind_only:
        m, t = _bind_stubs()
        T.build_masking_function, T.build_mri_transforms, P.build_masking_function, I.build_mri_transforms = m, t, m, t
    out = []
    try:
        for sec in ("training", "validation"):
            for i, block in enumerate(cfg[sec].datasets if file_tree.get(sec) else []):
                try:
                    T.build_transforms_from_environment(env, block)
                except Exception as e:  # noqa: BLE001
                    out.append((sec, i, e))
        if file_tree.get("inference"):
            try:
                P._get_transforms(env)
            except Exception as e:  # noqa: BLE001
                out.append(("inference", 0, e))
    finally:
        T.build_masking_function, T.build_mri_transforms, P.build_masking_function, I.build_mri_transforms = saved
    return out


def dataset_failures(cfg, file_tree: dict) -> list[dict]:
    """every dataset block builds its dataset object through the REAL `build_dataset_from_input` over an empty data root
    (the way `direct train` calls it: transforms, the block, data_root, filenames_filter) — constructor guards, unknown
    keyword arguments and missing mandatory values show up here without any data"""
    import inspect

    import direct.data.datasets as DS
    from direct.data.datasets import build_dataset_from_input

    root = _scratch() / "empty_root"
    root.mkdir(exist_ok=True)
    out, seen = [], set()
    blocks = []
    for sec in ("training", "validation"):
        if isinstance(file_tree.get(sec), dict) and file_tree[sec].get("datasets"):
            blocks += [(sec, i, b) for i, b in enumerate(cfg[sec].datasets)]
    if isinstance(file_tree.get("inference"), dict) and file_tree["inference"].get("dataset"):
        blocks.append(("inference", 0, cfg.inference.dataset))
    for sec, i, b in blocks:
        try:
            key = (sec == "inference", repr({k: v for k, v in dict(b).items() if k not in ("transforms", "text_description", "filenames_lists")}))
        except Exception:  # noqa: BLE001 — a MISSING value: let the real call report it
            key = (sec, i)
        if key in seen:
            continue
        seen.add(key)
        try:
            cls = getattr(DS, str(b.name) + "Dataset")
            ps = inspect.signature(cls.__init__).parameters
            extra = {}
            if "data_root" in ps:
                extra["data_root"] = root
            if "filenames_filter" in ps:
                extra["filenames_filter"] = []
            build_dataset_from_input(transforms=None, dataset_config=b, **extra)
        except (Exception, SystemExit) as e:
            out.append({"stage": f"{sec}-dataset", "index": i, "error": _err(e), "message": str(e)[:300], "traceback": _tb(e)})
    return out


def value_failures(cfg, models: dict, file_tree: dict, engine_class=None, only_dispatch: bool = False) -> list[dict]:
    """The property stated on the implementation for the *values* of a merged configuration (no model of ours involved):
    every crop value is one `_compute_resolution` takes; every architecture / update-rule value takes, in the dispatch
    of the real source, the branch of the enum member it names; no dispatch with a raising else falls through; every
    attribute chain the package reads exists on the merged configuration; the optimizer is a class of torch.optim."""
    from omegaconf import DictConfig, OmegaConf
    from omegaconf.errors import ConfigAttributeError, ConfigKeyError

    from core import REPO as repo
    from translate.recipes.c20_guards import named_member, route_probes

    info = _info()
    out = []
    # (a) consumers
    for c in info.consumers:
        if not c["verified"] or only_dispatch:
            continue
        sec = file_tree.get(c["needs"][0]) if isinstance(file_tree, dict) else None
        if not (isinstance(sec, dict) and sec.get(c["needs"][1])):
            continue
        try:
            v = _consumer_value(cfg, c["path"])
        except Exception as e:  # noqa: BLE001
            out.append({"stage": "consumer:" + ".".join(c["path"]), "error": _err(e), "message": str(e)[:200]})
            continue
        if not _consume_real(v):
            node = file_tree
            for p_ in c["path"]:
                node = node.get(p_) if isinstance(node, dict) and p_ in node else "<default>"
                if node == "<default>":
                    break
            out.append({"stage": "consumer:" + ".".join(c["path"]), "error": "ValueError", "from_default": node == "<default>",
                        "message": f"{'.'.join(c['path'])} = {v!r} is rejected by {c['attr']}"})
    # (b) dispatches
    blocks = {"model": cfg.model}
    for k, v in (cfg.additional_models or {}).items():
        blocks[k] = v
    for bname, block in blocks.items():
        cls = models.get(bname)
        if cls is None:
            continue
        import inspect

        try:
            probes = route_probes(cls, repo)
            params = inspect.signature(cls.__init__).parameters
        except Exception as e:  # noqa: BLE001
            out.append({"stage": "dispatch-probe", "error": _err(e), "message": str(e)[:200]})
            continue
        for pr in probes:
            if pr["param"] in block:
                v = block[pr["param"]]
            elif pr["param"] in params and params[pr["param"]].default is not inspect.Parameter.empty:
                v = params[pr["param"]].default
            else:
                continue
            if v is None or v == "":
                continue
            idx = pr["index"](v)
            if pr["raises"]:
                if idx == pr["n_tests"]:
                    out.append({"stage": f"late-guard:{bname}.{pr['param']}", "error": "ValueError",
                                "message": f"{bname}.{pr['param']} = {v!r} falls to the raising else of {pr['where']}"})
                continue
            m = named_member(pr["enum"], v)
            want = pr["index"](m) if m is not None else None
            if want != idx:
                out.append({"stage": f"misroute:{bname}.{pr['param']}", "error": "Misroute",
                            "message": f"{bname}.{pr['param']} = {v!r} names {m!r} but the dispatch at {pr['where']} takes branch "
                                       f"{idx} of {pr['n_tests']} (the member itself takes {want})"})
    # (c) attribute chains of the package on the real merged configuration
    seen = set()
    for rel, line_no, path, store, fn, called in ([] if only_dispatch else info.cfg_chains):
        if store or not rel.startswith("direct/") or path in seen:
            continue
        seen.add(path)
        node = cfg
        for p_ in path:
            if not isinstance(node, DictConfig):
                break
            try:
                node = getattr(node, p_)
            except (ConfigAttributeError, ConfigKeyError) as e:
                out.append({"stage": "attribute-chain:" + ".".join(path), "error": _err(e),
                            "message": f"{rel}:{line_no} reads cfg.{'.'.join(path)}: {str(e)[:120]}"})
                break
            except Exception:  # noqa: BLE001
                break
    if engine_class is not None:
        for m_, c_, f_, where in info.engine_model_fields:
            if any(b.__module__ == m_ and b.__name__ == c_ for b in engine_class.__mro__) and f_ not in cfg.model:
                out.append({"stage": f"attribute-chain:model.{f_}", "error": "ConfigAttributeError",
                            "message": f"{where} ({c_}) reads cfg.model.{f_}, which {cfg.model.model_name} does not declare"})
    # (d) optimizer
    if isinstance(file_tree.get("training"), dict) and file_tree["training"].get("datasets"):
        from direct.utils import str_to_class

        try:
            str_to_class("torch.optim", cfg.training.optimizer)
        except Exception as e:  # noqa: BLE001
            out.append({"stage": "optimizer", "error": _err(e), "message": f"training.optimizer = {cfg.training.optimizer!r}"})
    # de-duplicate (an engine field can be reached through several bases)
    uniq, keys = [], set()
    for f in out:
        k = (f["stage"], f["error"])
        if k not in keys:
            keys.add(k)
            uniq.append(f)
    return uniq


def real_verdict(path: pathlib.Path, file_tree: dict, instantiate: str | None = None) -> dict:
    """Everything the check wants to know about one configuration file, from the real code.

    answer: canonical verdict compared with the Lean model ("ok" | "err <stage> <ExceptionClass>")
    failures: what the real instantiation (device = `instantiate`) additionally found"""
    import torch

    _patch_sandbox()
    res = {"answer": None, "failures": [], "model_name": None, "engine": None, "t": {}}
    t0 = time.time()
    try:
        cfg, models, fwd, bwd = real_merge(path)
    except (Exception, SystemExit) as e:
        stage = 2 if "build_operators" in _tb_functions(e) else 1
        res["answer"] = f"err {stage} {_err(e)}"
        res["failures"].append({"stage": STAGE[stage], "error": _err(e), "message": str(e)[:300], "traceback": _tb(e)})
        return res
    res["t"]["merge"] = round(time.time() - t0, 2)
    res["model_name"] = str(cfg.model.model_name)
    try:
        engine_class = real_engine_class(cfg)
        res["engine"] = engine_class.__name__
    except (Exception, SystemExit) as e:
        res["answer"] = f"err 3 {_err(e)}"
        res["failures"].append({"stage": "engine", "error": _err(e), "message": str(e)[:300], "traceback": _tb(e)})
        return res
    try:
        res["failures"] += value_failures(cfg, models, file_tree, engine_class)
    except Exception as e:  # noqa: BLE001
        res["failures"].append({"stage": "value-oracle", "error": _err(e), "message": str(e)[:300], "traceback": _tb(e)})
    try:
        res["failures"] += dataset_failures(cfg, file_tree)
    except Exception as e:  # noqa: BLE001
        res["failures"].append({"stage": "dataset-oracle", "error": _err(e), "message": str(e)[:300], "traceback": _tb(e)})
    bound = real_blocks(cfg, file_tree, fwd, bwd, bind_only=True)
    if bound:
        sec, i, e = bound[0]
        res["answer"] = f"err 4 {_err(e)}"
    else:
        res["answer"] = "ok"
    if instantiate is None:
        for sec, i, e in bound:
            res["failures"].append({"stage": f"{sec}-block", "index": i, "error": _err(e), "message": str(e)[:300],
                                    "traceback": _tb(e)})
        return res
    # ---- the real thing
    import direct.environment as E

    t1 = time.time()
    model = engine = None
    try:
        with torch.device(instantiate):
            model, additional = E.initialize_models_from_config(cfg, models, fwd, bwd, instantiate)
    except (Exception, SystemExit) as e:
        res["failures"].append({"stage": "model-init", "error": _err(e), "message": str(e)[:300], "traceback": _tb(e)})
    res["t"]["model"] = round(time.time() - t1, 2)
    if model is not None:
        try:
            with torch.device(instantiate):
                engine = E.setup_engine(cfg, instantiate, model, additional, fwd, bwd, False)
        except (Exception, SystemExit) as e:
            res["failures"].append({"stage": "engine-init", "error": _err(e), "message": str(e)[:300], "traceback": _tb(e)})
    if engine is not None:
        for what, fn in (("loss-build", lambda: engine.build_loss()),
                         ("metrics-build", lambda: (engine.build_metrics(cfg.training.metrics),
                                                    engine.build_metrics(cfg.validation.metrics))),
                         ("regularizers-build", lambda: engine.build_regularizers(cfg.training.regularizers))):
            try:
                fn()
            except (Exception, SystemExit) as e:
                res["failures"].append({"stage": what, "error": _err(e), "message": str(e)[:300], "traceback": _tb(e)})
    t2 = time.time()
    built = real_blocks(cfg, file_tree, fwd, bwd, bind_only=False, engine=engine)
    res["t"]["blocks"] = round(time.time() - t2, 2)
    for sec, i, e in built:
        res["failures"].append({"stage": f"{sec}-block", "index": i, "error": _err(e), "message": str(e)[:300],
                                "traceback": _tb(e), "functions": _tb_functions(e)[-4:]})
    # a block the binding stubs accepted must not be rejected for its keywords by the real builders, and vice versa
    bound_keys = {(s, i) for s, i, _ in bound}
    for sec, i, e in built:
        if isinstance(e, TypeError) and "unexpected keyword" in str(e) and (sec, i) not in bound_keys:
            res["failures"].append({"stage": "harness-binding-mismatch", "error": "TypeError", "message": str(e)[:300]})
    res["n_blocks"] = sum(len(file_tree.get(s, {}).get("datasets", []) or []) for s in ("training", "validation")
                          if isinstance(file_tree.get(s), dict)) + (1 if file_tree.get("inference") else 0)
    return res


def _worker(task):
    kind = task[0]
    try:
        if kind == "file":
            _, rel, tree, device = task
            return real_verdict(REPO / rel, tree, device)
        if kind == "mut":
            _, tree = task
            from omegaconf import OmegaConf

            from translate.recipes.c20 import load_yaml

            d = _scratch() / "mut"
            d.mkdir(exist_ok=True)
            p = d / f"m{os.getpid()}_{time.time_ns()}.yaml"
            OmegaConf.save(OmegaConf.create(tree), p)
            if load_yaml(p) != tree:
                return {"answer": "skip-roundtrip", "failures": []}
            try:
                return real_verdict(p, tree, None)
            finally:
                p.unlink(missing_ok=True)
        if kind == "defaults":
            return real_defaults(task[1])
        if kind == "phase3":
            return real_phase3(task[1])
    except ToolFailure as e:
        return {"answer": f"tool-failure {e}", "failures": []}
    except BaseException as e:  # noqa: BLE001
        return {"answer": f"tool-failure {_err(e)}: {e}", "failures": [], "traceback": _tb(e)}
    return None


def _timed_worker(task):
    t0 = time.time()
    r = _worker(task)
    return r, round(time.time() - t0, 2)


def real_defaults(device: str) -> list[dict]:
    """default configuration of every model / dataset / masking function, instantiated for real"""
    import dataclasses
    import inspect

    import torch
    from omegaconf import OmegaConf

    from translate.recipes.c20 import introspect

    _patch_sandbox()
    import direct.common.subsample as S
    import direct.data.datasets_config as DC
    import direct.data.transforms as TR
    from direct.common.subsample_config import MaskingConfig
    from direct.data.mri_transforms import build_mri_transforms
    from direct.utils import dict_flatten, remove_keys, str_to_class

    info = introspect()
    out = []
    # models
    for (mod, cfg_name), (params, req, kw) in sorted(info.model_inits.items()):
        cls_cfg = info.schema_classes[(mod, cfg_name)]
        name = cfg_name[:-len("Config")]
        rec = {"kind": "model", "config": f"{mod}.{cfg_name}", "ok": True}
        try:
            cfg = OmegaConf.structured(cls_cfg)
            pkg = mod.rsplit(".", 1)[0]
            model_cls = None
            for mname, attrs in info.modules.items():
                if mname.startswith(pkg + ".") and name in attrs:
                    c = getattr(__import__(mname, fromlist=[name]), name)
                    if c.__module__ == mname:
                        model_cls = c
            kwargs = {k: cfg[k] for k in cfg.keys() if k not in ("model_name", "engine_name")}
            if "forward_operator" in params:
                kwargs.update(forward_operator=TR.fft2, backward_operator=TR.ifft2)
            with torch.device(device):
                model_cls(**kwargs)
            vf = value_failures(OmegaConf.create({"model": cfg, "additional_models": None}), {"model": model_cls}, {},
                                only_dispatch=True)
            if vf:
                rec.update(ok=False, error=vf[0]["error"], message=vf[0]["message"], value_stage=vf[0]["stage"])
        except (Exception, SystemExit) as e:
            rec.update(ok=False, error=_err(e), message=str(e)[:300], traceback=_tb(e))
        rec["declared_dataclass"] = "__dataclass_fields__" in vars(cls_cfg)
        out.append(rec)
    # datasets: structured defaults + their transform pipeline
    for n, c in sorted(vars(DC).items()):
        if inspect.isclass(c) and dataclasses.is_dataclass(c) and issubclass(c, DC.DatasetConfig):
            rec = {"kind": "dataset", "config": f"direct.data.datasets_config.{n}", "ok": True}
            try:
                cfg = OmegaConf.structured(c)
                build_mri_transforms(forward_operator=TR.fft2, backward_operator=TR.ifft2, mask_func=None,
                                     **dict_flatten(remove_keys(cfg.transforms, "masking")))
            except (Exception, SystemExit) as e:
                rec.update(ok=False, error=_err(e), message=str(e)[:300], traceback=_tb(e))
            out.append(rec)
    # default engine of every MRI model: DefaultConfig + the model's default config through the real builders
    import direct.environment as E
    from direct.config.defaults import DefaultConfig, TrainingConfig, ValidationConfig

    for name, mri in info.registered_models:
        if not mri:
            continue
        rec = {"kind": "engine", "config": name, "ok": True}
        try:
            cfg = OmegaConf.structured(DefaultConfig)
            mcfg = OmegaConf.structured(E.load_model_config_from_name(name))
            mcfg.model_name = name
            cfg.model = mcfg
            cfg.additional_models = OmegaConf.create({})
            cfg.training = TrainingConfig
            cfg.validation = ValidationConfig
            models = {"model": E.load_model_from_name(name)}
            with torch.device(device):
                model, add = E.initialize_models_from_config(cfg, models, TR.fft2, TR.ifft2, device)
                E.setup_engine(cfg, device, model, add, TR.fft2, TR.ifft2, False)
        except (Exception, SystemExit) as e:
            rec.update(ok=False, error=_err(e), message=str(e)[:300], traceback=_tb(e))
        out.append(rec)
    # every dataset build_dataset can construct: the fields of its config class bind to its constructor
    import direct.data.datasets as DS

    for n in info.registered_datasets:
        rec = {"kind": "dataset-class", "config": n, "ok": True}
        try:
            ds_cls = str_to_class("direct.data.datasets", n + "Dataset")
            cfg = OmegaConf.structured(E.load_dataset_config(n))
            kwargs = {k: None for k in cfg.keys() if k not in ("name", "transforms")}
            inspect.signature(ds_cls.__init__).bind(None, transform=None, **kwargs)
        except (Exception, SystemExit) as e:
            rec.update(ok=False, error=_err(e), message=str(e)[:300], traceback=_tb(e))
        out.append(rec)
    # every TransformsType member builds a pipeline with the default transform configuration
    from direct.data.mri_transforms import TransformsType

    for member in TransformsType:
        rec = {"kind": "transforms-type", "config": member.name, "ok": True}
        try:
            cfg = OmegaConf.merge(OmegaConf.structured(DC.TransformsConfig), {"transforms_type": member.name})
            build_mri_transforms(forward_operator=TR.fft2, backward_operator=TR.ifft2, mask_func=None,
                                 **dict_flatten(remove_keys(cfg, "masking")))
        except (Exception, SystemExit) as e:
            rec.update(ok=False, error=_err(e), message=str(e)[:300], traceback=_tb(e))
        out.append(rec)
    # the defaults of the values that functions consume (validation.crop, training.loss.crop, inference.crop)
    for c in info.consumers:
        if not c["verified"]:
            continue
        rec = {"kind": "consumer", "config": ".".join(c["path"]), "ok": True}
        try:
            v = _consumer_value(_installed_cfg(), c["path"])
            if not _consume_real(v):
                raise ValueError(f"default {'.'.join(c['path'])} = {v!r} is rejected by {c['attr']}")
        except (Exception, SystemExit) as e:
            rec.update(ok=False, error=_err(e), message=str(e)[:300], traceback=_tb(e))
        out.append(rec)
    # dict_flatten must not merge two keys of the transform schema (it drops the group names)
    rec = {"kind": "transforms-flatten", "config": "direct.data.datasets_config.TransformsConfig", "ok": True}
    try:
        cfg = remove_keys(OmegaConf.structured(DC.TransformsConfig), "masking")

        def leaves(node):
            n = 0
            for _k, v in node.items():
                n += leaves(v) if OmegaConf.is_dict(v) else 1
            return n

        if leaves(cfg) != len(dict_flatten(cfg)):
            raise ValueError(f"dict_flatten keeps {len(dict_flatten(cfg))} of the {leaves(cfg)} leaf keys of TransformsConfig: "
                             "two groups define the same key")
    except (Exception, SystemExit) as e:
        rec.update(ok=False, error=_err(e), message=str(e)[:300], traceback=_tb(e))
    out.append(rec)
    # masking functions with the defaults of MaskingConfig
    for n, c in sorted(vars(S).items()):
        if inspect.isclass(c) and n.endswith("MaskFunc") and not n.startswith("Base") and not inspect.isabstract(c) \
                and c.__module__ == S.__name__:
            rec = {"kind": "masking", "config": n, "ok": True}
            try:
                cfg = OmegaConf.structured(MaskingConfig)
                cfg.name = n[:-len("MaskFunc")]
                str_to_class("direct.common.subsample", n)
                S.build_masking_function(**cfg)
            except (ValueError, TypeError) as e:
                # the constructor validates its arguments and says so: the shared defaults of MaskingConfig are outside this
                # function's documented domain (integer centre lines, a mandatory scheme) — a rejection, not a crash
                rec.update(rejected=f"{_err(e)}: {str(e)[:120]}")
            except (Exception, SystemExit) as e:
                rec.update(ok=False, error=_err(e), message=str(e)[:300], traceback=_tb(e),
                           functions=_tb_functions(e)[-4:])
            out.append(rec)
    return out


# --------------------------------------------------------------------------------------------------
# phase 3: value-level guards, keyword policies, consumers, attribute chains — the REAL side
GUARD_EXC = ("ValueError", "NotImplementedError", "AssertionError")


def _model_case(name: str, block: dict, route: int):
    """route 0: 1 = the real constructor (meta device) accepts the merged block and no dispatch with a raising else falls
    through, 0 = a guard rejects it.  route 4: 1 = every dispatch without a raising else takes a named branch (or the value
    equals a member that owns the fallback)."""
    import importlib

    import torch
    from omegaconf import OmegaConf

    import direct.data.transforms as TR
    import direct.environment as E
    from core import REPO as repo
    from translate.recipes.c20_guards import route_probes

    cls = E.load_model_from_name(name)
    cfg = OmegaConf.merge(OmegaConf.structured(E.load_model_config_from_name(name)), OmegaConf.create(block))
    kwargs = {k: cfg[k] for k in cfg.keys() if k not in ("engine_name",)}
    import inspect

    params = inspect.signature(cls.__init__).parameters
    if "forward_operator" in params:
        kwargs.update(forward_operator=TR.fft2, backward_operator=TR.ifft2)
    else:
        kwargs.pop("model_name", None)
    probes = route_probes(cls, repo)

    def received(p):
        if p in kwargs:
            return kwargs[p]
        q = params.get(p)
        return None if q is None or q.default is inspect.Parameter.empty else q.default

    if route == 4:
        for pr in probes:
            if pr["raises"]:
                continue
            v = received(pr["param"])
            if not v:
                continue
            if pr["index"](v) < pr["n_tests"]:
                continue
            owners = [m for m in (pr["enum"] or []) if pr["index"](m) == pr["n_tests"]]
            if not any(v == m for m in owners):
                return "ok 0"
        return "ok 1"
    try:
        with torch.device("meta"):
            cls(**kwargs)
    except Exception as e:  # noqa: BLE001
        return "ok 0" if type(e).__name__ in GUARD_EXC else "ok 2"
    for pr in probes:
        if pr["raises"] and pr["index"](received(pr["param"])) == pr["n_tests"]:
            return "ok 0"
    return "ok 1"


def _mask_case(name: str, block: dict, typed: bool):
    from omegaconf import OmegaConf

    import direct.common.subsample as S
    from direct.common.subsample_config import MaskingConfig

    kw = dict(block)
    if typed:
        kw = OmegaConf.merge(OmegaConf.structured(MaskingConfig), OmegaConf.create({**block, "name": name}))
    else:
        kw["name"] = name
    try:
        S.build_masking_function(**kw)
    except Exception as e:  # noqa: BLE001
        return "ok 0" if type(e).__name__ in GUARD_EXC else "ok 2"
    return "ok 1"


def _dataset_case(name: str, block: dict, typed: bool):
    from omegaconf import OmegaConf

    import direct.data.datasets as DS
    import direct.environment as E

    kw = dict(block)
    if typed:
        cfg = OmegaConf.merge(OmegaConf.structured(E.load_dataset_config(name)), OmegaConf.create({**block, "name": name}))
        kw = {k: cfg[k] for k in cfg.keys() if k not in ("name", "transforms") and not OmegaConf.is_missing(cfg, k)}
    cls = getattr(DS, name + "Dataset")
    import inspect

    params = inspect.signature(cls.__init__).parameters
    base = {}
    if "data_root" in params:
        d = _scratch() / "empty_root"
        d.mkdir(exist_ok=True)
        base["data_root"] = d
    if name == "FakeMRIBlobs":
        base.update(sample_size=2, num_coils=2, spatial_shape=[8, 8])
    try:
        cls(transform=None, **base)
    except Exception as e:  # noqa: BLE001 — this class cannot be constructed without data: no verdict from the real side
        raise RuntimeError("baseline") from e
    base.update({k: v for k, v in kw.items() if v is not None or k in block})
    try:
        cls(transform=None, **base)
    except Exception as e:  # noqa: BLE001
        return "ok 0" if type(e).__name__ in GUARD_EXC else "ok 2"
    return "ok 1"


def _installed_cfg():
    from omegaconf import OmegaConf

    from direct.config.defaults import DefaultConfig, InferenceConfig, ModelConfig, TrainingConfig, ValidationConfig

    cfg = OmegaConf.structured(DefaultConfig)
    cfg.model = ModelConfig
    cfg.training = TrainingConfig
    cfg.validation = ValidationConfig
    cfg.inference = InferenceConfig
    return cfg


def _consumer_value(cfg, path):
    node = cfg
    for p in path:
        node = node[p]
    return node


def _consume_real(value):
    """the real `_compute_resolution` on the value: 1 = returns, 0 = raises ValueError"""
    import torch

    from direct.nn.mri_models import _compute_resolution

    try:
        _compute_resolution(value, [torch.tensor([4]), torch.tensor([4]), torch.tensor([1])])
    except ValueError:
        return 0
    return 1


def _consume_case(path: list, tree: dict):
    from omegaconf import OmegaConf

    cfg = OmegaConf.merge(_installed_cfg(), OmegaConf.create(tree))
    return f"ok {_consume_real(_consumer_value(cfg, path))}"


def _kwpol_real(name: str, key: str):
    """`Model(**{defaults…, key: 1})`: 1 unless the constructor's own keyword handling refuses the key"""
    import inspect

    import torch
    from omegaconf import OmegaConf

    import direct.data.transforms as TR
    import direct.environment as E

    cls = E.load_model_from_name(name)
    cfg = OmegaConf.structured(E.load_model_config_from_name(name))
    kwargs = {k: cfg[k] for k in cfg.keys() if k not in ("engine_name", "model_name")}
    if "forward_operator" in inspect.signature(cls.__init__).parameters:
        kwargs.update(forward_operator=TR.fft2, backward_operator=TR.ifft2)
    if key not in kwargs:
        kwargs[key] = 1
    try:
        with torch.device("meta"):
            cls(**kwargs)
    except TypeError as e:
        return "ok 0" if "unexpected keyword" in str(e) else "ok 1"
    except ValueError as e:
        return "ok 0" if "not supported" in str(e) else "ok 1"
    except Exception:  # noqa: BLE001 — the key was let through; what the constructor does with the value 1 is another matter
        return "ok 1"
    return "ok 1"


def _chain_case(path: list):
    from omegaconf import DictConfig
    from omegaconf.errors import ConfigAttributeError, ConfigKeyError

    node = _installed_cfg()
    for p in path:
        if not isinstance(node, DictConfig):
            return "ok 1"           # a step on a scalar / list / None is not a key look-up
        try:
            node = getattr(node, p)
        except (ConfigAttributeError, ConfigKeyError):
            return "ok 0"
        except Exception:  # noqa: BLE001  (MissingMandatoryValue: the key exists)
            return "ok 1"
    return "ok 1"


def _optim_case(tree: dict):
    from omegaconf import OmegaConf

    from direct.utils import str_to_class

    cfg = OmegaConf.merge(_installed_cfg(), OmegaConf.create(tree))
    try:
        str_to_class("torch.optim", cfg.training.optimizer)
    except (AttributeError, ModuleNotFoundError):
        return "ok 0"
    return "ok 1"


BIND_VALUES = {"accelerations": [5], "center_fractions": [0.1], "subsampling_scheme": "circus-radial"}


def _binds_case(name: str, keys: list):
    import direct.common.subsample as S

    try:
        S.build_masking_function(name=name, **{k: BIND_VALUES[k] for k in keys})
    except TypeError as e:
        return "ok 0" if "required" in str(e) and "argument" in str(e) else "ok 1"
    except Exception:  # noqa: BLE001
        return "ok 1"
    return "ok 1"


def real_phase3(cases: list) -> list:
    """answers of the real code for the phase-3 correspondence cases (one worker: everything here is cheap)"""
    _patch_sandbox()
    out = []
    for c in cases:
        try:
            k = c["op"]
            if k == "guard" and c["route"] in (0, 4):
                out.append(_model_case(c["name"], c["block"], c["route"]))
            elif k == "guard" and c["route"] == 1:
                out.append(_mask_case(c["name"], c["block"], c["typed"]))
            elif k == "guard" and c["route"] == 2:
                out.append(_dataset_case(c["name"], c["block"], c["typed"]))
            elif k == "consume":
                # a consumer of a section that is not in use (no validation datasets, no inference dataset) is never reached
                out.append(_consume_case(c["path"], c["tree"]) if c["in_use"] else "ok 1")
            elif k == "kwpol":
                out.append(_kwpol_real(c["name"], c["key"]))
            elif k == "chain":
                out.append(_chain_case(c["path"]))
            elif k == "optim":
                out.append(_optim_case(c["tree"]))
            elif k == "binds":
                out.append(_binds_case(c["name"], c["keys"]))
            else:
                out.append("err BadCase")
        except Exception as e:  # noqa: BLE001 — the merge refused the candidate, …: visible as an answer, never hidden
            out.append("skip " + type(e).__name__)
    return out


def phase3_cases(info, rng, thorough: bool) -> list:
    """candidate inputs for every extracted guard / policy / consumer / chain: the values the guard names, their case
    variants, neighbours of the numeric bounds, and values the guard must reject"""
    import dataclasses
    import enum as _enum
    import typing

    cases: list[dict] = []

    def field_type(module, attr, param):
        c = info.schema_classes.get((module.rsplit(".", 1)[0] + ".config", attr + "Config"))
        if c is None:
            return None, False
        try:
            h = typing.get_type_hints(c).get(param)
        except Exception:  # noqa: BLE001
            return None, False
        if h is None:
            return None, False
        core = [a for a in typing.get_args(h) if a is not type(None)] if typing.get_origin(h) is typing.Union else [h]
        return (core[0] if len(core) == 1 else None), True

    def spellings(consts, ftype):
        """configuration spellings for the constants of a guard, plus rejected neighbours"""
        out = []
        if isinstance(ftype, type) and issubclass(ftype, _enum.Enum):
            out += list(ftype.__members__)                # every member name: allowed ones and the others
            return out
        for c in consts:
            if c[0] == "str":
                out += [c[1], c[1].upper(), c[1].lower()]
            elif c[0] == "none":
                out.append(None)
            elif c[0] == "int":
                out.append(c[1])
        out += ["x", "Nonexistent"]
        return [v for i, v in enumerate(out) if v not in out[:i]]

    for gc in info.guard_classes:
        if gc["route"] == 0:
            name = gc["module"][len("direct.nn."):] + "." + gc["attr"]
            rows = [(g["param"], g["guard"], 0) for g in gc["guards"]] + \
                   [(r["param"], ("oneOf", r["consts"]), 0 if r["raises"] else 4) for r in gc["routes"]]
            for param, g, route in rows:
                ftype, is_field = field_type(gc["module"], gc["attr"], param)
                if not is_field:
                    continue
                if g[0] in ("oneOf", "oneOfOrFalsy"):
                    vals = spellings(g[1], ftype)
                elif g[0] == "eqOrRange":
                    vals = [-1, 0, 1, 2, 3, 7, 8, 9, 10, 11, 40]
                else:
                    continue
                for v in vals:
                    if isinstance(v, str) and v not in info.sym:
                        continue
                    block = {"model_name": name, param: v}
                    if g[0] == "eqOrRange" and rng.random() < 0.5:
                        block[g[3]] = rng.choice([1, 2, 8, 10])
                    cases.append({"op": "guard", "route": route, "typed": 1, "name": name, "block": block,
                                  "bucket": f"guard/model/{g[0]}{'(soft)' if route == 4 else ''}"})
            # keyword handling
            cfg_cls = info.schema_classes.get((gc["module"].rsplit(".", 1)[0] + ".config", gc["attr"] + "Config"))
            keys = ["bogus_key_zz", "steps", "sensitivity_map_model", "image_center_crop", "x", "kspace_context"]
            if cfg_cls is not None:
                keys += [f.name for f in dataclasses.fields(cfg_cls) if f.name not in gc["params"]
                         and f.name not in ("model_name", "engine_name")][:3]
            for k in keys if thorough else rng.sample(keys, min(len(keys), 3)):
                cases.append({"op": "kwpol", "name": name, "key": k, "bucket": "kwpol/" + ("varkw" if gc["varkw"] else "fixed")})
        elif gc["route"] == 1 and gc["guards"]:
            name = gc["attr"][:-len("MaskFunc")]
            cfs = [[0.1], [0.5, 0.1], [1.0], [0.0], [2], [12, 4], [1], [2.5], [], None, "ABSENT"]
            accs = [[4], [5], [10], [5.0], [4, 8], [5, 10]]
            for typed in (0, 1):
                for cf in cfs if thorough else rng.sample(cfs, 6):
                    block = {"accelerations": rng.choice(accs)}
                    if cf != "ABSENT":
                        block["center_fractions"] = cf
                    if "subsampling_scheme" in gc["required"]:
                        continue
                    cases.append({"op": "guard", "route": 1, "typed": typed, "name": name, "block": block,
                                  "bucket": f"guard/mask/{'typed' if typed else 'raw'}"})
        elif gc["route"] == 2 and gc["guards"]:
            name = gc["attr"][:-len("Dataset")]
            for g in gc["guards"]:
                if g["guard"][0] == "oneOf":
                    vals = spellings(g["guard"][1], None) + ["ABSENT"]
                elif g["guard"][0] == "lenIn":
                    vals = [[8], [8, 8], [4, 8, 8], [2, 4, 8, 8], []]
                else:
                    continue
                for typed in (0, 1):
                    for v in vals:
                        if isinstance(v, str) and v != "ABSENT" and v not in info.sym:
                            continue
                        block = {} if v == "ABSENT" else {g["param"]: v}
                        if name == "FakeMRIBlobs" and typed:
                            block = {"sample_size": 2, "num_coils": 2, **({"spatial_shape": [8, 8]} if v == "ABSENT" else block)}
                        cases.append({"op": "guard", "route": 2, "typed": typed, "name": name, "block": block,
                                      "bucket": f"guard/dataset/{'typed' if typed else 'raw'}"})
    # consumers
    verified = [c for c in info.consumers if c["verified"]]
    for i, c in enumerate(verified):
        for v in [None, "header", "training", "HEADER", "", "x", "ABSENT"]:
            for in_use in (True, False):
                tree: dict = {}
                node = tree
                for p in c["path"][:-1]:
                    node = node.setdefault(p, {})
                if v != "ABSENT":
                    node[c["path"][-1]] = v
                if in_use:
                    sec = tree.setdefault(c["needs"][0], {})
                    if c["needs"][1] == "datasets":
                        sec["datasets"] = [{"name": "FakeMRIBlobs"}]
                    else:
                        sec["dataset"] = {"name": "FakeMRIBlobs"}
                elif v == "ABSENT":
                    continue
                cases.append({"op": "consume", "i": i, "path": c["path"], "tree": tree, "in_use": in_use,
                              "bucket": "consume/" + ".".join(c["path"])})
    # attribute chains: the extracted ones and corrupted variants
    chains = sorted({ch[2] for ch in info.cfg_chains})
    for path in chains:
        cases.append({"op": "chain", "path": list(path), "bucket": "chain/extracted"})
        cases.append({"op": "chain", "path": list(path[:-1]) + ["bogus_key_zz"], "bucket": "chain/corrupted-last"})
        if len(path) > 1:
            cases.append({"op": "chain", "path": list(path[:-2]) + [path[-1]], "bucket": "chain/dropped-step"})
    for extra in (["inference", "dataset", "transforms", "cropping", "crop"], ["inference", "dataset", "transforms", "crop"],
                  ["inference", "dataset", "transforms", "masking", "name"], ["logging", "tensorboard", "num_images"],
                  ["training", "loss", "losses"], ["training", "crop"], ["validation", "lr"]):
        cases.append({"op": "chain", "path": extra, "bucket": "chain/probe"})
    for v in ["Adam", "SGD", "AdamW", "adam", "Nonexistent", "x", "ABSENT"]:
        cases.append({"op": "optim", "tree": {} if v == "ABSENT" else {"training": {"optimizer": v}}, "bucket": "optim"})
    for gc in info.guard_classes:
        if gc["route"] == 1:
            name = gc["attr"][:-len("MaskFunc")]
            for keys in (["accelerations"], ["accelerations", "center_fractions"], ["accelerations", "subsampling_scheme"]):
                cases.append({"op": "binds", "name": name, "keys": keys, "bucket": "binds"})
    if not thorough:
        keep: list[dict] = []
        by_op: dict[str, list] = {}
        for c in cases:
            by_op.setdefault(c["op"], []).append(c)
        caps = {"guard": 170, "chain": 60, "binds": 20, "kwpol": 24}
        for op, cs in by_op.items():
            if op in caps and len(cs) > caps[op]:
                # keep every bucket represented, then fill up at random
                rng.shuffle(cs)
                seen, first, rest = set(), [], []
                for c in cs:
                    (first if c["bucket"] not in seen else rest).append(c)
                    seen.add(c["bucket"])
                cs = first + rest[:max(0, caps[op] - len(first))]
            keep += cs
        cases = keep
    return cases


def phase3_line(c: dict, info) -> str:
    cps = lambda s: [ord(ch) for ch in s]  # noqa: E731
    k = c["op"]
    if k == "guard":
        return line("guard", [c["route"], c["typed"]], cps(c["name"]), enc_val(c["block"], info))
    if k == "consume":
        return line("consume", [c["i"]], enc_val(c["tree"], info))
    if k == "kwpol":
        return line("kwpol", cps(c["name"]), cps(c["key"]))
    if k == "chain":
        return line("chain", [info.sym[p] for p in c["path"]])
    if k == "optim":
        return line("optim", enc_val(c["tree"], info))
    if k == "binds":
        return line("binds", cps(c["name"]), [info.sym[x] for x in c["keys"]])
    raise ValueError(k)


# --------------------------------------------------------------------------------------------------
# protocol encoding (must agree with Driver/C20.lean)
def _info():
    from translate.recipes.c20 import introspect

    return introspect()


def enc_val(v, info=None) -> list[int]:
    from translate.recipes.c20 import str_kind

    info = info or _info()

    def sym(s: str) -> int:
        if s not in info.sym:
            raise KeyError(f"string {s!r} is not interned (add it to EXTRA_SYMBOLS)")
        return info.sym[s]

    if v is None:
        return [0]
    if isinstance(v, bool):
        return [4, int(v)]
    if isinstance(v, int):
        return [2, v]
    if isinstance(v, float):
        return [3, sym(repr(v))]
    if isinstance(v, str):
        return [1] if v == "???" else [5, sym(v), str_kind(v)]
    if isinstance(v, (list, tuple)):
        out = [6, len(v)]
        for x in v:
            out += enc_val(x, info)
        return out
    if isinstance(v, dict):
        out = [7, len(v)]
        for k, x in v.items():
            out += [sym(str(k))] + enc_val(x, info)
        return out
    raise TypeError(type(v))


def enc_path(path, info=None) -> list[int]:
    info = info or _info()
    return [info.sym[p] if isinstance(p, str) else -(p + 1) for p in path]


def apply_edit(tree, path, new, delete=False):
    """Python mirror of Model/Config.lean `setPath` (replace / insert at a map key, delete a map key, replace a list element)"""
    t = copy.deepcopy(tree)
    node = t
    for p in path[:-1]:
        if isinstance(p, str):
            if not isinstance(node, dict) or p not in node:
                return t
            node = node[p]
        else:
            if not isinstance(node, list) or p >= len(node):
                return t
            node = node[p]
    last = path[-1]
    if isinstance(last, str):
        if not isinstance(node, dict):
            return t
        if delete:
            node.pop(last, None)
        else:
            node[last] = copy.deepcopy(new)
    else:
        if isinstance(node, list) and last < len(node) and not delete:
            node[last] = copy.deepcopy(new)
    return t


def _get(tree, path):
    node = tree
    for p in path:
        try:
            node = node[p]
        except (KeyError, IndexError, TypeError):
            return None
    return node


# --------------------------------------------------------------------------------------------------
# generators
def mutation_templates(tree) -> list[tuple[str, list, object, bool]]:
    """(bucket, path, new value, delete?) applicable to `tree`"""
    out = []
    A = out.append
    has = lambda *p: _get(tree, list(p)) is not None  # noqa: E731
    # unknown keys
    A(("unknown/top", ["bogus_key_zz"], 3, False))
    A(("unknown/model", ["model", "bogus_key_zz"], 3, False))
    A(("unknown/physics", ["physics", "bogus_key_zz"], True, False))
    A(("unknown/logging", ["logging", "bogus_key_zz"], "x", False))
    if has("training"):
        A(("unknown/training", ["training", "bogus_key_zz"], 1, False))
        A(("unknown/loss", ["training", "loss", "bogus_key_zz"], 1, False))
    if has("training", "datasets", 0):
        A(("unknown/raw-block(accepted)", ["training", "datasets", 0, "bogus_key_zz"], 1, False))
        A(("unknown/raw-transforms", ["training", "datasets", 0, "transforms", "bogus_key_zz"], 1, False))
        A(("unknown/raw-transforms-nested", ["training", "datasets", 0, "transforms", "cropping", "bogus_key_zz"], 1, False))
        A(("unknown/raw-masking(kwargs)", ["training", "datasets", 0, "transforms", "masking", "bogus_key_zz"], 1, False))
        A(("delete/raw-name", ["training", "datasets", 0, "name"], None, True))
        A(("rename/raw-dataset", ["training", "datasets", 0, "name"], "Nonexistent", False))
        A(("delete/raw-masking", ["training", "datasets", 0, "transforms", "masking"], None, True))
        A(("null/raw-masking(ok)", ["training", "datasets", 0, "transforms", "masking"], None, False))
        A(("delete/raw-transforms", ["training", "datasets", 0, "transforms"], None, True))
        A(("null/raw-transforms", ["training", "datasets", 0, "transforms"], None, False))
        if has("training", "datasets", 0, "transforms", "masking"):
            A(("delete/raw-mask-name", ["training", "datasets", 0, "transforms", "masking", "name"], None, True))
            A(("delete/raw-mask-accelerations", ["training", "datasets", 0, "transforms", "masking", "accelerations"], None, True))
            A(("rename/raw-mask", ["training", "datasets", 0, "transforms", "masking", "name"], "Nonexistent", False))
            A(("missing/raw-mask-name", ["training", "datasets", 0, "transforms", "masking", "name"], "???", False))
    if has("validation", "datasets", 0):
        A(("unknown/raw-transforms-val", ["validation", "datasets", 0, "transforms", "bogus_key_zz"], 1, False))
        A(("rename/raw-mask-val", ["validation", "datasets", 0, "transforms", "masking", "name"], "Nonexistent", False))
    if has("inference", "dataset"):
        A(("unknown/typed-block", ["inference", "dataset", "bogus_key_zz"], 1, False))
        A(("unknown/typed-transforms", ["inference", "dataset", "transforms", "bogus_key_zz"], 1, False))
        A(("unknown/typed-masking", ["inference", "dataset", "transforms", "masking", "bogus_key_zz"], 1, False))
        A(("enum/lowercase", ["inference", "dataset", "transforms", "masking", "mode"], "static", False))
        A(("enum/name(ok)", ["inference", "dataset", "transforms", "masking", "mode"], "DYNAMIC", False))
        A(("type/typed-accelerations-str", ["inference", "dataset", "transforms", "masking", "accelerations"], "x", False))
        A(("type/typed-accelerations-ints(ok)", ["inference", "dataset", "transforms", "masking", "accelerations"], [4, 8], False))
        A(("type/typed-accelerations-bad-elem", ["inference", "dataset", "transforms", "masking", "accelerations"], [4, "x"], False))
        A(("type/typed-bool-word(ok)", ["inference", "dataset", "transforms", "use_seed"], "off", False))
        A(("type/typed-bool-float", ["inference", "dataset", "transforms", "use_seed"], 2.5, False))
        A(("type/typed-float-from-str(ok)", ["inference", "dataset", "transforms", "padding_eps"], "1e-4", False))
        A(("type/typed-enum-in-struct", ["inference", "dataset", "transforms", "sensitivity_map_estimation",
                                         "sensitivity_maps_type"], "rss_estimate", False))
        A(("type/typed-enum-in-struct(ok)", ["inference", "dataset", "transforms", "sensitivity_map_estimation",
                                             "sensitivity_maps_type"], "RSS_ESTIMATE", False))
        A(("null/typed-masking(ok)", ["inference", "dataset", "transforms", "masking"], None, False))
        A(("null/typed-transforms", ["inference", "dataset", "transforms"], None, False))
        A(("delete/typed-name", ["inference", "dataset", "name"], None, True))
        A(("rename/typed-dataset", ["inference", "dataset", "name"], "Nonexistent", False))
        A(("rename/typed-dataset(ok)", ["inference", "dataset", "name"], "FakeMRIBlobs", False))
        A(("delete/typed-mask-name", ["inference", "dataset", "transforms", "masking", "name"], None, True))
        A(("rename/typed-mask", ["inference", "dataset", "transforms", "masking", "name"], "Nonexistent", False))
        A(("null/inference(skipped)", ["inference"], None, False))
        A(("delete/inference-dataset", ["inference", "dataset"], None, True))
    # ill-typed values in the typed sections
    if has("training"):
        A(("type/float-from-str", ["training", "lr"], "not_a_number", False))
        A(("type/float-from-numeric-str(ok)", ["training", "lr"], "2.5", False))
        A(("type/float-from-int(ok)", ["training", "lr"], 3, False))
        A(("type/float-from-bool", ["training", "lr"], True, False))
        A(("type/float-null", ["training", "lr"], None, False))
        A(("type/int-from-float", ["training", "batch_size"], 2.5, False))
        A(("type/int-from-numeric-str(ok)", ["training", "batch_size"], "3", False))
        A(("type/int-from-float-str", ["training", "batch_size"], "2.5", False))
        A(("type/int-from-bool", ["training", "batch_size"], True, False))
        A(("type/int-from-list", ["training", "batch_size"], [1], False))
        A(("type/bool-from-word(ok)", ["training", "gradient_debug"], "yes", False))
        A(("type/bool-from-int(ok)", ["training", "gradient_debug"], 1, False))
        A(("type/bool-from-float", ["training", "gradient_debug"], 2.5, False))
        A(("type/bool-from-str", ["training", "gradient_debug"], "x", False))
        A(("type/str-from-int(ok)", ["training", "optimizer"], 3, False))
        A(("type/str-from-list", ["training", "optimizer"], ["x"], False))
        A(("type/optional-null(ok)", ["training", "model_checkpoint"], None, False))
        A(("type/list-from-str", ["training", "metrics"], "x", False))
        A(("type/list-of-str-from-ints(ok)", ["training", "metrics"], [1, 2], False))
        A(("type/list-from-map", ["training", "metrics"], {"x": 1}, False))
        A(("type/struct-from-str", ["training", "loss"], "x", False))
        A(("type/struct-null", ["training", "checkpointer"], None, False))
        A(("type/any-list(ok)", ["training", "loss", "losses"], [{"function": "l1_loss", "multiplier": 1.0}, 3, "x"], False))
        A(("type/datasets-map", ["training", "datasets"], {"x": 1}, False))
        A(("delete/datasets", ["training", "datasets"], None, True))
        A(("null/training(skipped)", ["training"], None, False))
        A(("missing/lr(ok)", ["training", "lr"], "???", False))
    A(("type/physics-bool", ["physics", "use_noise_matrix"], "off", False))
    A(("type/physics-optional-float", ["physics", "noise_matrix_scaling"], None, False))
    A(("type/physics-struct-list", ["physics"], [1], False))
    A(("type/logging-list(ok)", ["logging", "log_as_image"], ["x"], False))
    A(("type/logging-nested-int", ["logging", "tensorboard", "num_images"], "x", False))
    # names
    A(("delete/model", ["model"], None, True))
    A(("delete/model_name", ["model", "model_name"], None, True))
    A(("rename/model-nonexistent", ["model", "model_name"], "nonexistent.nonexistent.Nonexistent", False))
    A(("rename/model-no-module", ["model", "model_name"], "unet.Unet2d", False))
    A(("rename/model-other", ["model", "model_name"], "unet.unet_2d.Unet2d", False))
    A(("rename/engine", ["model", "engine_name"], "NoSuchEngine", False))
    A(("rename/engine-empty(default)", ["model", "engine_name"], "", False))
    A(("rename/engine-null(default)", ["model", "engine_name"], None, False))
    A(("rename/operator", ["physics", "forward_operator"], "no_such_operator", False))
    A(("rename/operator-call(ok)", ["physics", "backward_operator"], "fft2(centered=False)", False))
    if has("additional_models"):
        k = next(iter(tree["additional_models"]))
        A(("unknown/additional-model", ["additional_models", k, "bogus_key_zz"], 1, False))
        A(("delete/additional-model-name", ["additional_models", k, "model_name"], None, True))
        A(("rename/additional-model", ["additional_models", k, "model_name"], "nonexistent.nonexistent.Nonexistent", False))
    return out


def synthetic_values(rng):
    """values thrown at individual schemas: one generator per shape"""
    scalars = [0, 1, 3, -2, 2.5, 0.0001, True, False, None, "x", "3", "2.5", "1e-4", "yes", "off", "true", "1", "0", "nan",
               "???", "SENSE", "sense", "InitType.SENSE", "STATIC", "static", "RSS_ESTIMATE", "rss_estimate", "UNET", "unet"]
    r = rng.random()
    if r < 0.55:
        return rng.choice(scalars)
    if r < 0.75:
        return [rng.choice(scalars) for _ in range(rng.randint(0, 3))]
    if r < 0.85:
        return [[1], {"x": 1}, rng.choice(scalars)]
    if r < 0.95:
        return {"x": rng.choice(scalars)}
    return {}


# --------------------------------------------------------------------------------------------------
_STATE: dict = {}


def prepare(ctx: Ctx):
    """run the real code for every file (and for the mutated files) in worker processes, once"""
    import logging

    logging.disable(logging.CRITICAL)      # the repository logs every failed lookup before it exits; the verdicts carry that
    info = _info()
    _STATE.clear()
    if info.failures or not info.configs:
        _STATE["unimportable"] = True
        return
    rng = ctx.rng
    device_all = "cpu" if ctx.thorough else "meta"
    tasks = []
    trees = dict(info.configs)
    order = sorted(range(len(info.configs)), key=lambda i: -len(repr(info.configs[i][1])))
    for i in order:
        rel, tree = info.configs[i]
        tasks.append((("file", rel), ("file", rel, tree, device_all)))
    # mutated copies of small files: one base per (model, section layout) class, seeded choice
    small = [(rel, t) for rel, t in info.configs if len(repr(t)) < 9000]
    with_inf = [x for x in small if x[1].get("inference")]
    without = [x for x in small if not x[1].get("inference")]
    bases = rng.sample(with_inf, min(len(with_inf), ctx.budget(3, 8))) + rng.sample(without, min(len(without), ctx.budget(2, 6)))
    muts = []
    per_base = ctx.budget(16, 200)
    for rel, tree in bases:
        tpl = mutation_templates(tree)
        rng.shuffle(tpl)
        for bucket, path, new, delete in tpl[:per_base]:
            muts.append((rel, bucket, path, new, delete))
    # make sure every template bucket is exercised at least once per run
    seen = {m[1] for m in muts}
    for rel, tree in bases:
        for bucket, path, new, delete in mutation_templates(tree):
            if bucket not in seen:
                seen.add(bucket)
                muts.append((rel, bucket, path, new, delete))
    for j, (rel, bucket, path, new, delete) in enumerate(muts):
        tasks.append((("mut", j), ("mut", apply_edit(trees[rel], path, new, delete))))
    # real CPU instantiation of a seeded sample of distinct (model, engine) classes (quick tier)
    cpu_sample = []
    if not ctx.thorough:
        classes: dict[tuple, list] = {}
        for rel, tree in info.configs:
            m = tree.get("model") or {}
            classes.setdefault((m.get("model_name"), m.get("engine_name")), []).append((len(repr(tree)), rel))
        reps = [min(v)[1] for _, v in sorted(classes.items(), key=lambda kv: repr(kv[0]))]
        cpu_sample = rng.sample(reps, min(len(reps), int(os.environ.get("VERIF_C20_CPU_SAMPLE", "3"))))
        for rel in cpu_sample:
            tasks.append((("cpu", rel), ("file", rel, trees[rel], "cpu")))
    tasks.append((("defaults", 0), ("defaults", device_all)))
    p3 = phase3_cases(info, rng, ctx.thorough)
    # split over a few workers: the model cases dominate
    n_chunks = 4
    for j in range(n_chunks):
        tasks.append((("phase3", j), ("phase3", p3[j::n_chunks])))
    t0 = time.time()
    _scratch()          # created before the fork: shared by all workers, removed below
    mp = multiprocessing.get_context("fork")
    try:
        with mp.Pool(N_WORKERS) as pool:
            try:
                timed = pool.map_async(_timed_worker, [t for _, t in tasks], chunksize=1).get(timeout=3000 if ctx.thorough else 900)
            except multiprocessing.TimeoutError as e:
                raise ToolFailure("real configuration sweep timed out") from e
    finally:
        _cleanup()
    results = [r for r, _ in timed]
    per_kind: dict[str, list] = {}
    for (k, _), (_, dt) in zip(tasks, timed):
        per_kind.setdefault(k[0], []).append(dt)
    ctx.notes.append("worker seconds per task kind (sum / max): " +
                     ", ".join(f"{k} {sum(v):.1f}/{max(v):.1f}" for k, v in sorted(per_kind.items())))
    by_key = {k: r for (k, _), r in zip(tasks, results)}
    for k, r in by_key.items():
        if k[0] == "phase3" and not isinstance(r, list):
            raise ToolFailure(f"worker failed on {k}: {r}")
        if isinstance(r, dict) and str(r.get("answer", "")).startswith("tool-failure"):
            raise ToolFailure(f"worker failed on {k}: {r['answer']}\n{r.get('traceback', '')}")
    p3_answers: list = [None] * len(p3)
    for j in range(n_chunks):
        p3_answers[j::n_chunks] = by_key[("phase3", j)]
    _STATE.update(results=by_key, muts=muts, cpu_sample=cpu_sample, device_all=device_all, sweep_s=round(time.time() - t0, 1),
                  phase3=list(zip(p3, p3_answers)))
    ctx.notes.append(f"real sweep: {len(tasks)} tasks on {N_WORKERS} workers in {_STATE['sweep_s']} s; files on {device_all}; "
                     f"CPU sample {cpu_sample}")


def correspondence(ctx: Ctx):
    info = _info()
    if _STATE.get("unimportable"):
        return
    res = _STATE["results"]
    idx = {rel: i for i, (rel, _) in enumerate(info.configs)}
    # (1) every shipped file
    for rel, tree in info.configs:
        r = res[("file", rel)]
        nb = sum(len((tree.get(s) or {}).get("datasets") or []) for s in ("training", "validation"))
        yield {"line": line("cfg", [idx[rel]]), "impl": (lambda r=r: r["answer"]), "key": ("cfg", rel), "nontrivial": nb > 0,
               "bucket": "file/" + r["answer"].replace(" ", "-")}
    # (2) mutated files
    for j, (rel, bucket, path, new, delete) in enumerate(_STATE["muts"]):
        r = res[("mut", j)]
        if r["answer"] == "skip-roundtrip":
            ctx.notes.append(f"mutation {bucket} on {rel} skipped: YAML round trip changed the tree")
            continue
        val = [] if delete else enc_val(new, info)
        yield {"line": line("cfgmut", [idx[rel]], enc_path(path, info), val), "impl": (lambda r=r: r["answer"]),
               "key": ("mut", rel, bucket), "nontrivial": True, "bucket": "mut/" + bucket + " -> " + r["answer"].replace(" ", "-")}
    # (3) validate vs OmegaConf.merge on single schemas
    import dataclasses

    from omegaconf import OmegaConf

    schema_list = sorted(info.schema_classes.items())
    bases: dict = {}

    def _structured(cls):
        # `OmegaConf.merge` deep-copies its first argument, so one structured instance per class serves all cases
        if cls not in bases:
            bases[cls] = OmegaConf.structured(cls)
        return bases[cls]

    rng = ctx.rng
    for _ in range(ctx.budget(500, 6000)):
        si = rng.randrange(len(schema_list))
        (mod, name), cls = schema_list[si]
        fields = dataclasses.fields(cls)
        if not fields:
            continue
        r = rng.random()
        if r < 0.8:
            f = rng.choice(fields)
            tree = {f.name: synthetic_values(rng)}
            shape = "field"
        elif r < 0.9:
            tree = {"bogus_key_zz": 1, rng.choice(fields).name: "???"}
            shape = "unknown-key"
        else:
            tree = {}
            shape = "empty"

        def impl(cls=cls, tree=tree):
            try:
                OmegaConf.merge(_structured(cls), OmegaConf.create(tree))
                return "ok"
            except Exception as e:  # noqa: BLE001
                return "err " + type(e).__name__

        yield {"line": line("validate", [si], enc_val(tree, info)), "impl": impl, "key": ("validate", si, repr(tree)),
               "nontrivial": True, "bucket": f"validate/{shape}"}
    # (3b) systematic: container-typed / optional fields of every schema against the shapes that decide the error class
    import typing

    def merge_impl(cls, tree):
        def impl():
            try:
                OmegaConf.merge(_structured(cls), OmegaConf.create(tree))
                return "ok"
            except Exception as e:  # noqa: BLE001
                return "err " + type(e).__name__
        return impl

    for si, ((mod, name), cls) in enumerate(schema_list):
        try:
            hints = typing.get_type_hints(cls)
        except Exception:  # noqa: BLE001
            continue
        for f in dataclasses.fields(cls):
            h = hints.get(f.name)
            core = [a for a in typing.get_args(h) if a is not type(None)] if typing.get_origin(h) is typing.Union else [h]
            prim = all(c in (int, float, bool, str) or (isinstance(c, type) and issubclass(c, __import__("enum").Enum))
                       for c in core)
            if prim and not ctx.thorough:
                continue
            for v in ([1], {}, None, "x", 3, 2.5, {"bogus_key_zz": 1}, [[1], {"x": 1}, None]):
                tree = {f.name: v}
                yield {"line": line("validate", [si], enc_val(tree, info)), "impl": merge_impl(cls, tree),
                       "key": ("validate", si, repr(tree)), "nontrivial": True,
                       "bucket": "validate/systematic-" + ("prim" if prim else "container-or-optional")}
    # (4) name resolution: every name that occurs + malformed ones
    import direct.environment as E
    from direct.utils import str_to_class

    def sysexit(fn):
        def run():
            try:
                fn()
                return "ok 1"
            except SystemExit:
                return "ok 0"
            except (AttributeError, ModuleNotFoundError):
                return "ok 0"
        return run

    names = sorted({str((t.get("model") or {}).get("model_name")) for _, t in info.configs} |
                   {str(m.get("model_name")) for _, t in info.configs for m in (t.get("additional_models") or {}).values()})
    bad_names = ["nonexistent.nonexistent.Nonexistent", "unet.Unet2d", "Unet2d", "x", "unet.unet_2d.Unet2d", "rim.rim.RIM",
                 "UNET.unet_2d.Unet2d", "unet.UNET_2D.Unet2d", "unet.unet_2d.unet2d", "unet.unet_2d", "unet..Unet2d"]
    cps = lambda s: [ord(c) for c in s]  # noqa: E731
    for n in names + bad_names:
        if n == "None":
            continue
        yield {"line": line("resolve", [0], cps(n)), "impl": sysexit(lambda n=n: E.load_model_from_name(n)),
               "key": ("resolve0", n), "nontrivial": True, "bucket": "resolve/model"}
        yield {"line": line("resolve", [1], cps(n)), "impl": sysexit(lambda n=n: OmegaConf.structured(E.load_model_config_from_name(n))),
               "key": ("resolve1", n), "nontrivial": True, "bucket": "resolve/model-config"}
    ds_names = sorted({str(b.get("name")) for _, t in info.configs for s in ("training", "validation")
                       for b in ((t.get(s) or {}).get("datasets") or [])}) + ["Nonexistent", "Masking", "Dataset", "x", "Transforms"]
    for n in ds_names:
        yield {"line": line("resolve", [3], cps(n)),
               "impl": sysexit(lambda n=n: OmegaConf.structured(E.load_dataset_config(n))),
               "key": ("resolve3", n), "nontrivial": True, "bucket": "resolve/dataset-config"}
    mk_names = sorted({str(((b.get("transforms") or {}).get("masking") or {}).get("name")) for _, t in info.configs
                       for s in ("training", "validation") for b in ((t.get(s) or {}).get("datasets") or [])})
    for n in mk_names + ["Nonexistent", "Base", "x"]:
        if n == "None":
            continue
        yield {"line": line("resolve", [4], cps(n)),
               "impl": sysexit(lambda n=n: str_to_class("direct.common.subsample", n + "MaskFunc")),
               "key": ("resolve4", n), "nontrivial": True, "bucket": "resolve/masking"}


    # (6) phase 3: guards / keyword policies / consumers / attribute chains / optimizer / mandatory masking parameters
    skipped = 0
    for c, ans in _STATE.get("phase3", []):
        if str(ans).startswith("skip"):
            skipped += 1
            continue
        yield {"line": phase3_line(c, info), "impl": (lambda a=ans: a), "key": ("p3", repr(sorted(c.items(), key=lambda kv: kv[0]))),
               "nontrivial": True, "bucket": c["bucket"] + " -> " + str(ans).replace(" ", "-")}
    if skipped:
        ctx.notes.append(f"phase-3 candidates refused by the merge (not guard cases): {skipped}")

    # (5) the registry tables: every registered model / engine / dataset / masking function / TransformsType member /
    #     referenced metric, regularizer and loss, through the real look-up functions
    import types

    from direct.engine import Engine
    from direct.nn.mri_models import MRIModelEngine
    import direct.data.datasets_config as DC

    def bit(fn):
        def run():
            try:
                r = fn()
                return "ok 0" if r is False else "ok 1"
            except (Exception, SystemExit):
                return "ok 0"
        return run

    def model_reg(name, mri):
        E.load_model_from_name(name)
        OmegaConf.structured(E.load_model_config_from_name(name))
        if mri:
            real_engine_class(OmegaConf.create({"model": {"model_name": name, "engine_name": None}}))

    def engine_reach(mod, cls):
        pkg = mod.split(".")[2]
        c = real_engine_class(OmegaConf.create({"model": {"model_name": pkg + ".", "engine_name": cls}}))
        return c.__module__ == mod

    def dataset_reg(n):
        str_to_class("direct.data.datasets", n + "Dataset")
        OmegaConf.structured(E.load_dataset_config(n))

    def loss_ok(n):
        cfg = OmegaConf.create({"training": {"loss": {"losses": [{"function": n, "multiplier": 1.0}]}}})
        MRIModelEngine.build_loss(types.SimpleNamespace(cfg=cfg, ndim=2))

    tables = [
        (0, "model", info.registered_models, lambda e: model_reg(*e)),
        (1, "engine", info.registered_engines, lambda e: engine_reach(*e)),
        (2, "dataset", info.registered_datasets, dataset_reg),
        (3, "masking", info.registered_masks, lambda n: str_to_class("direct.common.subsample", n + "MaskFunc")),
        (4, "transforms-type", info.transforms_types,
         lambda n: OmegaConf.merge(OmegaConf.structured(DC.TransformsConfig), {"transforms_type": n})),
        (5, "functional", info.referenced_functionals, lambda n: Engine._build_function_class([n], "direct.functionals", "metric")),
        (6, "loss", info.referenced_losses, loss_ok),
        (7, "dataset-base", info.dataset_bases, dataset_reg),
    ]
    for kind, label, entries, fn in tables:
        for i, e in enumerate(entries):
            yield {"line": line("reg", [kind, i]), "impl": bit(lambda e=e, fn=fn: fn(e)), "key": ("reg", kind, repr(e)),
                   "nontrivial": True, "bucket": f"registry/{label}"}


# --------------------------------------------------------------------------------------------------
def report_only(info) -> dict:
    """Dead / unchecked keys of the *untyped* training and validation dataset blocks (never a violation: the real merge
    replaces the typed list, so these keys are only looked at by whoever consumes them).  Three classes per block:
      typed-schema-would-reject : key is not a field of the dataset's config class / of TransformsConfig (legacy flat layout …)
      swallowed-masking-kwarg   : masking key that build_masking_function drops (not a parameter of the mask function)
      dataset-kwarg-not-a-parameter : dataset-level key that no __init__ in the dataset class's MRO names (swallowed by **kwargs,
                                   or a TypeError at dataset construction when there is no **kwargs sink)"""
    import dataclasses
    import inspect

    import direct.common.subsample as S
    import direct.data.datasets as DS
    import direct.data.datasets_config as DC

    agg: dict[tuple, dict] = {}

    def note(cat, key, rel, extra=""):
        a = agg.setdefault((cat, key, extra), {"blocks": 0, "files": []})
        a["blocks"] += 1
        if rel not in a["files"]:
            a["files"].append(rel)

    def extra_keys(tree, cls, prefix=""):
        out = []
        if not isinstance(tree, dict) or not dataclasses.is_dataclass(cls):
            return out
        fields = {f.name: f for f in dataclasses.fields(cls)}
        for k, v in tree.items():
            if k not in fields:
                out.append(prefix + str(k))
                continue
            f = fields[k]
            d = None
            try:
                d = f.default_factory() if f.default_factory is not dataclasses.MISSING else f.default
            except Exception:  # noqa: BLE001
                pass
            if dataclasses.is_dataclass(d) and not isinstance(d, type):
                out += extra_keys(v, type(d), prefix + str(k) + ".")
        return out

    mask_builder = set(inspect.signature(S.build_masking_function).parameters) - {"kwargs"}
    for rel, tree in info.configs:
        for sec in ("training", "validation"):
            for b in ((tree.get(sec) or {}).get("datasets") or []) if isinstance(tree.get(sec), dict) else []:
                if not isinstance(b, dict):
                    continue
                name = b.get("name")
                cfg_cls = getattr(DC, f"{name}Config", None)
                for k in extra_keys(b, cfg_cls) if cfg_cls else []:
                    note("typed-schema-would-reject", k, rel, str(name))
                m = (b.get("transforms") or {}).get("masking") if isinstance(b.get("transforms"), dict) else None
                if isinstance(m, dict) and isinstance(m.get("name"), str):
                    mcls = getattr(S, m["name"] + "MaskFunc", None)
                    if mcls is not None:
                        ps = inspect.signature(mcls.__init__).parameters
                        sink = any(p.kind == p.VAR_KEYWORD for p in ps.values())
                        for k in m:
                            if k not in mask_builder and k not in ps:
                                note("masking-kwarg-swallowed-by-**kwargs" if sink else "swallowed-masking-kwarg", str(k), rel, m["name"])
                dcls = getattr(DS, f"{name}Dataset", None)
                if dcls is not None:
                    named, sink = set(), False
                    for c in dcls.__mro__:
                        if "__init__" in vars(c) and c is not object:
                            ps = inspect.signature(c.__init__).parameters
                            named |= {p for p, q in ps.items() if q.kind not in (q.VAR_KEYWORD, q.VAR_POSITIONAL)}
                    sink = any(p.kind == p.VAR_KEYWORD for p in inspect.signature(dcls.__init__).parameters.values())
                    for k in b:
                        if k not in ("name", "transforms") and k not in named:
                            note("dataset-kwarg-not-a-parameter" + ("(swallowed)" if sink else "(TypeError at construction)"),
                                 str(k), rel, str(name))
    rows = [{"class": c, "key": k, "of": e, "blocks": v["blocks"], "files": len(v["files"]), "examples": v["files"][:3]}
            for (c, k, e), v in sorted(agg.items())]
    return {"note": "report only — untyped training/validation dataset blocks are never merged into the typed schema "
                    "(ListConfig merge replaces the list); no entry here is a violation",
            "rows": rows,
            "dataset_base_classes_without_config": list(info.dataset_bases)}


def phase3_report(info) -> dict:
    """observations that are not violations of the property as stated (never a verdict)"""
    import enum as _enum
    import importlib
    import inspect
    import typing

    vacuous = sorted({f"{gc['module']}.{gc['attr']}: guard on `{g['param']}` vs `{g['guard'][1]}` can never fire ({g['where']}:{g['line']})"
                      for gc in info.guard_classes for g in gc["guards"] if g["guard"][0] == "vacuous"})
    opaque = sorted({o for gc in info.guard_classes for o in gc["opaque"]})
    mismatched = []
    for gc in info.guard_classes:
        if gc["route"] != 0:
            continue
        cfg_cls = info.schema_classes.get((gc["module"].rsplit(".", 1)[0] + ".config", gc["attr"] + "Config"))
        if cfg_cls is None:
            continue
        try:
            hints = typing.get_type_hints(getattr(importlib.import_module(gc["module"]), gc["attr"]).__init__)
            ch = typing.get_type_hints(cfg_cls)
        except Exception:  # noqa: BLE001
            continue
        for p_, h in hints.items():
            core = [a for a in typing.get_args(h) if a is not type(None)] if typing.get_origin(h) is typing.Union else [h]
            if len(core) == 1 and inspect.isclass(core[0]) and issubclass(core[0], _enum.Enum) and p_ in ch:
                fh = ch[p_]
                fcore = [a for a in typing.get_args(fh) if a is not type(None)] if typing.get_origin(fh) is typing.Union else [fh]
                if fcore != core:
                    mismatched.append(f"{cfg_cls.__name__}.{p_}: {getattr(fcore[0], '__name__', fcore[0])} "
                                      f"(constructor parameter: {core[0].__name__})")
    diffs = []
    try:
        from omegaconf import OmegaConf

        from direct.data.datasets_config import TransformsConfig
        from direct.utils import dict_flatten, remove_keys

        for k, v in dict_flatten(remove_keys(OmegaConf.structured(TransformsConfig), "masking")).items():
            bd = info.builder_defaults.get(k, "NODEFAULT")
            vv = OmegaConf.to_container(v) if OmegaConf.is_config(v) else v
            b2 = list(bd) if isinstance(bd, (list, tuple)) else bd
            if vv != b2:
                diffs.append(f"{k}: TransformsConfig {vv!r} vs build_mri_transforms {bd!r}")
    except Exception as e:  # noqa: BLE001
        diffs.append(f"not computed: {e!r}")
    return {
        "note": "report only — none of these is a violation of the property as stated",
        "transform_defaults_typed_vs_untyped_blocks": diffs,
        "guards_that_can_never_fire": vacuous[:3] + ([f"… {len(vacuous) - 3} more (inherited)"] if len(vacuous) > 3 else []),
        "raising_statements_outside_the_guard_language": opaque,
        "config_fields_swallowed_by_kwargs_and_never_read": info.dead_model_keys,
        "str_typed_fields_of_enum_annotated_parameters": mismatched,
        "never_called_functions_reading_undeclared_chains": sorted({f"{c[0]}:{c[4]} reads cfg.{'.'.join(c[2])}"
                                                                    for c in info.cfg_chains if not c[5]}),
        "unmodelled_str_to_class_sites": [f"{a}:{b}" for a, b, _m, ok in info.str_to_class_sites if not ok],
    }


# --------------------------------------------------------------------------------------------------
def _failure_key(rel: str, f: dict) -> str:
    fns = f.get("functions") or []
    if f["stage"].endswith("-block") and f["error"] == "KeyError" and "__load_masks" in " ".join(fns) + f.get("traceback", ""):
        return "code:subsample.CalgaryCampinasMaskFunc:KeyError-float-acceleration"
    if f["stage"].startswith("consumer:") and f.get("from_default"):
        path = f["stage"][len("consumer:"):].split(".")
        owner = {"validation": "ValidationConfig", "inference": "InferenceConfig", "training": "LossConfig"}.get(path[0], path[0])
        return f"default:direct.config.defaults.{owner}.{path[-1]}:rejected-by-_compute_resolution"
    if f["stage"].startswith("misroute:"):
        return f"misroute:{rel}:{f['stage'][len('misroute:'):]}"
    if f["stage"].startswith("consumer:"):
        # the same rejected value in many files is one finding
        return f"{f['stage']}:{f.get('message', '').split(' = ')[-1].split(' is rejected')[0]}:rejected"
    if f["stage"].startswith("attribute-chain:") or f["stage"].startswith("late-guard:"):
        return "code:" + f["stage"]
    return f"yaml:{rel}:{f['stage']}-{f['error']}"


def oracle(ctx: Ctx, deep: bool = False):
    """The property stated on the implementation: every file merges, resolves, and instantiates for real."""
    info = _info()
    for s_ in info.instance_defaults:
        ctx.count(("instance-default", s_), True, bucket="oracle/instance-default")
        yield Violation("defaults:instance-default:" + s_, f"{s_}: a dataclass instance / mutable literal is a class-level "
                        "default (ValueError: mutable default on Python >= 3.11)", {"op": "source", "where": s_})
    if _STATE.get("unimportable") or info.failures:
        import re

        groups: dict[str, list] = {}
        for what, tb in info.failures or [("import", "no configuration could be read")]:
            ctx.count(("import", what), True, bucket="oracle/import-failure")
            frames = re.findall(r'File "([^"]+)", line \d+, in (\S+)', tb)
            inside = [(f, fn) for f, fn in frames if str(REPO) in f]
            where = (inside[-1][0].replace(str(REPO) + "/", "") if inside else "unknown")
            last = tb.strip().split("\n")[-1]
            groups.setdefault(f"import:{where}:{last.split(':')[0]}", []).append((what, tb))
        for key, items in groups.items():
            yield Violation(key, f"{items[0][0]} (+{len(items) - 1} more) fails on the running Python: "
                                 f"{items[0][1].strip().splitlines()[-1][:200]}",
                            {"op": "import", "what": items[0][0], "all": [w for w, _ in items], "traceback": items[0][1]})
        return
    for rel, why in info.parse_failures:
        yield Violation(f"yaml:{rel}:parse", f"{rel} cannot be parsed: {why}", {"op": "parse", "path": rel, "error": why})
    try:
        ctx.notes.append({"report_only_untyped_dataset_blocks": report_only(info)})
    except Exception as e:  # noqa: BLE001 — a report must never turn into a verdict
        ctx.notes.append(f"report-only section failed: {e!r}")
    try:
        ctx.notes.append({"report_only_phase3": phase3_report(info)})
    except Exception as e:  # noqa: BLE001
        ctx.notes.append(f"phase-3 report section failed: {e!r}")
    res = _STATE["results"]
    grouped: dict[str, list] = {}
    for key, r in sorted(res.items(), key=lambda kv: repr(kv[0])):
        if key[0] not in ("file", "cpu"):
            continue
        rel = key[1]
        device = _STATE["device_all"] if key[0] == "file" else "cpu"
        ctx.count(("oracle", key), r.get("n_blocks", 0) > 0 or bool(r["failures"]),
                  sample={"file": rel, "device": device, "model": r.get("model_name"), "engine": r.get("engine"),
                          "blocks": r.get("n_blocks"), "failures": [f["stage"] + ":" + f["error"] for f in r["failures"]],
                          "t": r.get("t")},
                  bucket=f"oracle/instantiate-{device}/" + ("ok" if not r["failures"] else "fails"))
        for f in r["failures"]:
            grouped.setdefault(_failure_key(rel, f), []).append((rel, device, f))
    for k, items in grouped.items():
        rel, device, f = items[0]
        files = sorted({i[0] for i in items})
        yield Violation(k, f"{f['stage']} of {rel}" + (f" (+{len(files) - 1} more files)" if len(files) > 1 else "") +
                        f" raises {f['error']}: {f['message'][:160]}",
                        {"op": "config", "path": rel, "files": files, "device": device, "stage": f["stage"], "error": f["error"],
                         "message": f["message"], "index": f.get("index"), "traceback": f.get("traceback", "")[-1200:]})
    # default configurations
    for rec in res[("defaults", 0)]:
        ctx.count(("default", rec["kind"], rec["config"]), True, bucket=f"oracle/default-{rec['kind']}/" +
                  ("rejects-shared-defaults" if rec.get("rejected") else "ok" if rec["ok"] else "fails"))
        if rec["kind"] == "model" and not rec.get("declared_dataclass", True):
            yield Violation(f"config:{rec['config']}:not-a-dataclass",
                            f"{rec['config']} declares fields but is not decorated with @dataclass: its fields are ignored by "
                            f"OmegaConf; default instantiation: {rec.get('error')} {rec.get('message', '')[:120]}",
                            {"op": "default", "kind": "model", "config": rec["config"], "error": rec.get("error"),
                             "message": rec.get("message"), "traceback": rec.get("traceback", "")[-1200:]})
            continue
        if not rec["ok"]:
            if rec["kind"] == "masking" and rec["error"] == "KeyError" and "__load_masks" in rec.get("traceback", ""):
                key = "code:subsample.CalgaryCampinasMaskFunc:KeyError-float-acceleration"
            elif rec["kind"] == "consumer":
                path = rec["config"].split(".")
                owner = {"validation": "ValidationConfig", "inference": "InferenceConfig", "training": "LossConfig"}.get(path[0], path[0])
                key = f"default:direct.config.defaults.{owner}.{path[-1]}:rejected-by-_compute_resolution"
            elif rec["kind"] == "model" and str(rec.get("value_stage", "")).startswith("misroute:"):
                key = f"misroute:default:{rec['config'].rsplit('.', 1)[-1]}.{rec['value_stage'].split('.')[-1]}"
            elif rec["kind"] == "model":
                key = f"config:{rec['config']}:default-init-{rec['error']}"
            else:
                key = f"config:{rec['kind']}:{rec['config']}:default-init-{rec['error']}"
            yield Violation(key, f"default configuration of {rec['kind']} {rec['config']} cannot be instantiated: "
                                 f"{rec['error']}: {rec['message'][:160]}",
                            {"op": "default", "kind": rec["kind"], "config": rec["config"], "error": rec["error"],
                             "message": rec["message"], "traceback": rec.get("traceback", "")[-1200:]})


def replay(rep: dict) -> bool:
    """re-run a recorded failing case on the implementation; True when it still fails"""
    from translate.recipes.c20 import load_yaml

    op = rep.get("op")
    try:
        if op == "config":
            path = REPO / rep["path"]
            r = real_verdict(path, load_yaml(path), rep.get("device") or "meta")
            return any(f["stage"] == rep["stage"] and f["error"] == rep["error"] for f in r["failures"])
        if op == "default":
            return any(r["config"] == rep["config"] and (not r["ok"] or not r.get("declared_dataclass", True))
                       for r in real_defaults("meta"))
        if op == "import":
            import importlib

            import boot  # noqa: F401

            for what in rep.get("all") or [rep["what"]]:
                if what.startswith("import "):
                    importlib.import_module(what.split()[-1])
            return False
        if op == "source":
            from translate.recipes.c20 import introspect

            return rep["where"] in introspect(force=True).instance_defaults
        if op == "parse":
            load_yaml(REPO / rep["path"])
            return False
    except BaseException:  # noqa: BLE001
        return True
    finally:
        _cleanup()
    return True
