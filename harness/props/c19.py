"""C19 — data-consistency blocks implement the MRI physics exactly (MRILogLikelihood, ConjGrad)."""
from __future__ import annotations

import functools
import math
from fractions import Fraction

import boot  # noqa: F401
import numpy as np
import torch

import core
from core import Ctx, Violation, err_name, line

PROP = "C19"
MANIFEST = {
    "text": "Lean 4 / Mathlib theorems over arbitrary complex inner-product spaces (any image size, coil count, sensitivity "
            "map, mask, data): with backward = adjoint of forward (normalised FFT pair), reduce = adjoint of expand and the mask "
            "an orthogonal projection, MRILogLikelihood.forward = s * A^H(A x - M y) with A = M F E; this is the gradient of "
            "1/2 ||M F E x - y||^2 (exact second-order expansion, directional derivative, uniqueness), vanishes on consistent "
            "data, and is (1/N) * gradient for the un-normalised pair. ConjGrad.cg with its own recurrences (ak = <r,r>/<r,Bp>, "
            "FR and Polak-Ribiere bk, 0/0 = 0, break after the x update): loop invariant r_k = b - B x_k, <p_k,r_k> = <r_k,r_k>, "
            "<r_k,Bp_k> = <p_k,Bp_k>; all residuals mutually orthogonal, all directions B-conjugate; PRP = FR; the objective "
            "1/2(||A x - M y||^2 + lambda ||x - z||^2) never increases from pass to pass, hence never worse than the start for any "
            "num_iters / tol; zero residual <=> (A^H A + lambda) x = A^H y + lambda z; exact solution after dim passes (finite "
            "termination); uniqueness of the solution. Phase 3 — 'to solver tolerance within num_iters' in exact arithmetic: "
            "cg_exit_guarantee (with the code's own test mean(sqrt|<r,r>|) < tol the returned x is the iterate of the FIRST pass whose "
            "true residual satisfies ||b - B x|| < 2*tol — the mean over the (re, im) pair halves the norm — or of pass num_iters; at "
            "every earlier pass the residual was >= 2*tol), cg_reaches_tolerance (num_iters >= dim and tol > 0 => ||b - B x|| < 2*tol), "
            "cg_no_tolerance (tol <= 0 runs all passes), stop_test_iff + stopQ_eq_stopTol (the square-root-free test the "
            "executable model decides over its own exact rationals equals, under the cast Q -> R, the real-valued test of the "
            "theorems: the driver's loop stops exactly when the theorems' loop does). Call histories: dc_history_independent — a block whose "
            "calls have exactly the effects of the translated write table answers, after ANY history of earlier calls on the same "
            "instance, what a first call answers when the table is empty; loglik_gradient_after_any_history / "
            "conjGrad_never_worse_after_any_history; memo_on_identity_violates (a memo keyed by the identity of the k-space "
            "argument breaks it). The theorems are about the same Lean definitions the driver executes over "
            "exact Gaussian rationals; those are tied to the code by (a) plans translated from the Python AST of forward / "
            "_A_star_op / _A_star_A_op / B_op / cg (private helpers and module-level private functions inlined with their argument "
            "bindings, hoisted zero / mask locals followed, the dispatch on bk_update_type resolved per update type whether written "
            "as if/elif chain or early returns, index lists recognised by evaluating them for ranks 3-6), proved to evaluate to "
            "the model definitions for every operations record (semantic bridge: insensitive to statement order, local names, "
            "hoisting, helper extraction), the control skeleton of cg as data (break test on the new squared residual norm, only x "
            "updated before it, one exit, one loop); (b) translated structural tables with decided predicates: dc_state_writes_ok (no write to "
            "self / class / module state, no memoising decorator in the 87 functions reachable from the entry points of 25 "
            "data-consistency classes + the tensor helpers), dc_block_shape_ok (single exit, no in-place operation on an argument), "
            "dc_control_ok (every branch / loop of the two anchored blocks is among the modelled kinds — optional-argument default, the "
            "cg loop with its break, the update-type dispatch: no branch on self.training, a shape, a coil count, no loop over coils "
            "or chunks; the loops and mode- / shape-dependent branches of the other classes are among the recorded ones; removing a "
            "branch or extracting a helper does not alarm), conjgradnet_cg_calls_ok / conjgradnet_ctor_args_eq / site_conjgradnet_init_sem (the caller of ConjGrad "
            "outside the anchored file); (c) exact differential correspondence against the real blocks "
            "with dense dyadic unitary / un-normalised / arbitrary operator matrices injected as forward/backward operators, in "
            "train and eval mode, 1-33 coils, and along call histories on ONE persistent instance (same tensor objects re-used with "
            "other masks / scalings, refilled in place, equal copies). "
            "Phase 2: the same physics re-implemented in 37 sites of the unrolled models and engines (EndToEndVarNetBlock, "
            "RecurrentVarNetBlock, VSharpNet/3D, JointICNet, IterDualNet, LPDNet, XPDNet, MRIVarSplitNet, KIKINet, CIRIM, ConjGradNet, "
            "MRIModelEngine, SSL/JSSL/VSharp engines) is extracted from the AST into plans, each proved to evaluate to one of the "
            "model forms (softDC, aOp, aStar, dcGradTwice, dcGradAfter, loglik, hardDC, ...), and those forms are proved to be the "
            "gradient A^H(A x - M y) / the k-space gradient M(k - y) / the adjoint pair / the hard data consistency; CIRIM's "
            "k-space output and VSharpNetJSSLEngine's inference path are recorded as differing. ConjGrad on a batch: the loop is "
            "left at the first pass where the batch-mean statistic passes the test (cg_batch_mean_stop) and every sample is still "
            "never worse than its own start; un-normalised operator pair = adjoint pair (d F, d F^H) on data d y.",
    "note": "Partial: floating-point rounding and reaching the tolerance with num_iters < dim (the shipped budgets 10-15) are numerical, "
            "checked by the oracle on the real code with the real fft2/ifft2 (autograd gradient, dense torch.linalg.solve, objective "
            "and energy-norm error monotone over iteration counts, a further pass moves the iterate until the tolerance test holds, "
            "ill-conditioned systems cond(B) up to 1e6 under the shipped budgets, float64 through a harness-side FFT pair because "
            "the repo's fft2 rejects float64) and not proved; the batch form of the executable stop test (stopQB, rational enclosure of the square roots) is "
            "not tied to a real-valued statement (the single-sample stopQ is: stopQ_eq_stopTol). Trusted: Lean kernel "
            "+ Mathlib (axioms propext, Classical.choice, Quot.sound), "
            "the AST translator and the completeness of its write / in-place / control-flow scanners, that torch fftn/ifftn(norm='ortho') "
            "are mutually adjoint (C01), expand/reduce adjoint (C02), "
            "masking is a 0/1 projection (C03) — here hypotheses of the theorems. DY/BAN are outside the property (their "
            "coefficients are minus the FR one on the invariant; proved as a note). Observations (notes in the evidence, not judged): "
            "map magnitudes whose |<r,Bp>|^2 leaves the float32 range make complex_division return a zero step (C02 known finding); "
            "a plain lower-case update-type string given directly to ConjGrad selects the BAN branch (the config rejects it).",
    "technique": "Lean 4 + Mathlib proof (inner-product-space algebra, induction over iterations and call histories) + AST-to-plan "
                 "translation bridge and translated structural tables (decide + simp) + exact rational differential correspondence "
                 "incl. persistent-instance histories + autograd / dense-solve / call-history oracle",
}
EXTRA_LEAN_MODULES = ["DirectVerif.Lemmas.C19Ops", "DirectVerif.Lemmas.C19Loglik", "DirectVerif.Lemmas.C19CG",
                      "DirectVerif.Lemmas.C19Energy", "DirectVerif.Lemmas.C19Term", "DirectVerif.Lemmas.C19Batch",
                      "DirectVerif.Lemmas.C19Sites", "DirectVerif.Lemmas.C19Unnorm", "DirectVerif.Lemmas.C19Stop",
                      "DirectVerif.Lemmas.C19State", "DirectVerif.Lemmas.C19StopQ"]
TRUSTED = [
    "Lean 4.33 kernel + Mathlib; axioms ⊆ {propext, Classical.choice, Quot.sound}",
    "harness/translate/recipes/c19.py (Python AST -> Plan; pattern rules for expand/reduce/mask/forward/backward, inlining) and "
    "recipes/c19_state.py (scanners for state writes, in-place operations, exits, control flow; reachability through self.<method> "
    "and module-level calls — sub-modules and the injected operators are outside the scan)",
    "hypotheses of the theorems: backward = adjoint(forward) (normalised fft2/ifft2: C01), reduce = adjoint(expand) (C02), "
    "mask self-adjoint idempotent (C03), lambda real > 0",
    "the model's dense-matrix realisation of the operators (Problem.ops) — validated by the exact correspondence",
    "torch elementwise float64 arithmetic is exact on the dyadic probe set; CG iterates compared under 1e-7 relative",
    "dc_history_independent reads the translated write table as the complete list of effects of a call (syntactic scan)",
    "the harness-side float64 FFT pair (torch.fft, same centring / normalisation conventions) used where the repo's fft2 rejects float64",
]
ASSUMPTIONS = [
    "exact arithmetic in the theorems; float32/float64 rounding only checked by the oracle (1e-4 / 2e-3 relative in float32, 1e-10 / 1e-7 in float64)",
    "the batch stopping statistic is decided through a rational enclosure of the square roots (width 1e-20); inputs inside the "
    "enclosure are reported as borderline and skipped (none met)",
    "sampling masks are boolean where the engines negate them with `~` (property C04)",
    "judged inputs keep |<r, B p>|^2 inside the float32 range (log-normal map magnitudes sigma <= 1.5); beyond it see the float-range note",
    "call histories re-use k-space tensors with another mask only on the two anchored blocks (they mask the data themselves); the "
    "sites get their argument buffers refilled / re-masked in place so that `masked_kspace` stays consistent with its mask",
]
RULE = ("correspondence: dense operator matrices (dyadic unitary incl. Hadamard/phase-permutation products, un-normalised "
        "integer pair, arbitrary non-adjoint pair) on n = H*W in {1,2,3,4,6,8,16} pixels, 1-3 coils (30% of the cases: the coil "
        "ladder 1..8, 9, 12, 16, 17, 20, 33 on 1-4 pixels), block in train or eval mode, Gaussian-integer data, "
        "masks empty/full/random (shared or per coil), scaling None or dyadic; exact string equality for loglik/_A_star_op/_A_star_A_op/B_op, "
        "also along call histories of 3-5 calls on one persistent MRILogLikelihood / ConjGrad instance re-using the same tensor objects; "
        "1e-7 relative for cg/forward after 0-3 passes with all four update types and tol in {0, positive}; batches of 2-3 samples "
        "through cgBatch; exact equality for the site forms reachable on the real modules (soft DC of the two VarNet blocks "
        "with a zero regulariser, _forward/_backward_operator of five classes, engine hard DC). non-trivial = "
        "n >= 2 and a mask that is neither trivial for the op nor data all zero (loglik: any case with n >= 2; history: any call after the first); distinct = "
        "distinct protocol line. oracle: one case = one random problem with the real fft2/ifft2 (loglik, cg, cgbatch, cgbudget = "
        "ill-conditioned system under a shipped iteration budget), one call history on a persistent block (float32 and float64), "
        "or one real module (12 site checks incl. ConjGradNet; tiny networks, recording operators, every data-consistency evaluation "
        "compared with autograd / dense solve) — plain, over the coil ladder in train and eval mode, and over a call history on "
        "persistent module instances")

DT = torch.float64
# coil counts: everything up to 8, then around the multiples of 8 and beyond 32 (chunked / vectorised coil loops)
COIL_LADDER = [1, 2, 3, 4, 5, 6, 7, 8, 9, 12, 16, 17, 20, 33]


def _set_mode(blk, mode: str):
    """`nn.Module.training` of the block under test: the engines call the blocks in train AND in eval mode"""
    return blk.eval() if mode == "eval" else blk.train()


# ====================================================================================================
# dense operator matrices with Gaussian-integer entries over a power-of-two denominator
def _phase_perm(rng, n):
    p = list(range(n))
    rng.shuffle(p)
    m = np.zeros((n, n), dtype=complex)
    for i in range(n):
        m[i, p[i]] = 1j ** rng.randrange(4)
    return m, 1


_U2 = (np.array([[1 + 1j, 1 - 1j], [1 - 1j, 1 + 1j]]), 2)
_H2 = np.array([[1, 1], [1, -1]], dtype=complex)
_H4 = (np.kron(_H2, _H2), 2)


def _unitary(rng, n):
    """(integer Gaussian matrix, power-of-two denominator) with matrix/den unitary"""
    if n == 1:
        return np.array([[1j ** rng.randrange(4)]]), 1
    if n % 4 == 0 and rng.random() < 0.6:
        a, da = _H4
        b, db = _unitary(rng, n // 4)
        base, den = np.kron(a, b), da * db
    elif n % 2 == 0 and rng.random() < 0.8:
        a, da = _U2
        b, db = _unitary(rng, n // 2)
        base, den = np.kron(a, b), da * db
    else:
        return _phase_perm(rng, n)
    l, _ = _phase_perm(rng, n)
    r, _ = _phase_perm(rng, n)
    return l @ base @ r, den


def _gauss(rng, shape, lo=-3, hi=3, p_zero=0.15):
    a = np.zeros(shape, dtype=complex)
    for idx in np.ndindex(*shape):
        if rng.random() >= p_zero:
            a[idx] = rng.randint(lo, hi) + 1j * rng.randint(lo, hi)
    return a


def _cints(a) -> list[int]:
    out = []
    for v in np.asarray(a).reshape(-1):
        re, im = float(v.real), float(v.imag)
        assert re == int(re) and im == int(im)
        out += [int(re), int(im)]
    return out


def _to_real(a: np.ndarray, dtype=DT) -> torch.Tensor:
    return torch.from_numpy(np.stack([a.real, a.imag], axis=-1)).to(dtype)


def _matop(mat: np.ndarray, dtype=DT):
    mc = torch.from_numpy(mat).to(torch.complex128 if dtype == torch.float64 else torch.complex64)

    def op(data, dim=(2, 3)):
        if tuple(dim) != (2, 3):
            raise ValueError(f"unexpected dim {dim}")
        n_, c_, h_, w_, two = data.shape
        v = torch.view_as_complex(data.contiguous()).reshape(n_, c_, h_ * w_)
        out = torch.einsum("ij,ncj->nci", mc, v)
        return torch.view_as_real(out.reshape(n_, c_, h_, w_).contiguous())

    return op


_HW = [(1, 1), (1, 2), (2, 1), (1, 3), (2, 2), (1, 4), (2, 3), (2, 4), (4, 2), (4, 4)]


class Prob:
    """one tiny dense problem, both as protocol groups and as tensors for the real blocks"""

    def __init__(self, rng, max_n=16, coils=(1, 2, 3), ladder=0.0):
        self.mode = None
        if rng.random() < ladder:            # many coils on a tiny image (1-4 pixels)
            max_n, coils = min(max_n, 4), COIL_LADDER
        hw = [s for s in _HW if s[0] * s[1] <= max_n]
        self.h, self.w = rng.choice(hw)
        self.n = self.h * self.w
        self.c = rng.choice(coils)
        self.nn_mode = rng.choice(["train", "eval"])
        r = rng.random()
        if r < 0.6:
            self.mode = "unitary"
            f, d = _unitary(rng, self.n)
            self.F, self.fden, self.B, self.bden = f, d, f.conj().T, d
        elif r < 0.8:
            self.mode = "unnormalised"
            f, d = _unitary(rng, self.n)
            self.F, self.fden, self.B, self.bden = f, 1, f.conj().T, d * d
        else:
            self.mode = "arbitrary"
            self.F, self.fden = _gauss(rng, (self.n, self.n), -2, 2, 0.3), rng.choice([1, 2])
            self.B, self.bden = _gauss(rng, (self.n, self.n), -2, 2, 0.3), rng.choice([1, 2])
        self.S = _gauss(rng, (self.c, self.n))
        mk = rng.random()
        self.mask_per_coil = rng.random() < 0.2
        m_len = self.c * self.n if self.mask_per_coil else self.n
        if mk < 0.15:
            self.mask_kind, self.mask = "empty", [0] * m_len
        elif mk < 0.3:
            self.mask_kind, self.mask = "full", [1] * m_len
        else:
            self.mask_kind, self.mask = "random", [rng.randrange(2) for _ in range(m_len)]
        self.mask_dtype = rng.choice(["bool", "float", "int"])

    def groups(self):
        return [_cints(self.F), [self.fden], _cints(self.B), [self.bden], _cints(self.S), self.mask]

    # tensors
    def ops(self, dtype=DT):
        return _matop(self.F / self.fden, dtype), _matop(self.B / self.bden, dtype)

    def sens(self, dtype=DT):
        return _to_real(self.S.reshape(1, self.c, self.h, self.w), dtype)

    def mask_t(self):
        shape = (1, self.c if self.mask_per_coil else 1, self.h, self.w, 1)
        m = torch.tensor(self.mask).reshape(shape)
        return {"bool": m.bool(), "float": m.to(DT), "int": m.long()}[self.mask_dtype]

    def image(self, a, dtype=DT):       # (n,) complex -> (1, H, W, 2)
        return _to_real(np.asarray(a).reshape(1, self.h, self.w), dtype)

    def kspace(self, a, dtype=DT):      # (c, n) complex -> (1, C, H, W, 2)
        return _to_real(np.asarray(a).reshape(1, -1, self.h, self.w), dtype)


def _frac_answer(vals) -> str:
    fr = [Fraction(float(v)) for v in vals]
    d = 1
    for f in fr:
        d = d * f.denominator // math.gcd(d, f.denominator)
    return "ok " + str(d) + " | " + " ".join(str(int(f * d)) for f in fr)


def _guard(fn):
    def run():
        try:
            return fn()
        except AssertionError:
            return "err AssertionError"
        except RuntimeError:
            return "err ShapeError"
    return run


def _dyadic(rng, lo_exp=-3, hi_exp=2):
    num = rng.choice([1, 1, 3, 5])
    e = rng.randint(lo_exp, hi_exp)
    return (num * 2 ** e, 1) if e >= 0 else (num, 2 ** (-e))


# ====================================================================================================
def correspondence(ctx: Ctx):
    from direct.nn.conjgradnet.conjgrad import ConjGrad
    from direct.nn.rim.rim import MRILogLikelihood

    rng = ctx.rng
    # ---- MRILogLikelihood.forward (exact)
    for i in range(ctx.budget(260, 2500)):
        p = Prob(rng, ladder=0.3)
        fop, bop = p.ops()
        x = _gauss(rng, (p.n,), -4, 4, 0.1)
        y = _gauss(rng, (p.c, p.n), -4, 4, 0.1)
        consistent = rng.random() < 0.1
        malformed = None
        r = rng.random()
        if r < 0.04:
            malformed = "complex3"
        elif r < 0.08 and p.c >= 2:
            malformed = "coils"
        if rng.random() < 0.5:
            sn, sd = 1, 1
            scaling = None
        else:
            sn, sd = _dyadic(rng)
            scaling = torch.tensor([sn / sd], dtype=DT)
        xc, cy = 2, p.c
        img = p.image(x).permute(0, 3, 1, 2).contiguous()            # (1, 2, H, W)
        xg = [int(v) for v in img.reshape(-1).tolist()]
        if malformed == "complex3":
            xc = 3
            img = torch.cat([img, img[:, :1]], dim=1)
            xg = xg + xg[: p.n]
        if malformed == "coils":
            cy = p.c + 1
            y = _gauss(rng, (cy, p.n), -4, 4, 0.1)
        ksp = p.kspace(y)
        if consistent and malformed is None:                           # y := F E x (exactly representable)
            ksp = fop(torch.view_as_real(torch.view_as_complex(p.sens()) * torch.view_as_complex(p.image(x)).unsqueeze(1)))
            ok_int = bool(torch.equal(ksp, ksp.round()))
            if not ok_int:
                ksp = p.kspace(y)
                consistent = False
        yg = [int(v) for v in ksp.reshape(-1).tolist()]
        ll = _set_mode(MRILogLikelihood(fop, bop), p.nn_mode)
        S, m = p.sens(), p.mask_t()

        def impl(ll=ll, img=img, ksp=ksp, S=S, m=m, scaling=scaling):
            out = ll(img, ksp, S, m, scaling)
            return _frac_answer(out.reshape(-1).tolist())

        bucket = f"loglik/{p.mode}/mask={p.mask_kind}" + (f"/malformed={malformed}" if malformed else "") + \
                 ("/consistent" if consistent else "") + f"/{p.nn_mode}" + ("/coils>8" if p.c > 8 else "")
        yield {"line": line("loglik", [p.n, p.c, cy, xc], *p.groups(), xg, yg, [sn, sd]), "impl": _guard(impl),
               "nontrivial": p.n >= 2, "bucket": bucket}
    # ---- ConjGrad._A_star_op / _A_star_A_op / B_op (exact)
    for i in range(ctx.budget(150, 1500)):
        p = Prob(rng, ladder=0.3)
        fop, bop = p.ops()
        cgm = _set_mode(ConjGrad(fop, bop), p.nn_mode)
        S, m = p.sens(), p.mask_t()
        which = rng.choice(["astar", "astara", "bop"])
        if which == "astar":
            y = _gauss(rng, (p.c, p.n), -4, 4, 0.1)
            ksp = p.kspace(y)
            yield {"line": line("astar", [p.n, p.c], *p.groups(), _cints(y)),
                   "impl": _guard(lambda cgm=cgm, ksp=ksp, S=S, m=m: _frac_answer(cgm._A_star_op(ksp, S, m).reshape(-1).tolist())),
                   "nontrivial": p.n >= 2, "bucket": f"astar/{p.mode}/mask={p.mask_kind}/{p.nn_mode}" + ("/coils>8" if p.c > 8 else "")}
        elif which == "astara":
            x = _gauss(rng, (p.n,), -4, 4, 0.1)
            img = p.image(x)
            xc, xg = 2, _cints(x)
            if rng.random() < 0.08:        # malformed: trailing axis of size 3
                xc = 3
                img = torch.cat([img, img[..., :1]], dim=-1)
                xg = [int(v) for v in img.reshape(-1).tolist()]
            yield {"line": line("astara", [p.n, p.c, xc], *p.groups(), xg),
                   "impl": _guard(lambda cgm=cgm, img=img, S=S, m=m: _frac_answer(cgm._A_star_A_op(img, S, m).reshape(-1).tolist())),
                   "nontrivial": p.n >= 2, "bucket": f"astara/{p.mode}/mask={p.mask_kind}/{p.nn_mode}" + ("/malformed=complex3" if xc == 3 else "") + ("/coils>8" if p.c > 8 else "")}
        else:
            x = _gauss(rng, (p.n,), -4, 4, 0.1)
            img = p.image(x)
            ln, ld = _dyadic(rng)
            lam = torch.tensor([ln / ld], dtype=DT)
            yield {"line": line("bop", [p.n, p.c], *p.groups(), _cints(x), [ln, ld]),
                   "impl": _guard(lambda cgm=cgm, img=img, S=S, m=m, lam=lam: _frac_answer(cgm.B_op(img, S, m, lam).reshape(-1).tolist())),
                   "nontrivial": p.n >= 2, "bucket": f"bop/{p.mode}/mask={p.mask_kind}/{p.nn_mode}" + ("/coils>8" if p.c > 8 else "")}

    # ---- phase 3: call histories on ONE persistent instance of each block (exact).  The model is a pure function of the
    #      current arguments, so every call of the history must answer like a first call.  The k-space / mask / map tensor
    #      OBJECTS are kept across the calls: re-used untouched with another mask or scaling, refilled in place, replaced
    #      by an equal copy.  (`core.correspond` runs the thunks in this order.)
    for i in range(ctx.budget(30, 300)):
        p = Prob(rng, ladder=0.25)
        fop, bop = p.ops()
        ll, cgm = _set_mode(MRILogLikelihood(fop, bop), p.nn_mode), _set_mode(ConjGrad(fop, bop), p.nn_mode)
        st = {"x": _gauss(rng, (p.n,), -4, 4, 0.1), "y": _gauss(rng, (p.c, p.n), -4, 4, 0.1), "mask": list(p.mask), "s": (1, 1)}
        T_ = {"ksp": p.kspace(st["y"]), "S": p.sens(), "m": p.mask_t()}
        m_shape, m_dtype = tuple(T_["m"].shape), T_["m"].dtype
        for step in range(rng.choice([3, 4, 5])):
            how = "first" if step == 0 else rng.choice(["same-y/new-mask", "same-y/new-mask", "same-y/new-scaling", "y-refilled-in-place",
                                                        "equal-y/new-mask", "mask-refilled-in-place", "same-everything/new-x",
                                                        "same-y/empty-mask", "same-y/full-mask"])
            todo = []                                            # mutations of the persistent tensors, done when the thunk runs
            if how in ("same-y/new-mask", "equal-y/new-mask", "mask-refilled-in-place", "same-y/empty-mask", "same-y/full-mask"):
                st["mask"] = ([0] * len(st["mask"]) if how.endswith("empty-mask") else [1] * len(st["mask"]) if how.endswith("full-mask")
                              else [rng.randrange(2) for _ in st["mask"]])
                newm = torch.tensor(st["mask"]).reshape(m_shape).to(m_dtype)
                if how == "mask-refilled-in-place":
                    todo.append(lambda T_=T_, newm=newm: T_["m"].copy_(newm))
                else:
                    todo.append(lambda T_=T_, newm=newm: T_.__setitem__("m", newm))
                if how == "equal-y/new-mask":
                    todo.append(lambda T_=T_: T_.__setitem__("ksp", T_["ksp"].clone()))
            elif how == "same-y/new-scaling":
                st["s"] = _dyadic(rng)
            elif how == "y-refilled-in-place":
                st["y"] = _gauss(rng, (p.c, p.n), -4, 4, 0.1)
                newy = p.kspace(st["y"])
                todo.append(lambda T_=T_, newy=newy: T_["ksp"].copy_(newy))
            elif how == "same-everything/new-x":
                st["x"] = _gauss(rng, (p.n,), -4, 4, 0.1)
            which = rng.choice(["loglik", "loglik", "loglik", "astar", "astara", "bop"])
            groups = [_cints(p.F), [p.fden], _cints(p.B), [p.bden], _cints(p.S), list(st["mask"])]
            x, y, (sn, sd) = st["x"], st["y"], st["s"]
            if which == "loglik":
                img = p.image(x).permute(0, 3, 1, 2).contiguous()
                xg = [int(v) for v in img.reshape(-1).tolist()]
                scaling = None if (sn, sd) == (1, 1) and rng.random() < 0.5 else torch.tensor([sn / sd], dtype=DT)
                ln_ = line("loglik", [p.n, p.c, p.c, 2], *groups, xg, _cints(y), [sn, sd])
                call = lambda ll=ll, img=img, T_=T_, scaling=scaling: ll(img, T_["ksp"], T_["S"], T_["m"], scaling)
            elif which == "astar":
                ln_ = line("astar", [p.n, p.c], *groups, _cints(y))
                call = lambda cgm=cgm, T_=T_: cgm._A_star_op(T_["ksp"], T_["S"], T_["m"])
            elif which == "astara":
                img = p.image(x)
                ln_ = line("astara", [p.n, p.c, 2], *groups, _cints(x))
                call = lambda cgm=cgm, img=img, T_=T_: cgm._A_star_A_op(img, T_["S"], T_["m"])
            else:
                img = p.image(x)
                lam_n, lam_d = _dyadic(rng)
                lam = torch.tensor([lam_n / lam_d], dtype=DT)
                ln_ = line("bop", [p.n, p.c], *groups, _cints(x), [lam_n, lam_d])
                call = lambda cgm=cgm, img=img, T_=T_, lam=lam: cgm.B_op(img, T_["S"], T_["m"], lam)

            def impl(todo=todo, call=call):
                for f in todo:
                    f()
                with torch.no_grad():
                    return _frac_answer(call().reshape(-1).tolist())

            yield {"line": ln_, "impl": _guard(impl), "key": ("hist", i, step, ln_), "nontrivial": p.n >= 2 and step >= 1,
                   "bucket": f"history/{which}/step={min(step, 3)}{'+' if step > 3 else ''}/{how}/{p.nn_mode}" + ("/coils>8" if p.c > 8 else "")}

    # ---- phase 2: the same physics inside the unrolled models / engines (exact, dense operators injected)
    import types as _types

    from direct.nn.crossdomain.crossdomain import CrossDomainNetwork
    from direct.nn.iterdualnet.iterdualnet import IterDualNet
    from direct.nn.jointicnet.jointicnet import JointICNet
    from direct.nn.lpd.lpd import LPDNet
    from direct.nn.mri_models import MRIModelEngine
    from direct.nn.recurrentvarnet.recurrentvarnet import RecurrentVarNetBlock
    from direct.nn.varnet.varnet import EndToEndVarNetBlock
    from direct.nn.vsharp.vsharp_engine import VSharpNetEngine
    from props.c19_sites import _ZeroImage, _ZeroRecurrent

    pair_classes = [JointICNet, IterDualNet, LPDNet, CrossDomainNetwork, MRIModelEngine]
    for i in range(ctx.budget(120, 1200)):
        p = Prob(rng, ladder=0.25)
        p.mask_dtype = "bool"                       # the engines negate the mask with `~`
        fop, bop = p.ops()
        S, m = p.sens(), p.mask_t()
        me = _types.SimpleNamespace(forward_operator=fop, backward_operator=bop, _coil_dim=1, _spatial_dims=(2, 3), _complex_dim=-1,
                                    compute_sensitivity_map=lambda s_: s_, training=p.nn_mode == "train")
        which = rng.choice(["softdc-varnet", "softdc-rvn", "aop", "astar", "maskc", "harddc"])
        x = _gauss(rng, (p.n,), -4, 4, 0.1)
        k = _gauss(rng, (p.c, p.n), -4, 4, 0.1)
        y = _gauss(rng, (p.c, p.n), -4, 4, 0.1)
        img, ksp, ysp = p.image(x), p.kspace(k), p.kspace(y)
        if which.startswith("softdc"):
            if which == "softdc-varnet":
                blk = _set_mode(EndToEndVarNetBlock(fop, bop, _ZeroImage()).double(), p.nn_mode)
                run = lambda blk=blk, ksp=ksp, ysp=ysp, m=m, S=S: ksp - blk(ksp, ysp, m, S)          # lr = 1: k − out = M(k − y)
            else:
                blk = RecurrentVarNetBlock(fop, bop, 2, 4, 1).double()
                blk.regularizer = _ZeroRecurrent()
                _set_mode(blk, p.nn_mode)
                run = lambda blk=blk, ksp=ksp, ysp=ysp, m=m, S=S: ksp - blk(ksp, ysp, m, S, None)[0]
            ln_ = line("site", [p.n, p.c, 0], *p.groups(), _cints(k), _cints(y), [])
        elif which == "aop":
            cls = rng.choice(pair_classes)
            which += "/" + cls.__name__
            run = lambda cls=cls, me=me, img=img, m=m, S=S: cls._forward_operator(me, image=img, sampling_mask=m, sensitivity_map=S)
            ln_ = line("site", [p.n, p.c, 3], *p.groups(), _cints(x), [], [])
        elif which == "astar":
            cls = rng.choice(pair_classes)
            which += "/" + cls.__name__
            run = lambda cls=cls, me=me, ksp=ksp, m=m, S=S: cls._backward_operator(me, kspace=ksp, sampling_mask=m, sensitivity_map=S)
            ln_ = line("site", [p.n, p.c, 4], *p.groups(), _cints(k), [], [])
        elif which == "maskc":
            run = lambda me=me, img=img, m=m, S=S: MRIModelEngine._forward_operator(me, img, S, ~m)
            ln_ = line("site", [p.n, p.c, 10], *p.groups(), _cints(x), [], [])
        else:
            me.model = lambda masked_kspace, sampling_mask, sensitivity_map, img=img: [img]
            data = {"masked_kspace": ysp, "sampling_mask": m, "sensitivity_map": S}
            run = lambda me=me, data=data: VSharpNetEngine.forward_function(me, data)[1]
            ln_ = line("site", [p.n, p.c, 7], *p.groups(), _cints(x), _cints(y), [])

        def impl(run=run):
            with torch.no_grad():
                return _frac_answer(run().reshape(-1).tolist())

        yield {"line": ln_, "impl": _guard(impl), "nontrivial": p.n >= 2 and p.mask_kind == "random",
               "bucket": f"site/{which}/mask={p.mask_kind}/{p.nn_mode}" + ("/coils>8" if p.c > 8 else "")}


_UPD = ["FR", "PRP", "DY", "BAN"]
_LAMBDAS = [(1, 20), (1, 16), (1, 10), (1, 4), (1, 2), (1, 1), (2, 1), (3, 1), (5, 1), (10, 1)]
_TOLS = [(0, 1), (0, 1), (0, 1), (1, 1000000), (1, 8), (1, 2), (1, 1), (3, 1), (10, 1)]


def _parse_answer(ans: str):
    if not ans.startswith("ok "):
        return None
    d, vals = ans[3:].split("|")
    d = int(d)
    return [int(v) / d for v in vals.split()]


def custom_correspondence(ctx: Ctx):
    """cg / forward: the model's exact rational iterate vs the real block in float64 (1e-7 relative)."""
    from direct.nn.conjgradnet.conjgrad import CGUpdateType, ConjGrad

    rng = ctx.rng
    cases = []
    for i in range(ctx.budget(260, 2500)):
        p = Prob(rng, max_n=8, coils=(1, 2) if rng.random() < 0.8 else (3,), ladder=0.2)
        fop, bop = p.ops()
        ut = rng.choice([0, 0, 1, 1, 2, 3])
        iters = rng.choice([0, 1, 1, 2, 2, 3]) if p.n <= 4 else rng.choice([0, 1, 2])
        ln, ld = rng.choice(_LAMBDAS)
        tn, td = rng.choice(_TOLS)
        y = _gauss(rng, (p.c, p.n), -3, 3, 0.1)
        z = _gauss(rng, (p.n,), -3, 3, 0.1)
        S, m = p.sens(), p.mask_t()
        lam = torch.tensor([ln / ld], dtype=DT)
        fwd = rng.random() < 0.4
        x0 = z if fwd else _gauss(rng, (p.n,), -3, 3, 0.3)

        def run(tol, ls=1.0, p=p, fop=fop, bop=bop, ut=ut, iters=iters, y=y, z=z, x0=x0, S=S, m=m, lam=lam, fwd=fwd):
            blk = _set_mode(ConjGrad(fop, bop, num_iters=iters, tol=tol, bk_update_type=CGUpdateType(_UPD[ut])), p.nn_mode)
            with torch.no_grad():
                if fwd:
                    out = blk(p.kspace(y), S, m, p.image(z), lam * ls)
                else:
                    out = blk.cg(p.image(x0), p.kspace(y), S, m, lam * ls, p.image(z))
            return [float(v) for v in out.reshape(-1).tolist()]

        if fwd:
            ln_ = line("forward", [p.n, p.c, iters, ut], *p.groups(), _cints(y), _cints(z), [ln, ld], [tn, td])
        else:
            ln_ = line("cg", [p.n, p.c, iters, ut], *p.groups(), _cints(x0), _cints(y), _cints(z), [ln, ld], [tn, td])
        cases.append({"line": ln_, "run": run, "tol": tn / td,
                      "nontrivial": p.n >= 2 and iters >= 1 and p.mask_kind != "empty",
                      "bucket": f"{'forward' if fwd else 'cg'}/{_UPD[ut]}/iters={iters}/mask={p.mask_kind}/{p.nn_mode}" +
                                ("/coils>8" if p.c > 8 else "")})
    # ---- batches: the stopping test couples the samples (batch mean); model = cgBatch + rational enclosure of the mean
    import copy

    for i in range(ctx.budget(60, 600)):
        p0 = Prob(rng, max_n=4, coils=(1, 2))
        if p0.mode == "arbitrary":
            p0.mode, p0.B, p0.bden = "unitary", p0.F.conj().T, p0.fden      # (non-adjoint pairs are covered above)
            if not np.allclose(p0.F @ p0.F.conj().T, p0.fden ** 2 * np.eye(p0.n)):
                f, d = _unitary(rng, p0.n)
                p0.F, p0.fden, p0.B, p0.bden = f, d, f.conj().T, d
        p0.mask_per_coil = False
        nb = rng.choice([2, 2, 3])
        probs = []
        for b_ in range(nb):
            q = copy.copy(p0)
            q.S = _gauss(rng, (q.c, q.n))
            q.mask = [rng.randrange(2) for _ in range(q.n)] if rng.random() < 0.8 else [1] * q.n
            probs.append(q)
        fop, bop = p0.ops()
        ut = rng.choice([0, 0, 1, 1, 2, 3])
        iters = rng.choice([1, 2, 3])
        ln, ld = rng.choice(_LAMBDAS)
        tn, td = rng.choice([(0, 1), (1, 2), (1, 1), (2, 1), (3, 1), (5, 1), (10, 1)])
        mag = [1, rng.choice([1, 3]), rng.choice([1, 6])][:nb]
        ys = [_gauss(rng, (q.c, q.n), -3 * a, 3 * a, 0.1) for q, a in zip(probs, mag)]
        zs = [_gauss(rng, (q.n,), -3 * a, 3 * a, 0.1) for q, a in zip(probs, mag)]
        x0s = [_gauss(rng, (q.n,), -3 * a, 3 * a, 0.3) for q, a in zip(probs, mag)]
        S = torch.cat([q.sens() for q in probs])
        m = torch.cat([torch.tensor(q.mask).reshape(1, 1, q.h, q.w, 1).bool() for q in probs])
        Y = torch.cat([q.kspace(v) for q, v in zip(probs, ys)])
        Z = torch.cat([q.image(v) for q, v in zip(probs, zs)])
        X0 = torch.cat([q.image(v) for q, v in zip(probs, x0s)])
        lam = torch.tensor([ln / ld], dtype=DT)

        def run(tol, ls=1.0, fop=fop, bop=bop, ut=ut, iters=iters, S=S, m=m, Y=Y, Z=Z, X0=X0, lam=lam):
            blk = ConjGrad(fop, bop, num_iters=iters, tol=tol, bk_update_type=CGUpdateType(_UPD[ut]))
            with torch.no_grad():
                out = blk.cg(X0, Y, S, m, lam * ls, Z)
            return [float(v) for v in out.reshape(-1).tolist()]

        groups = [_cints(p0.F), [p0.fden], _cints(p0.B), [p0.bden], [ln, ld], [tn, td]]
        for q, yv, zv, xv in zip(probs, ys, zs, x0s):
            groups += [_cints(q.S), q.mask, _cints(xv), _cints(yv), _cints(zv)]
        cases.append({"line": line("cgbatch", [p0.n, p0.c, nb, iters, ut], *groups), "run": run, "tol": tn / td,
                      "nontrivial": p0.n >= 2, "bucket": f"cgbatch/{_UPD[ut]}/B={nb}/iters={iters}"})
    model = core.run_driver(PROP, [c["line"] for c in cases])
    dis = []
    for c, ans in zip(cases, model):
        if ans.strip() == "err Borderline":
            ctx.notes.append("batch stopping statistic inside the rational enclosure, skipped: " + c["line"][:60])
            continue
        try:
            got = c["run"](c["tol"])
            impl_s = "ok"
        except Exception as e:  # noqa: BLE001
            got, impl_s = None, "err " + err_name(e)
        want = _parse_answer(ans)
        stopped = ""
        if got is not None and c["tol"] > 0:
            try:
                stopped = "/stopped-early" if c["run"](0.0) != got else ""
            except Exception:  # noqa: BLE001
                pass
        ctx.count(c["line"], c["nontrivial"], sample={"op": c["line"][:160], "impl": str(got)[:120], "model": ans[:120]},
                  bucket=c["bucket"] + stopped)
        ctx.traces += 1

        def close(a, b):
            if a is None or b is None or len(a) != len(b):
                return False
            scale = max(1.0, max((abs(v) for v in b), default=0.0))
            return all(abs(u - v) <= 1e-7 * scale for u, v in zip(a, b))

        if close(got, want):
            continue
        # a stopping decision within rounding of the threshold is not a disagreement
        if want is not None and c["tol"] > 0:
            alt = [c["run"](c["tol"] * (1 + s)) for s in (1e-9, -1e-9)]
            if any(close(a, want) for a in alt):
                ctx.notes.append("borderline stopping decision: " + c["line"][:80])
                continue
        # an input at which the real block itself is discontinuous (an exactly vanishing denominator is `0` in exact
        # arithmetic and `rounding noise` in floating point: non-SPD operator pairs, DY/BAN) cannot be compared
        if got is not None and want is not None:
            try:
                pert = c["run"](c["tol"], 1 + 1e-9)
                sc = max(1.0, max(abs(v) for v in want))
                if not all(abs(u - v) <= 1e-4 * sc for u, v in zip(pert, got)) or not all(math.isfinite(v) for v in got):
                    ctx.notes.append("float evaluation unstable at this input (guarded division), skipped: " + c["line"][:80])
                    ctx.hist["cg/unstable-input-skipped"] = ctx.hist.get("cg/unstable-input-skipped", 0) + 1
                    continue
            except Exception:  # noqa: BLE001
                pass
        dis.append({"line": c["line"], "impl": impl_s + " " + str(got), "model": ans, "key": c["bucket"]})
    return dis


# ====================================================================================================
# oracle on the real code with the real fft2 / ifft2
def _ops(centered: bool, normalized: bool):
    import direct.data.transforms as T

    return (functools.partial(T.fft2, centered=centered, normalized=normalized),
            functools.partial(T.ifft2, centered=centered, normalized=normalized))


def _make_mask(kind: str, shape, g):
    n_, c_, h_, w_ = shape
    if kind == "empty":
        return torch.zeros(n_, 1, h_, w_, 1, dtype=torch.bool)
    if kind == "full":
        return torch.ones(n_, 1, h_, w_, 1, dtype=torch.bool)
    if kind == "percoil":                   # a different pattern for every coil (and sample)
        return torch.rand(n_, c_, h_, w_, 1, generator=g) < 0.5
    if kind == "columns":
        cols = torch.rand(w_, generator=g) < 0.4
        cols[w_ // 2] = True
        return cols.reshape(1, 1, 1, w_, 1).expand(n_, 1, h_, w_, 1).clone()
    return torch.rand(n_, 1, h_, w_, 1, generator=g) < 0.5


def _loglik_case(prm: dict):
    """-> (list of (key, what) failures, info)"""
    import direct.data.transforms as T
    from direct.nn.rim.rim import MRILogLikelihood

    n_, c_, h_, w_ = prm["shape"]
    g = torch.Generator().manual_seed(prm["seed"])
    fop, bop = _ops(prm["centered"], prm["normalized"])
    sscale = prm.get("sens_scale", 1.0)
    S = torch.randn(n_, c_, h_, w_, 2, generator=g) * sscale
    x = torch.randn(n_, h_, w_, 2, generator=g)
    y = torch.randn(n_, c_, h_, w_, 2, generator=g)
    m = _make_mask(prm["mask"], (n_, c_, h_, w_), g)
    s = prm.get("scaling")
    blk = _set_mode(MRILogLikelihood(fop, bop), prm.get("mode", "train"))
    zero = torch.tensor([0.0])

    def A(img):
        return torch.where(m == 0, zero, fop(T.expand_operator(img, S, dim=1), dim=(2, 3)))

    fails = []
    xi = x.clone().requires_grad_(True)
    loss = 0.5 * ((A(xi) - y) ** 2).sum()          # un-masked data term, as in the property statement
    grad, = torch.autograd.grad(loss, xi)
    grad = grad.permute(0, 3, 1, 2)
    with torch.no_grad():
        st = None if s is None else (torch.tensor(s) if isinstance(s, list) else torch.tensor([s]))
        out = blk(x.permute(0, 3, 1, 2), torch.where(m == 0, zero, y) if prm.get("premask", True) else y, S, m, st)
    if isinstance(s, list):                     # per-sample `loglikelihood_scaling` of shape (N,)
        svec = torch.tensor(s).reshape(-1, 1, 1, 1)
        smax = max(abs(v) for v in s)
    else:
        svec = torch.tensor(1.0 if s is None else float(s))
        smax = 1.0 if s is None else abs(float(s))
    base = 1.0 if prm["normalized"] else 1.0 / (h_ * w_)
    factor = base * smax
    ref = grad * base * svec
    scale = float(ref.norm()) + factor * float(S.abs().max()) * math.sqrt(c_) * (float(y.norm()) + float(S.abs().max()) *
                                                                              math.sqrt(c_) * float(x.norm())) * 1e-2 + 1e-12
    err = float((out - ref).norm()) / scale
    if tuple(out.shape) != (n_, 2, h_, w_) or not err <= 1e-4:
        key = "loglik-gradient" if prm["normalized"] else "loglik-unnormalised-not-gradient-over-N"
        fails.append((key, f"MRILogLikelihood differs from {'(1/N)·' if not prm['normalized'] else ''}autograd gradient of "
                           f"1/2||M F E x - y||^2: relative error {err:.3g}"))
    # consistent data
    with torch.no_grad():
        y0 = A(x)
        out0 = blk(x.permute(0, 3, 1, 2), y0, S, m, st)
        scale0 = factor * float(S.abs().max()) * math.sqrt(c_) * float(y0.norm()) + 1e-12
    err0 = float(out0.norm()) / scale0
    if not err0 <= 1e-4:
        fails.append(("loglik-consistent-nonzero", f"MRILogLikelihood does not vanish on consistent data y = M F E x: "
                                                   f"||out|| / scale = {err0:.3g}"))
    if prm["mask"] == "empty" and float(out.abs().max()) != 0.0:
        fails.append(("loglik-empty-mask-nonzero", "MRILogLikelihood is not exactly zero for an empty mask"))
    return fails, {"rel_err": err, "consistent": err0}


def _dense_A(fop, S, m, shape):
    """complex (C*H*W, H*W) matrix of x -> M F E x built by applying the real operators to basis images"""
    import direct.data.transforms as T

    n_, c_, h_, w_ = shape
    zero = torch.tensor([0.0])
    eye = torch.zeros(h_ * w_, h_, w_, 2)
    for j in range(h_ * w_):
        eye[j, j // w_, j % w_, 0] = 1.0
    mats = []
    for b_ in range(n_):
        k = torch.where(m[b_:b_ + 1] == 0, zero, fop(T.expand_operator(eye, S[b_:b_ + 1], dim=1), dim=(2, 3)))
        mats.append(torch.view_as_complex(k.contiguous()).reshape(h_ * w_, c_ * h_ * w_).T.to(torch.complex128))
    return mats


def _cg_case(prm: dict):
    from direct.nn.conjgradnet.conjgrad import CGUpdateType, ConjGrad

    n_, c_, h_, w_ = prm["shape"]
    g = torch.Generator().manual_seed(prm["seed"])
    normalized = prm.get("normalized", True)
    fop, bop = _ops(prm["centered"], normalized)
    cfac = 1.0 if normalized else 1.0 / (h_ * w_)      # backward = cfac · adjoint(forward)
    S = torch.randn(n_, c_, h_, w_, 2, generator=g) * prm.get("sens_scale", 1.0)
    y = torch.randn(n_, c_, h_, w_, 2, generator=g)
    z = torch.randn(n_, h_, w_, 2, generator=g)
    x0 = torch.randn(n_, h_, w_, 2, generator=g)
    m = _make_mask(prm["mask"], (n_, c_, h_, w_), g)
    lam = torch.tensor([float(prm["lam"])])
    upd = prm["update"]
    As = _dense_A(fop, S, m, (n_, c_, h_, w_))
    npx = h_ * w_
    yc = torch.view_as_complex(y.contiguous()).reshape(n_, c_ * npx).to(torch.complex128)
    zc = torch.view_as_complex(z.contiguous()).reshape(n_, npx).to(torch.complex128)
    lam64 = float(lam)
    sol = []
    for b_ in range(n_):
        A = As[b_]
        B = cfac * (A.conj().T @ A) + lam64 * torch.eye(npx, dtype=torch.complex128)
        sol.append(torch.linalg.solve(B, cfac * (A.conj().T @ yc[b_]) + lam64 * zc[b_]))
    sol = torch.stack(sol)

    def objective(x):          # float64, per batch element summed
        xc = torch.view_as_complex(x.contiguous()).reshape(n_, npx).to(torch.complex128)
        tot = 0.0
        for b_ in range(n_):
            # M y: rows of A that are masked are zero, so compare on the support only
            Ax = As[b_] @ xc[b_]
            mask_rows = torch.view_as_complex(torch.where(m[b_:b_ + 1] == 0, torch.tensor([0.0]), y[b_:b_ + 1]).contiguous()
                                              ).reshape(-1).to(torch.complex128)
            tot += 0.5 * cfac * float((Ax - mask_rows).abs().pow(2).sum()) + 0.5 * lam64 * float((xc[b_] - zc[b_]).abs().pow(2).sum())
        return tot

    fails = []
    info = {}
    # (1) solution of the normal equations
    mode = prm.get("mode", "train")
    full = _set_mode(ConjGrad(fop, bop, num_iters=prm.get("iters", 3 * npx + 10), tol=prm.get("tol", 1e-7), bk_update_type=CGUpdateType(upd)), mode)
    with torch.no_grad():
        xs = full(y, S, m, z, lam)
    xsc = torch.view_as_complex(xs.contiguous()).reshape(n_, npx).to(torch.complex128)
    rel = float((xsc - sol).norm()) / (float(sol.norm()) + 1e-12)
    info["rel_to_dense"] = rel
    if tuple(xs.shape) != (n_, h_, w_, 2) or not rel <= 2e-3:
        fails.append((f"cg-solution-{upd}", f"ConjGrad({upd}) differs from the dense solve of (A^H A + λ) x = A^H y + λ z: "
                                            f"relative error {rel:.3g} (λ = {lam64})"))
    # (2) objective non-increasing over iteration counts, never worse than the start; every iterate is the textbook
    #     conjugate-gradient iterate (float64, dense) of the normal equations
    e_prev = e0 = objective(x0)
    slack = 1e-4 * (abs(e0) + 1.0)
    kmax = prm.get("kmax", min(npx, 8))
    x0c = torch.view_as_complex(x0.contiguous()).reshape(n_, npx).to(torch.complex128)
    ref = []
    live_all = []
    for b_ in range(n_):
        live = []
        live_all.append(live)
        A = As[b_]
        B = cfac * (A.conj().T @ A) + lam64 * torch.eye(npx, dtype=torch.complex128)
        xr = x0c[b_].clone()
        r = cfac * (A.conj().T @ yc[b_]) + lam64 * zc[b_] - B @ xr
        pdir = r.clone()
        its = []
        rr0 = float(torch.vdot(r, r).real)
        for k in range(kmax):
            rr = torch.vdot(r, r)
            Bp = B @ pdir
            den = torch.vdot(pdir, Bp)
            a = rr / den if abs(den) > 0 else 0.0
            xr = xr + a * pdir
            r2 = r - a * Bp
            beta = torch.vdot(r2, r2) / rr if abs(rr) > 0 else 0.0
            # comparable pass: it neither starts from nor lands on a residual that is rounding noise (the exact landing on the
            # solution after as many passes as B has distinct eigenvalues is not reproduced in float32)
            live.append(float(rr.real) > 1e-6 * rr0 and float(torch.vdot(r2, r2).real) > 1e-6 * rr0)
            pdir = r2 + beta * pdir
            r = r2
            its.append(xr.clone())
        ref.append(its)
    worst_it = 0.0
    for k in range(1, kmax + 1):
        blk = _set_mode(ConjGrad(fop, bop, num_iters=k, tol=0.0, bk_update_type=CGUpdateType(upd)), mode)
        with torch.no_grad():
            xk = blk.cg(x0, y, S, m, lam, z)
        xkc = torch.view_as_complex(xk.contiguous()).reshape(n_, npx).to(torch.complex128)
        refk = torch.stack([ref[b_][k - 1] for b_ in range(n_)])
        dev = float((xkc - refk).norm()) / (float(refk.norm()) + float(x0c.norm()) + 1e-12)
        worst_it = max(worst_it, dev)
        # (once the residual of a sample is rounding noise — few distinct eigenvalues: converged early — further passes divide
        #  noise by noise in the block and in the reference alike and the iterates are no longer comparable)
        if k <= 5 and all(lv[k - 1] for lv in live_all) and not dev <= 1e-2:
            fails.append((f"cg-iterate-{upd}", f"iterate after {k} passes differs from the conjugate-gradient iterate of the "
                                               f"normal equations: relative deviation {dev:.3g}"))
            break
        ek = objective(xk)
        if not ek <= e_prev + slack:
            fails.append((f"cg-energy-increase-{upd}", f"objective increases from {e_prev:.6g} ({k - 1} passes) to {ek:.6g} "
                                                       f"({k} passes)"))
            break
        if not ek <= e0 + slack:
            fails.append((f"cg-worse-than-start-{upd}", f"objective {ek:.6g} after {k} passes exceeds the start {e0:.6g}"))
            break
        e_prev = ek
    info["worst_iterate_dev"] = worst_it
    # (3) the default block (num_iters=10, tol=1e-6) from its own start z
    dflt = _set_mode(ConjGrad(fop, bop, bk_update_type=CGUpdateType(upd)), mode)
    with torch.no_grad():
        xd = dflt(y, S, m, z, lam)
    ez, ed = objective(z), objective(xd)
    if not ed <= ez + 1e-4 * (abs(ez) + 1.0):
        fails.append((f"cg-worse-than-start-{upd}", f"default ConjGrad.forward: objective {ed:.6g} exceeds the start {ez:.6g}"))
    # (3b) fixed point: started at a solution (z with A^H A z = A^H y makes z itself the solution) the block stays there
    if n_ == 1:
        zfix = torch.linalg.pinv(As[0]) @ yc[0]
        zf = torch.view_as_real(zfix.reshape(1, h_, w_).to(torch.complex64)).contiguous()
        one = ConjGrad(fop, bop, num_iters=1, tol=0.0, bk_update_type=CGUpdateType(upd))
        with torch.no_grad():
            xf = one(y, S, m, zf, lam)

        def objective_z(x, zc_):
            xc = torch.view_as_complex(x.contiguous()).reshape(npx).to(torch.complex128)
            my = torch.view_as_complex(torch.where(m == 0, torch.tensor([0.0]), y).contiguous()).reshape(-1).to(torch.complex128)
            return 0.5 * cfac * float((As[0] @ xc - my).abs().pow(2).sum()) + 0.5 * lam64 * float((xc - zc_).abs().pow(2).sum())

        zfc = torch.view_as_complex(zf).reshape(npx).to(torch.complex128)
        e_start, e_out = objective_z(zf, zfc), objective_z(xf, zfc)
        drift = float((torch.view_as_complex(xf.contiguous()).reshape(npx).to(torch.complex128) - zfc).norm()) / \
            (float(zfc.norm()) + 1e-12)
        info["fixed_point_drift"] = drift
        if not (e_out <= e_start + 1e-4 * (abs(e_start) + 1.0) and drift <= 1e-3):
            fails.append((f"cg-fixed-point-{upd}", f"started at the solution of the normal equations the block moves away: "
                                                   f"objective {e_start:.6g} -> {e_out:.6g}, relative drift {drift:.3g}"))
    # (4) "to solver tolerance": when the loop is left through the `tol` test, the TRUE residual of the returned x
    #     passes that test (mean over the batch and the (re, im) pair of sqrt|<r, r>|)
    def stat(x):
        xc = torch.view_as_complex(x.contiguous()).reshape(n_, npx).to(torch.complex128)
        tot = 0.0
        for b_ in range(n_):
            A = As[b_]
            r = cfac * (A.conj().T @ yc[b_]) + lam64 * zc[b_] - (cfac * (A.conj().T @ (A @ xc[b_])) + lam64 * xc[b_])
            tot += math.sqrt(float(r.abs().pow(2).sum()))
        return tot / (2 * n_)

    s0 = stat(x0)
    if s0 > 1e-6:
        tol_t = prm.get("tol_frac", 0.05) * s0
        blk = ConjGrad(fop, bop, num_iters=4 * npx + 20, tol=tol_t, bk_update_type=CGUpdateType(upd))
        with torch.no_grad():
            xt = blk.cg(x0, y, S, m, lam, z)
        st = stat(xt)
        info["tol_ratio"] = st / tol_t
        if not st <= tol_t * (1 + 1e-3) + 1e-5 * s0:
            fails.append((f"cg-tolerance-{upd}", f"cg stopped with tol = {tol_t:.4g} but the residual statistic of the returned x "
                                                 f"is {st:.4g}"))
    return fails, info


def _cg_batch_case(prm: dict):
    """batch of B samples: the block must return, for ALL samples, the iterate of ONE common pass count j (the first pass at
    which the batch mean of sqrt|<r,r>| is below tol), and every sample must be no worse than its start"""
    from direct.nn.conjgradnet.conjgrad import CGUpdateType, ConjGrad

    n_, c_, h_, w_ = prm["shape"]
    g = torch.Generator().manual_seed(prm["seed"])
    fop, bop = _ops(prm["centered"], True)
    S = torch.randn(n_, c_, h_, w_, 2, generator=g)
    # very different sample magnitudes make the batch mean differ from every per-sample statistic
    scale = torch.tensor([prm["spread"] ** (b_ / max(n_ - 1, 1)) for b_ in range(n_)]).reshape(-1, 1, 1, 1)
    y = torch.randn(n_, c_, h_, w_, 2, generator=g) * scale.unsqueeze(1)
    z = torch.randn(n_, h_, w_, 2, generator=g) * scale
    x0 = torch.randn(n_, h_, w_, 2, generator=g) * scale
    m = _make_mask(prm["mask"], (n_, c_, h_, w_), g)
    lam = torch.tensor([float(prm["lam"])])
    upd = CGUpdateType(prm["update"])
    npx = h_ * w_
    nmax = npx + 4
    As = _dense_A(fop, S, m, (n_, c_, h_, w_))
    yc = torch.view_as_complex(y.contiguous()).reshape(n_, c_ * npx).to(torch.complex128)
    zc = torch.view_as_complex(z.contiguous()).reshape(n_, npx).to(torch.complex128)
    lam64 = float(lam)

    def cplx(x):
        return torch.view_as_complex(x.contiguous()).reshape(n_, npx).to(torch.complex128)

    def resid_norm(xc, b_):
        A = As[b_]
        return math.sqrt(float((A.conj().T @ yc[b_] + lam64 * zc[b_] - (A.conj().T @ (A @ xc[b_]) + lam64 * xc[b_])).abs().pow(2).sum()))

    def objective(xc, b_):
        my = torch.view_as_complex(torch.where(m[b_:b_ + 1] == 0, torch.tensor([0.0]), y[b_:b_ + 1]).contiguous()).reshape(-1).to(torch.complex128)
        return 0.5 * float((As[b_] @ xc[b_] - my).abs().pow(2).sum()) + 0.5 * lam64 * float((xc[b_] - zc[b_]).abs().pow(2).sum())

    x0c = cplx(x0)
    stat0 = sum(resid_norm(x0c, b_) for b_ in range(n_)) / (2 * n_)
    tol = prm["tol_frac"] * stat0
    with torch.no_grad():
        xb = ConjGrad(fop, bop, num_iters=nmax, tol=tol, bk_update_type=upd).cg(x0, y, S, m, lam, z)
        # the iterates of each sample ON ITS OWN (batch of one, no stopping)
        singles = [[ConjGrad(fop, bop, num_iters=j, tol=0.0, bk_update_type=upd).cg(
            x0[b_:b_ + 1], y[b_:b_ + 1], S[b_:b_ + 1], m[b_:b_ + 1], lam, z[b_:b_ + 1]) for j in range(nmax + 1)] for b_ in range(n_)]
    fails, info = [], {"tol": tol}
    # the common pass count
    best = None
    for j in range(nmax + 1):
        dev = max(float((xb[b_:b_ + 1] - singles[b_][j]).norm()) / (float(singles[b_][j].norm()) + float(x0[b_:b_ + 1].norm()) + 1e-12)
                  for b_ in range(n_))
        if best is None or dev < best[1]:
            best = (j, dev)
    j, dev = best
    info.update({"pass": j, "deviation_from_common_iterate": dev})
    if not dev <= 2e-3:
        fails.append(("cg-batch-not-a-common-iterate", f"batch output is not the j-th iterate of every sample for any single j "
                                                       f"(best j = {j}, deviation {dev:.3g})"))
        return fails, info
    xbc = cplx(xb)
    # the stopping rule: mean statistic below tol at pass j (unless j = num_iters), not below at earlier passes (with slack)
    def stat_at(jj):
        return sum(resid_norm(cplx(torch.cat([singles[b_][jj] for b_ in range(n_)])), b_) for b_ in range(n_)) / (2 * n_)
    if j < nmax and not stat_at(j) <= tol * 1.02 + 1e-6 * stat0:
        fails.append(("cg-batch-stop", f"loop left at pass {j} but the batch-mean statistic {stat_at(j):.4g} is not below tol {tol:.4g}"))
    for jj in range(1, j):
        if stat_at(jj) < tol * 0.98 - 1e-6 * stat0:
            fails.append(("cg-batch-stop", f"batch-mean statistic {stat_at(jj):.4g} already below tol {tol:.4g} at pass {jj} < {j}"))
            break
    # per sample: never worse than its own start
    for b_ in range(n_):
        e0, e1 = objective(x0c, b_), objective(xbc, b_)
        if not e1 <= e0 + 1e-4 * (abs(e0) + 1.0):
            fails.append((f"cg-batch-worse-than-start-{prm['update']}", f"sample {b_}: objective {e1:.6g} exceeds its start {e0:.6g}"))
            break
    return fails, info


_SHIPPED_BUDGETS = [(10, 1e-6), (10, 1e-7), (15, 1e-7), (12, 1e-8)]   # ConjGrad default, ConjGradNetConfig, ConjGradNet default, base_conjgradnet.yaml


def _cg_budget_case(prm: dict):
    """ill-conditioned systems (un-normalised maps with log-normal magnitudes, small lambda) under the iteration budgets
    the code and the configurations ship.  "To solver tolerance" cannot mean the dense solution here (the budget is far
    below the dimension); what the block must still deliver pass by pass is conjugate-gradient behaviour:
      * the error in the energy norm ||x_k - x*||_B does not increase with a further pass, and a further pass changes the
        returned iterate until the loop's own tolerance test holds for it (the only legitimate reason to stop early),
      * never worse than the start (energy norm and objective)."""
    from direct.nn.conjgradnet.conjgrad import CGUpdateType, ConjGrad

    n_, c_, h_, w_ = prm["shape"]
    g = torch.Generator().manual_seed(prm["seed"])
    fop, bop = _ops(prm["centered"], True)
    S = torch.randn(n_, c_, h_, w_, 2, generator=g) * torch.exp(prm["sens_sigma"] * torch.randn(n_, c_, h_, w_, 1, generator=g))
    y = torch.randn(n_, c_, h_, w_, 2, generator=g)
    z = torch.randn(n_, h_, w_, 2, generator=g)
    m = _make_mask(prm["mask"], (n_, c_, h_, w_), g)
    lam64 = float(prm["lam"])
    lam = torch.tensor([lam64])
    upd = CGUpdateType(prm["update"])
    iters, tol = prm["iters"], prm["tol"]
    npx = h_ * w_
    As = _dense_A(fop, S, m, (n_, c_, h_, w_))
    yc = torch.view_as_complex(y.contiguous()).reshape(n_, -1).to(torch.complex128)
    zc = torch.view_as_complex(z.contiguous()).reshape(n_, -1).to(torch.complex128)
    Bs = [A.conj().T @ A + lam64 * torch.eye(npx, dtype=torch.complex128) for A in As]
    bs = [A.conj().T @ yc[i] + lam64 * zc[i] for i, A in enumerate(As)]
    sols = [torch.linalg.solve(B, b) for B, b in zip(Bs, bs)]
    cond = max(float(ev[-1] / ev[0]) for ev in (torch.linalg.eigvalsh(B) for B in Bs))

    def cplx(x):
        return torch.view_as_complex(x.contiguous()).reshape(n_, -1).to(torch.complex128)

    def err_b(xc):
        return math.sqrt(sum(max(float(torch.vdot(xc[i] - sols[i], Bs[i] @ (xc[i] - sols[i])).real), 0.0) for i in range(n_)))

    def stat(xc):      # the loop's statistic on the TRUE residual
        return sum(math.sqrt(float((bs[i] - Bs[i] @ xc[i]).abs().pow(2).sum())) for i in range(n_)) / (2 * n_)

    fails, errs = [], []
    e0 = err_b(zc)
    errs.append(e0)
    xk, prev = zc, z
    slack = 1e-4 * e0 * max(1.0, cond * 1e-6)
    # |<r, B p>| of the first pass: `complex_division` squares it; beyond the float32 range the step length becomes 0 and the
    # block returns its start (the float-range finding of C02, not judged here — see `_float_range_note`)
    den0 = max(abs(complex(torch.vdot(bs[i] - Bs[i] @ zc[i], Bs[i] @ (bs[i] - Bs[i] @ zc[i])))) for i in range(n_))
    for k in range(1, iters + 1):
        with torch.no_grad():
            out = ConjGrad(fop, bop, num_iters=k, tol=tol, bk_update_type=upd)(y, S, m, z, lam)
        xk = cplx(out)
        ek = err_b(xk)
        errs.append(ek)
        stopped_legitimately = stat(xk) < tol * (1 + 1e-3)
        stalled = bool(torch.equal(out, prev))          # one more pass allowed, the very same tensor returned
        prev = out
        if not ek <= errs[-2] + slack:
            fails.append((f"cg-energy-error-increase-{prm['update']}", f"||x_k - x*||_B increases from {errs[-2]:.6g} (num_iters = {k - 1}) to "
                                                                        f"{ek:.6g} (num_iters = {k}); cond(B) = {cond:.3g}"))
            break
        if errs[-2] > 1e-3 * e0 and stalled and not stopped_legitimately and den0 ** 2 < 1e36:
            fails.append((f"cg-stalls-before-tolerance-{prm['update']}",
                          f"num_iters = {k} returns no better iterate than num_iters = {k - 1} (||x - x*||_B = {ek:.6g}, start {e0:.6g}) although "
                          f"the residual statistic {stat(xk):.3g} of the returned x is not below tol = {tol:g}: the loop is left for "
                          f"another reason than its tolerance test; cond(B) = {cond:.3g}, lambda = {lam64}"))
            break
    rel = math.sqrt(sum(float((xk[i] - sols[i]).abs().pow(2).sum()) for i in range(n_))) / \
        (math.sqrt(sum(float(s_.abs().pow(2).sum()) for s_ in sols)) + 1e-12)
    return fails, {"cond": cond, "energy_error_ratio_at_budget": errs[-1] / (e0 + 1e-300), "rel_to_dense_at_budget": rel,
                   "first_pass_denominator": den0}


def _float_range_note():
    """one fixed input with map magnitudes so large that |<r, B p>|^2 leaves the float32 range"""
    prm = {"op": "cgbudget", "shape": [1, 4, 6, 6], "seed": 971690737, "centered": True, "mask": "percoil", "lam": 0.5, "update": "PRP",
           "sens_sigma": 2.0, "iters": 3, "tol": 1e-8}
    try:
        _, info = _cg_budget_case(prm)
    except Exception as e:  # noqa: BLE001
        return {"observation": f"float-range probe failed: {err_name(e)}"}
    return {"observation": "un-normalised maps with log-normal magnitudes sigma = 2 (|S| up to a few hundred): |<r, B p>| = "
                           f"{info['first_pass_denominator']:.3g} in the first pass, its square is outside the float32 range, `complex_division` "
                           f"returns a step length 0 and ConjGrad returns its start unchanged (energy-error ratio after 3 passes "
                           f"{info['energy_error_ratio_at_budget']:.3g}) — a consequence of the float32 squaring formulas recorded as known "
                           "finding `float-range:complex_division:divisor-square-overflow-zero` of C02; such magnitudes are kept out of the judged inputs", "input": prm}


def _three_d_notes():
    """what the two blocks do with 3-D (slice/time) inputs — recorded, and checked where the block accepts them"""
    from direct.nn.conjgradnet.conjgrad import ConjGrad
    from direct.nn.rim.rim import MRILogLikelihood

    fop, bop = _ops(True, True)
    g = torch.Generator().manual_seed(7)
    out = []
    # MRILogLikelihood hard-codes a 4-D image (`permute(0, 2, 3, 1)`) and dims (2, 3)
    try:
        MRILogLikelihood(fop, bop)(torch.randn(1, 2, 2, 4, 4, generator=g), torch.randn(1, 2, 2, 4, 4, 2, generator=g),
                                   torch.randn(1, 2, 2, 4, 4, 2, generator=g), torch.ones(1, 1, 1, 4, 4, 1, dtype=torch.bool))
        out.append({"three_d": "MRILogLikelihood unexpectedly accepted a 5-D image"})
    except Exception as e:  # noqa: BLE001
        out.append({"three_d": f"MRILogLikelihood rejects volumes (5-D image): {err_name(e)} — 2-D only, dims (2, 3) fixed"})
    # ConjGrad runs on (N, C, D, H, W, 2) but transforms axes (2, 3) = (slice, height): still an SPD system; check it solves IT
    n_, c_, d_, h_, w_ = 1, 2, 2, 3, 2
    S = torch.randn(n_, c_, d_, h_, w_, 2, generator=g)
    y = torch.randn(n_, c_, d_, h_, w_, 2, generator=g)
    z = torch.randn(n_, d_, h_, w_, 2, generator=g)
    m = torch.rand(n_, 1, 1, h_, w_, 1, generator=g) < 0.6
    lam = torch.tensor([0.7])
    blk = ConjGrad(fop, bop, num_iters=60, tol=1e-7)
    with torch.no_grad():
        xs = blk(y, S, m, z, lam)
        npx = d_ * h_ * w_
        eye = torch.zeros(npx, d_, h_, w_, 2)
        for j in range(npx):
            eye.view(npx, npx, 2)[j, j, 0] = 1.0
        Bcols = blk.B_op(eye, S.expand(npx, -1, -1, -1, -1, -1), m, lam)
        B = torch.view_as_complex(Bcols.contiguous()).reshape(npx, npx).T.to(torch.complex128)
        rhs = torch.view_as_complex((blk._A_star_op(y, S, m) + lam * z).contiguous()).reshape(npx).to(torch.complex128)
        sol = torch.linalg.solve(B, rhs)
    r = float((torch.view_as_complex(xs.contiguous()).reshape(npx).to(torch.complex128) - sol).norm()) / float(sol.norm())
    herm = float((B - B.conj().T).abs().max())
    out.append({"three_d": f"ConjGrad accepts (N, C, D, H, W, 2) but applies the operators over axes (2, 3) = (slice, height); the system "
                           f"it builds is Hermitian (asymmetry {herm:.2g}) and it solves it (relative error {r:.2g} vs dense solve)"})
    if not (r <= 2e-3 and herm <= 1e-4):
        out.append(Violation("cg-3d", f"ConjGrad on a volume does not solve its own (Hermitian) system: rel {r:.3g}, asymmetry {herm:.3g}",
                             {"op": "cg3d"}))
    return out


def _cb(c: int) -> str:
    return str(c) if c <= 4 else "5-8" if c <= 8 else "9-16" if c <= 16 else ">16"


def oracle(ctx: Ctx, deep: bool = False):
    rng = ctx.rng
    big = deep or ctx.thorough
    # ---- MRILogLikelihood vs autograd
    sizes = [(1, 1), (1, 2), (2, 2), (3, 4), (4, 4), (5, 6), (8, 8), (7, 9), (12, 12), (12, 5), (6, 12)]
    n_ll = 1500 if big else 150
    for i in range(n_ll):
        h_, w_ = rng.choice(sizes)
        coils = rng.choice([1, 2, 3, 4])
        if i % 3 == 0:                              # coil-count ladder on tiny images
            h_, w_ = rng.choice([(1, 2), (2, 2), (2, 3), (3, 3)])
            coils = COIL_LADDER[(i // 3 + ctx.seed) % len(COIL_LADDER)]
        prm = {"op": "loglik", "shape": [rng.choice([1, 1, 2, 3]), coils, h_, w_], "mode": "eval" if (i // 3) % 2 == 0 else "train",
               "seed": rng.randrange(2 ** 31), "centered": rng.random() < 0.5, "normalized": rng.random() < 0.75,
               "mask": rng.choice(["empty", "full", "random", "random", "columns", "percoil"]),
               "scaling": rng.choice([None, None, 0.5, 3.0, 0.01, "per-sample"]), "sens_scale": rng.choice([1.0, 1.0, 0.2, 5.0]),
               "premask": rng.random() < 0.5}
        if prm["scaling"] == "per-sample":
            prm["scaling"] = [rng.choice([0.25, 0.5, 1.0, 2.0, 3.0]) for _ in range(prm["shape"][0])]
        try:
            fails, info = _loglik_case(prm)
        except Exception as e:  # noqa: BLE001 - a well-formed problem must not raise
            fails, info = [("loglik-raises", f"MRILogLikelihood raises {err_name(e)} on a well-formed problem: {e}"[:300])], {}
        ctx.count(("ll", tuple(prm["shape"]), prm["seed"]), h_ * w_ >= 2 and prm["mask"] != "empty",
                  sample={"op": "oracle/loglik", **{k: prm[k] for k in ("shape", "centered", "normalized", "mask")}, **info},
                  bucket=f"oracle/loglik/{'centred' if prm['centered'] else 'uncentred'}/"
                         f"{'normalised' if prm['normalized'] else 'unnormalised'}/mask={prm['mask']}/{prm['mode']}/coils={_cb(coils)}")
        for key, what in fails:
            yield Violation(key, what, {**prm, "observed": info})
    # ---- ConjGrad vs dense solve
    cg_sizes = [(1, 2), (2, 2), (2, 3), (4, 4), (3, 5), (6, 6), (4, 6), (5, 5)]
    n_cg = 500 if big else 60
    for i in range(n_cg):
        h_, w_ = rng.choice(cg_sizes)
        lam = round(math.exp(rng.uniform(math.log(0.05), math.log(10.0))), 4)
        coils = rng.choice([1, 2, 3])
        if i % 3 == 0:
            h_, w_ = rng.choice([(1, 2), (2, 2), (2, 3)])
            coils = COIL_LADDER[(i // 3 + ctx.seed) % len(COIL_LADDER)]
        prm = {"op": "cg", "shape": [rng.choice([1, 1, 2]), coils, h_, w_], "seed": rng.randrange(2 ** 31),
               "mode": "eval" if (i // 3) % 2 == 0 else "train",
               "centered": rng.random() < 0.5, "mask": rng.choice(["empty", "full", "random", "random", "columns", "percoil"]),
               "lam": min(max(lam, 0.05), 10.0), "update": "FR" if i % 2 == 0 else "PRP",
               "sens_scale": rng.choice([1.0, 1.0, 0.3, 2.0]), "normalized": rng.random() < 0.8}
        try:
            fails, info = _cg_case(prm)
        except Exception as e:  # noqa: BLE001
            fails, info = [("cg-raises", f"ConjGrad raises {err_name(e)} on a well-formed problem: {e}"[:300])], {}
        ctx.count(("cg", tuple(prm["shape"]), prm["seed"]), h_ * w_ >= 2 and prm["mask"] != "empty",
                  sample={"op": "oracle/cg", **{k: prm[k] for k in ("shape", "centered", "mask", "lam", "update")}, **info},
                  bucket=f"oracle/cg/{prm['update']}/{'centred' if prm['centered'] else 'uncentred'}/"
                         f"{'normalised' if prm['normalized'] else 'unnormalised'}/mask={prm['mask']}/"
                         f"lam={'<0.5' if prm['lam'] < 0.5 else '<3' if prm['lam'] < 3 else '>=3'}/{prm['mode']}/coils={_cb(coils)}")
        for key, what in fails:
            yield Violation(key, what, {**prm, "observed": info})

    # ---- ill-conditioned systems under the shipped iteration budgets
    worst_rel, worst_cond = 0.0, 0.0
    for i in range(100 if big else 12):
        h_, w_ = rng.choice([(4, 4), (6, 6), (5, 7), (8, 8), (12, 12)] if big else [(4, 4), (6, 6), (5, 7), (8, 8)])
        iters, tol = rng.choice(_SHIPPED_BUDGETS)
        prm = {"op": "cgbudget", "shape": [rng.choice([1, 1, 2]), rng.choice([2, 4]), h_, w_], "seed": rng.randrange(2 ** 31),
               "centered": rng.random() < 0.5, "mask": rng.choice(["random", "columns", "columns", "percoil"]),
               "lam": rng.choice([0.05, 0.05, 0.1, 0.5]), "update": "FR" if i % 2 == 0 else "PRP",
               "sens_sigma": rng.choice([1.0, 1.25, 1.5]), "iters": iters, "tol": tol}
        try:
            fails, info = _cg_budget_case(prm)
        except Exception as e:  # noqa: BLE001
            fails, info = [("cg-raises", f"ConjGrad raises {err_name(e)} on a well-formed ill-conditioned problem: {e}"[:300])], {}
        worst_rel, worst_cond = max(worst_rel, info.get("rel_to_dense_at_budget", 0.0)), max(worst_cond, info.get("cond", 0.0))
        ctx.count(("cgbud", tuple(prm["shape"]), prm["seed"]), True, sample={"op": "oracle/cgbudget", **prm, **info},
                  bucket=f"oracle/cgbudget/{prm['update']}/iters={iters}/cond=1e{int(math.log10(max(info.get('cond', 1.0), 1.0)))}")
        for key, what in fails:
            yield Violation(key, what, {**prm, "observed": info})
    ctx.notes.append(_float_range_note())
    ctx.notes.append({"observation": f"ill-conditioned normal equations (log-normal map magnitudes, lambda 0.05-0.5, cond(B) up to {worst_cond:.2g}) under the "
                                     f"shipped budgets num_iters 10-15: the returned iterate is up to {worst_rel:.2g} (relative, 2-norm) away from the dense "
                                     "solution — the budget, not the tolerance, ends the loop; the energy-norm error never increased and every pass moved the iterate "
                                     "in all cases (the property's 'to solver tolerance' is met only in the sense of `cg_exit_guarantee`)"})

    # ---- ConjGrad on a batch: one common pass count (batch-mean stopping rule), per sample never worse
    n_b = 120 if big else 16
    for i in range(n_b):
        h_, w_ = rng.choice([(2, 2), (2, 3), (4, 4), (3, 5)])
        lam = round(math.exp(rng.uniform(math.log(0.05), math.log(10.0))), 4)
        prm = {"op": "cgbatch", "shape": [rng.choice([2, 3]), rng.choice([1, 2, 3]), h_, w_], "seed": rng.randrange(2 ** 31),
               "centered": rng.random() < 0.5, "mask": rng.choice(["full", "random", "random", "columns"]),
               "lam": min(max(lam, 0.05), 10.0), "update": "FR" if i % 2 == 0 else "PRP", "tol_frac": rng.choice([0.02, 0.1, 0.3]),
               "spread": rng.choice([1.0, 10.0, 100.0])}
        try:
            fails, info = _cg_batch_case(prm)
        except Exception as e:  # noqa: BLE001
            fails, info = [("cg-raises", f"ConjGrad raises {err_name(e)} on a well-formed batch: {e}"[:300])], {}
        ctx.count(("cgb", tuple(prm["shape"]), prm["seed"]), True, sample={"op": "oracle/cgbatch", **info},
                  bucket=f"oracle/cgbatch/{prm['update']}/B={prm['shape'][0]}/stop_pass={info.get('pass', '?')}")
        for key, what in fails:
            yield Violation(key, what, {**prm, "observed": info})
    # ---- phase 3: call histories on persistent instances of the two blocks (same k-space tensor object with other masks /
    #      scalings / refilled in place / re-allocated, equal content in another object, two alternating problems)
    from props import c19_hist

    ll_scripts = list(c19_hist.LOGLIK_SCRIPTS) + [c19_hist.random_script(rng, "loglik") for _ in range(60 if big else 5)]
    for i, script in enumerate(ll_scripts):
        for dt in ("float32", "float64"):
            h_, w_ = rng.choice([(2, 3), (4, 4), (5, 6), (3, 8)])
            coils = rng.choice([1, 2, 3])
            if i % 2 == 1:
                h_, w_ = rng.choice([(2, 2), (2, 3)])
                coils = rng.choice(COIL_LADDER)
            prm = {"op": "hist-loglik", "shape": [rng.choice([1, 2, 3]), coils, h_, w_], "seed": rng.randrange(2 ** 31),
                   "mode": rng.choice(["train", "eval"]),
                   "centered": rng.random() < 0.5, "normalized": rng.random() < 0.75, "dtype": dt, "coilmask": rng.random() < 0.25,
                   "script": script}
            try:
                fails, info = c19_hist.loglik_history(prm)
            except Exception as e:  # noqa: BLE001
                fails, info = [("loglik-raises", f"MRILogLikelihood raises {err_name(e)} inside a call history: {e}"[:300])], {}
            ctx.count(("hll", prm["seed"], dt, i), True, sample={"op": "oracle/history/loglik", "script": script, **info},
                      bucket=f"oracle/history/loglik/{dt}/{'fixed' if i < len(c19_hist.LOGLIK_SCRIPTS) else 'random'}")
            for key, what in fails:
                yield Violation(key, what, {**prm, "observed": info})
    cg_scripts = list(c19_hist.CG_SCRIPTS) + [c19_hist.random_script(rng, "cg", 4) for _ in range(30 if big else 2)]
    for i, script in enumerate(cg_scripts):
        dt = "float32" if i % 2 == 0 else "float64"
        h_, w_ = rng.choice([(2, 2), (2, 3), (3, 4)])
        prm = {"op": "hist-cg", "shape": [rng.choice([1, 2]), rng.choice([1, 2, 3] if i % 2 == 0 else COIL_LADDER), h_, w_],
               "seed": rng.randrange(2 ** 31), "mode": rng.choice(["train", "eval"]),
               "centered": rng.random() < 0.5, "dtype": dt, "update": "FR" if (i // 2) % 2 == 0 else "PRP", "script": script}
        try:
            fails, info = c19_hist.cg_history(prm)
        except Exception as e:  # noqa: BLE001
            fails, info = [("cg-raises", f"ConjGrad raises {err_name(e)} inside a call history: {e}"[:300])], {}
        ctx.count(("hcg", prm["seed"], dt, i), True, sample={"op": "oracle/history/cg", "script": script, **info},
                  bucket=f"oracle/history/cg/{dt}/{prm['update']}")
        for key, what in fails:
            yield Violation(key, what, {**prm, "observed": info})

    # ---- phase 2: every re-implementation of the physics inside the unrolled models / engines
    from props import c19_sites

    rounds = 40 if big else 6
    counts: dict[str, int] = {}
    for r in range(rounds):
        seed = rng.randrange(2 ** 31)
        centered = rng.random() < 0.5
        mk = rng.choice(["random", "random", "full", "empty"])
        # default coil counts of the checks (2-3) in the even rounds, one rung of the coil ladder in the odd ones; both modes
        coils = None if r % 2 == 0 else COIL_LADDER[(r // 2 + 3 * ctx.seed + 8) % len(COIL_LADDER)]
        mode = "eval" if (r // 2) % 2 == 0 else "train"
        for name, fn in c19_sites.SITE_CHECKS:
            prm = {"op": "site", "site": name, "seed": seed, "centered": centered, "mask": mk, "coils": coils, "mode": mode}
            try:
                n, fails = c19_sites.run_site(name, seed, centered, mk, coils, mode)
            except Exception as e:  # noqa: BLE001
                n, fails = 0, [(f"site-{name}-raises", f"{name}: {err_name(e)}: {e}"[:300])]
            counts[name] = counts.get(name, 0) + n
            ctx.count(("site", name, seed), mk != "empty", bucket=f"oracle/site/{name}/mask={mk}/{mode}/coils={'default' if coils is None else _cb(coils)}")
            for key, what in fails:
                yield Violation(key, what, prm)
    # ---- phase 3: the same sites on PERSISTENT module instances over a call history (argument tensors refilled in place,
    #      re-masked, cloned, re-used): every data-consistency evaluation of every call against autograd
    hist_counts: dict[str, int] = {}
    for r in range(len(c19_sites.HISTORY_SCRIPTS) * (4 if big else 1)):
        for j, (name, _) in enumerate(c19_sites.SITE_CHECKS):
            script = c19_sites.HISTORY_SCRIPTS[(r + j + ctx.seed) % len(c19_sites.HISTORY_SCRIPTS)] if not big else \
                c19_sites.HISTORY_SCRIPTS[r % len(c19_sites.HISTORY_SCRIPTS)]
            if not big and r > 0:
                break
            seed = rng.randrange(2 ** 31)
            centered = rng.random() < 0.5
            kinds = [rng.choice(["random", "random", "random", "full", "empty"]) for _ in script]
            coils, mode = rng.choice([None, None] + COIL_LADDER), rng.choice(["train", "eval"])
            prm = {"op": "site-hist", "site": name, "seed": seed, "centered": centered, "script": script, "mask_kinds": kinds,
                   "coils": coils, "mode": mode}
            try:
                n, fails, _k = c19_sites.run_site_history(name, seed, centered, script, kinds, coils, mode)
            except Exception as e:  # noqa: BLE001
                n, fails = 0, [(f"site-{name}-raises", f"{name} (call history {script}): {err_name(e)}: {e}"[:300])]
            hist_counts[name] = hist_counts.get(name, 0) + n
            ctx.count(("site-hist", name, seed), True, bucket=f"oracle/history/site/{name}")
            for key, what in fails:
                yield Violation(key, what, prm)
    ctx.notes.append({"site_relations_checked_over_call_histories_on_persistent_instances": hist_counts})
    ctx.notes.append({"site_table": [dict(zip(("site", "file", "model_form", "relation_to_data_fidelity", "bridge_lemmas", "oracle"), row))
                                     for row in c19_sites.SITE_TABLE],
                      "site_relations_checked_on_real_modules": counts})
    try:
        ctx.notes.append(c19_sites.lowercase_update_type_note())
    except Exception as e:  # noqa: BLE001
        ctx.notes.append({"observation": f"lower-case update type probe failed: {err_name(e)}"})
    # ---- 3-D (slice/time) inputs
    for note in _three_d_notes():
        if isinstance(note, Violation):
            yield note
        else:
            ctx.notes.append(note)


def replay(rep: dict) -> bool:
    """Re-run a recorded failing case on the implementation; True when it still fails."""
    prm = {k: v for k, v in rep.items() if k != "observed"}
    try:
        if rep.get("op") == "loglik":
            return bool(_loglik_case(prm)[0])
        if rep.get("op") == "cg":
            return bool(_cg_case(prm)[0])
        if rep.get("op") == "cgbudget":
            return bool(_cg_budget_case(prm)[0])
        if rep.get("op") == "cgbatch":
            return bool(_cg_batch_case(prm)[0])
        if rep.get("op") == "site":
            from props import c19_sites
            return bool(c19_sites.run_site(rep["site"], rep["seed"], rep["centered"], rep["mask"], rep.get("coils"), rep.get("mode", "train"))[1])
        if rep.get("op") == "hist-loglik":
            from props import c19_hist
            return bool(c19_hist.loglik_history(prm)[0])
        if rep.get("op") == "hist-cg":
            from props import c19_hist
            return bool(c19_hist.cg_history(prm)[0])
        if rep.get("op") == "site-hist":
            from props import c19_sites
            return bool(c19_sites.run_site_history(rep["site"], rep["seed"], rep["centered"], rep["script"], rep.get("mask_kinds"),
                                                   rep.get("coils"), rep.get("mode", "train"))[1])
        if rep.get("op") == "cg3d":
            return any(isinstance(v, Violation) for v in _three_d_notes())
    except Exception:  # noqa: BLE001
        return True
    return True
