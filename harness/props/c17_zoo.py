"""C17 — further zoo entries (phase 3): architecture options, call options, building blocks and engine paths that the shared
zoo (`zoo_common.py`, used by C17 and C18) does not instantiate.  Same `Entry` type, same conventions, tiny widths.

Kept in a C17-owned module so that the shared zoo's interface and C18's case list stay as they are.
"""
from __future__ import annotations

import boot  # noqa: F401
import torch
from torch import nn

from . import zoo_common as Z
from .zoo_common import Entry, any_ok, both, didn_ok, mwcnn_ok, normunet3d_ok, normunet_ok, unet3d_ok, unet_ok


# ----------------------------------------------------------------------------------------------------------------
# wrappers for forward-call options (the wrapped module IS the real module; only the call form differs)
class CallWith(nn.Module):
    """`forward(x)` = `inner(x, **kwargs)` (e.g. `MWCNN.forward(x, res=True)`, `DIDN.forward(x, channel_dim=1)`)"""

    def __init__(self, inner, **kwargs):
        super().__init__()
        self.inner = inner
        self.kwargs = kwargs

    def forward(self, x):
        return self.inner(x, **self.kwargs)


class LastAxis0(nn.Module):
    """`RIMInit` / `RecurrentInit` return `(N, C, H, W, depth)`: every depth slice must have the documented `(N, C, H, W)`;
    the wrapper checks that the trailing axis is `depth` and returns the last slice"""

    def __init__(self, inner, depth):
        super().__init__()
        self.inner, self.depth = inner, depth

    def forward(self, x):
        out = self.inner(x)
        if out.ndim != 5 or out.shape[-1] != self.depth:
            raise AssertionError(f"initializer returned {tuple(out.shape)}, documented (N, C, H, W, depth={self.depth})")
        return out[..., -1]


# ----------------------------------------------------------------------------------------------------------------
# call conventions
def _c_rim_given_image(m, i):
    """`RIM.forward(input_image=<given>, …)`: an intermediate guess handed in by the caller (as `RIMEngine` does for steps > 1)"""
    fwd, bwd = Z._ops()
    img = bwd(i["masked_kspace"], dim=(2, 3)).sum(1)
    outs, _state = m(img, i["masked_kspace"], i["sampling_mask"], i["sensitivity_map"])
    return outs[-1]


def _c_rim_initial_kspace(m, i):
    outs, _state = m(None, i["masked_kspace"], i["sampling_mask"], i["sensitivity_map"], initial_kspace=i["masked_kspace"])
    return outs[-1]


def _c_rim_initial_image(m, i):
    fwd, bwd = Z._ops()
    img = bwd(i["masked_kspace"], dim=(2, 3)).sum(1)
    outs, _state = m(None, i["masked_kspace"], i["sampling_mask"], i["sensitivity_map"], initial_image=img)
    return outs[-1]


def _c_rim_two_calls(m, i):
    """call history: the second call continues from the first call's image and hidden state"""
    outs, state = m(None, i["masked_kspace"], i["sampling_mask"], i["sensitivity_map"])
    img = outs[-1].permute(0, 2, 3, 1)
    outs, _state = m(img, i["masked_kspace"], i["sampling_mask"], i["sensitivity_map"], previous_state=state)
    return outs[-1]


def _c_first_ksm(m, i):
    """vSHARP with auxiliary steps: every returned image must have the documented shape; return the first"""
    outs = m(i["masked_kspace"], i["sensitivity_map"], i["sampling_mask"])
    shapes = {tuple(o.shape) for o in outs}
    if len(shapes) != 1:
        raise AssertionError(f"auxiliary outputs of different shapes: {sorted(shapes)}")
    return outs[0]


def _c_multicoil(m, i):
    return m(i["masked_kspace"])


def _c_multicoil_per_coil(m, i):
    """`MultiCoil(coil_to_batch=False)` loops over `select(coil_dim, idx)` and expects channels-first slices, as its callers
    (KIKINet, XPDNet) provide"""
    return m(i["masked_kspace"].permute(0, 1, 4, 2, 3)).permute(0, 1, 3, 4, 2)


def _c_crossdomain(m, i):
    return m(i["masked_kspace"], i["sampling_mask"], i["sensitivity_map"])


# ----------------------------------------------------------------------------------------------------------------
def blocks() -> list[Entry]:
    """building blocks and forward options"""
    from direct.nn.didn.didn import DIDN
    from direct.nn.mwcnn.mwcnn import MWCNN
    from direct.nn.recurrent.recurrent import Conv2dGRU, NormConv2dGRU
    from direct.nn.recurrentvarnet.recurrentvarnet import RecurrentInit
    from direct.nn.resnet.resnet import ResNet
    from direct.nn.rim.rim import RIMInit
    from direct.nn.unet.unet_2d import NormUnetModel2d, UnetModel2d
    from direct.nn.unet.unet_3d import NormUnetModel3d, UnetModel3d
    from direct.nn.vsharp.vsharp import LagrangeMultipliersInitializer, LagrangeMultipliersInitializer3D

    E = []
    E.append(Entry("UnetModel2d/L4", "unet2d", "den2d", lambda: UnetModel2d(2, 2, 2, 4, 0.0), "chw", min_hw=unet_ok(4),
                   min_note="default depth: h, w >= 16 and not 16..31 x 16..31", tags=("unet", "L4")))
    E.append(Entry("UnetModel2d/in3out5", "unet2d", "den2d", lambda: UnetModel2d(3, 5, 3, 2, 0.0), "chw", in_ch=3, out_ch=5,
                   min_hw=unet_ok(2), tags=("unet", "widths")))
    E.append(Entry("NormUnetModel2d/groups1", "unet2d", "den2d", lambda: NormUnetModel2d(3, 3, 2, 1, 0.0, norm_groups=1), "chw",
                   in_ch=3, out_ch=3, min_hw=normunet_ok(1, 3, 1), tags=("normunet", "groups1")))
    E.append(Entry("NormUnetModel2d/L3", "unet2d", "den2d", lambda: NormUnetModel2d(2, 2, 2, 3, 0.0), "chw", min_hw=normunet_ok(3),
                   tags=("normunet", "L3")))
    E.append(Entry("MWCNN/S3/res", "mwcnn", "den2d", lambda: CallWith(MWCNN(2, 2, num_scales=3), res=True), "chw",
                   min_hw=mwcnn_ok(3), tags=("mwcnn", "res")))
    E.append(Entry("MWCNN/S2/in4", "mwcnn", "den2d", lambda: MWCNN(4, 3, num_scales=2), "chw", in_ch=4, out_ch=4,
                   min_hw=mwcnn_ok(2), tags=("mwcnn", "widths")))
    E.append(Entry("DIDN/in2out4-skip-requested", "didn", "den2d",
                   lambda: DIDN(2, 4, hidden_channels=3, num_dubs=3, num_convs_recon=1, skip_connection=True), "chw", out_ch=4,
                   min_hw=didn_ok, min_note="skip connection is dropped by the constructor when in != out", tags=("didn", "widths")))
    E.append(Entry("DIDN/channel_dim", "didn", "den2d",
                   lambda: CallWith(DIDN(2, 2, hidden_channels=4, num_dubs=2, num_convs_recon=1), channel_dim=1), "chw",
                   min_hw=didn_ok, tags=("didn",)))
    E.append(Entry("ResNet/in2out3", "resnet", "den2d", lambda: ResNet(hidden_channels=4, in_channels=2, out_channels=3, num_blocks=3),
                   "chw", out_ch=3, min_hw=any_ok, tags=("resnet", "widths")))
    E.append(Entry("ResNet/noscale", "resnet", "den2d", lambda: ResNet(hidden_channels=4, in_channels=2, num_blocks=1, scale=None),
                   "chw", min_hw=any_ok, tags=("resnet",)))
    # initialisers (dilated convolutions with replication padding, multi-scale concatenation)
    E.append(Entry("LagrangeMultipliersInitializer/ms1", "vsharp", "den2d",
                   lambda: LagrangeMultipliersInitializer(2, 2, channels=(2, 2, 4, 4), dilations=(1, 1, 2, 4), multiscale_depth=1),
                   "chw", min_hw=any_ok, tags=("initializer",)))
    E.append(Entry("LagrangeMultipliersInitializer/ms3-relu", "vsharp", "den2d",
                   lambda: LagrangeMultipliersInitializer(2, 3, channels=(2, 3, 4), dilations=(1, 2, 4), multiscale_depth=3,
                                                          activation="relu"),
                   "chw", out_ch=3, min_hw=any_ok, tags=("initializer",)))
    E.append(Entry("RIMInit/ms2", "rim", "den2d",
                   lambda: LastAxis0(RIMInit(2, 4, channels=(2, 2, 4), dilations=(1, 1, 2), depth=2, multiscale_depth=2), 2), "chw",
                   out_ch=4, min_hw=any_ok, tags=("initializer",)))
    E.append(Entry("RecurrentInit/ms3", "recurrentvarnet", "den2d",
                   lambda: LastAxis0(RecurrentInit(2, 4, channels=(2, 2, 4, 4), dilations=(1, 1, 2, 4), depth=3, multiscale_depth=3), 3),
                   "chw", out_ch=4, min_hw=any_ok, tags=("initializer",)))
    return E


def blocks3d() -> list[Entry]:
    from direct.nn.unet.unet_3d import NormUnetModel3d, UnetModel3d
    from direct.nn.vsharp.vsharp import LagrangeMultipliersInitializer3D

    E = []
    E.append(Entry("UnetModel3d/L3/in3", "unet3d", "den3d", lambda: UnetModel3d(3, 2, 2, 3, 0.0), "czhw", in_ch=3,
                   min_zhw=unet3d_ok(3), tags=("unet3d", "L3")))
    E.append(Entry("NormUnetModel3d/L1/in6", "unet3d", "den3d", lambda: NormUnetModel3d(6, 2, 2, 1, 0.0), "czhw", in_ch=6,
                   min_zhw=normunet3d_ok(1, 6), tags=("unet3d", "normunet")))
    E.append(Entry("LagrangeMultipliersInitializer3D/ms2", "vsharp", "den3d",
                   lambda: LagrangeMultipliersInitializer3D(2, 2, channels=(2, 2, 4), dilations=(1, 1, 2), multiscale_depth=2),
                   "czhw", min_zhw=lambda z, h, w: True, tags=("initializer",)))
    return E


def grus() -> list[Entry]:
    from direct.nn.recurrent.recurrent import Conv2dGRU, NormConv2dGRU

    E = []
    E.append(Entry("Conv2dGRU/dense2-L3", "recurrent", "gru",
                   lambda: Conv2dGRU(in_channels=4, hidden_channels=3, out_channels=2, num_layers=3, dense_connect=2), "chw", in_ch=4,
                   min_hw=any_ok, tags=("gru", "dense")))
    E.append(Entry("Conv2dGRU/L1-k3", "recurrent", "gru",
                   lambda: Conv2dGRU(in_channels=4, hidden_channels=4, out_channels=2, num_layers=1, gru_kernel_size=3), "chw", in_ch=4,
                   min_hw=any_ok, tags=("gru",)))
    E.append(Entry("NormConv2dGRU/zeropad", "recurrent", "gru",
                   lambda: NormConv2dGRU(in_channels=4, hidden_channels=4, out_channels=2, num_layers=2, replication_padding=False),
                   "chw", in_ch=4, min_hw=any_ok, tags=("gru", "normalized", "zeropad")))
    return E


def recons() -> list[Entry]:
    from direct.nn.conjgradnet.conjgradnet import ConjGradNet
    from direct.nn.conv.conv import Conv2d
    from direct.nn.crossdomain.crossdomain import CrossDomainNetwork
    from direct.nn.crossdomain.multicoil import MultiCoil
    from direct.nn.iterdualnet.iterdualnet import IterDualNet
    from direct.nn.kikinet.kikinet import KIKINet
    from direct.nn.lpd.lpd import LPDNet
    from direct.nn.recurrentvarnet.recurrentvarnet import RecurrentVarNet
    from direct.nn.rim.rim import RIM
    from direct.nn.unet.unet_2d import UnetModel2d
    from direct.nn.varsplitnet.varsplitnet import MRIVarSplitNet
    from direct.nn.vsharp.vsharp import VSharpNet

    fwd, bwd = Z._ops()
    u2 = unet_ok(2)
    nu = both(normunet_ok(2), lambda h, w: h * w >= 9)
    E: list[Entry] = []
    rkw = {"hidden_channels": 4, "length": 2, "depth": 1}
    # ---- RIM: call options / call history / remaining initialisations
    E.append(Entry("RIM/given-input-image", "rim", "recon", lambda: RIM(fwd, bwd, **rkw), "chw", _c_rim_given_image, tags=("gru",)))
    E.append(Entry("RIM/init-input_kspace", "rim", "recon", lambda: RIM(fwd, bwd, image_initialization="input_kspace", **rkw), "chw",
                   _c_rim_initial_kspace, tags=("gru",)))
    E.append(Entry("RIM/init-input_image", "rim", "recon", lambda: RIM(fwd, bwd, image_initialization="input_image", **rkw), "chw",
                   _c_rim_initial_image, tags=("gru",)))
    E.append(Entry("RIM/two-calls-previous-state", "rim", "recon", lambda: RIM(fwd, bwd, hidden_channels=4, length=2, depth=2), "chw",
                   _c_rim_two_calls, tags=("gru", "history")))
    E.append(Entry("RIM/learned-init-ms1-depth2", "rim", "recon",
                   lambda: RIM(fwd, bwd, hidden_channels=4, length=2, depth=2, learned_initializer=True, initializer_channels=(2, 2, 4),
                               initializer_dilations=(1, 1, 2), initializer_multiscale=1), "chw", Z._c_rim, tags=("gru", "learned-init")))
    E.append(Entry("RIM/shared-length3", "rim", "recon",
                   lambda: RIM(fwd, bwd, hidden_channels=4, length=3, depth=1, no_parameter_sharing=False), "chw", Z._c_rim,
                   tags=("gru", "shared")))
    # ---- RecurrentVarNet: the multiscale depth of the shipped configs, more steps than layers
    E.append(Entry("RecurrentVarNet/learned-sense-ms3", "recurrentvarnet", "recon",
                   lambda: RecurrentVarNet(fwd, bwd, num_steps=3, recurrent_hidden_channels=4, recurrent_num_layers=3,
                                           learned_initializer=True, initializer_initialization="sense",
                                           initializer_channels=(2, 2, 4, 4), initializer_dilations=(1, 1, 2, 4),
                                           initializer_multiscale=3),
                   "kspace", Z._c_kms, coil_invariant=False, tags=("gru",)))
    # ---- parameter sharing switched off / on
    ckw = dict(resnet_hidden_channels=4, resnet_num_blocks=2, unet_num_filters=2, unet_num_pool_layers=2, didn_hidden_channels=4,
               didn_num_dubs=2, didn_num_convs_recon=2, conv_hidden_channels=4, conv_n_convs=2)
    E.append(Entry("ConjGradNet/resnet-sense-FR/shared", "conjgradnet", "recon",
                   lambda: ConjGradNet(fwd, bwd, num_steps=3, denoiser_architecture="resnet", image_init="sense", cg_iters=3,
                                       no_parameter_sharing=False, **ckw), "image", Z._c_ksm, tags=("resnet", "cg", "shared"), tol=1e-3))
    vkw = {f"image_{k}": v for k, v in ckw.items()}
    vkw.update({f"kspace_{k}": v for k, v in ckw.items()})
    E.append(Entry("MRIVarSplitNet/conv-conv-sense/shared", "varsplitnet", "recon",
                   lambda: MRIVarSplitNet(fwd, bwd, num_steps_reg=3, num_steps_dc=2, image_init="sense", no_parameter_sharing=False,
                                          image_model_architecture="conv", kspace_no_parameter_sharing=False,
                                          kspace_model_architecture="conv", **vkw),
                   "image", Z._c_varsplit, tags=("conv", "k-conv", "shared")))
    skw = {f"image_{k}": v for k, v in ckw.items()}
    vs = dict(num_steps=3, num_steps_dc_gd=2, initializer_channels=(2, 2, 4), initializer_dilations=(1, 1, 2))
    E.append(Entry("VSharpNet/unet-sense/shared", "vsharp", "recon",
                   lambda: VSharpNet(fwd, bwd, image_init="sense", image_model_architecture="unet", no_parameter_sharing=False,
                                     initializer_multiscale=2, auxiliary_steps=-1, **vs, **skw), "image", Z._c_last_ksm, min_hw=u2,
                   tags=("unet", "shared")))
    E.append(Entry("VSharpNet/conv-sense/aux1-ms1-relu", "vsharp", "recon",
                   lambda: VSharpNet(fwd, bwd, image_init="sense", image_model_architecture="conv", initializer_multiscale=1,
                                     initializer_activation="relu", auxiliary_steps=1, **vs, **skw), "image", _c_first_ksm,
                   tags=("conv", "aux")))
    E.append(Entry("VSharpNet/resnet-zero_filled/aux2-leaky", "vsharp", "recon",
                   lambda: VSharpNet(fwd, bwd, image_init="zero_filled", image_model_architecture="resnet", initializer_multiscale=3,
                                     initializer_activation="leaky_relu", auxiliary_steps=2, **vs, **skw), "image", _c_first_ksm,
                   tags=("resnet", "aux")))
    # ---- IterDualNet: one normalised U-Net only
    ikw = dict(image_unet_num_filters=2, image_unet_num_pool_layers=2, kspace_unet_num_filters=2, kspace_unet_num_pool_layers=2)
    E.append(Entry("IterDualNet/image-normunet", "iterdualnet", "recon",
                   lambda: IterDualNet(fwd, bwd, num_iter=2, image_normunet=True, **ikw), "image", Z._c_kms, min_hw=both(nu, u2),
                   tags=("unet",)))
    E.append(Entry("IterDualNet/kspace-normunet-shared-image", "iterdualnet", "recon",
                   lambda: IterDualNet(fwd, bwd, num_iter=2, kspace_normunet=True, image_no_parameter_sharing=False, **ikw), "image",
                   Z._c_kms, min_hw=both(nu, u2), tags=("unet",), tol=1e-4))
    # ---- MultiCoil (both ways of handling the coil axis) and a hand-assembled CrossDomainNetwork
    E.append(Entry("MultiCoil/per-coil", "crossdomain", "recon", lambda: MultiCoil(Conv2d(2, 2, 4, n_convs=2)), "kspace", _c_multicoil_per_coil,
                   coil_invariant=False, tags=("conv", "multicoil")))
    E.append(Entry("MultiCoil/coil_to_batch", "crossdomain", "recon",
                   lambda: MultiCoil(UnetModel2d(2, 2, 2, 1, 0.0), coil_to_batch=True), "kspace", _c_multicoil, min_hw=unet_ok(1),
                   coil_invariant=False, tags=("unet", "multicoil")))

    def cross(seq, kmodels):
        n_i, n_k = seq.count("I"), seq.count("K")
        ims = nn.ModuleList([Conv2d(2 * (1 + 1), 2, 4, n_convs=2) for _ in range(n_i)])
        ks = nn.ModuleList([MultiCoil(Conv2d(2 * (1 + 1 + 1), 2, 4, n_convs=2)) for _ in range(n_k)]) if kmodels else None
        return CrossDomainNetwork(fwd, bwd, image_model_list=ims, kspace_model_list=ks, domain_sequence=seq)

    E.append(Entry("CrossDomainNetwork/IKIK", "crossdomain", "recon", lambda: cross("IKIK", True), "image", _c_crossdomain,
                   tags=("conv", "crossdomain")))
    E.append(Entry("CrossDomainNetwork/KII-nokmodel", "crossdomain", "recon", lambda: cross("KII", False), "image", _c_crossdomain,
                   tags=("conv", "crossdomain")))
    # ---- remaining architecture pairs (thorough tier)
    lpd_kw = dict(primal_mwcnn_hidden_channels=2, primal_mwcnn_num_scales=2, primal_unet_num_filters=2,
                  primal_unet_num_pool_layers=2, dual_conv_hidden_channels=4, dual_conv_n_convs=2,
                  dual_didn_hidden_channels=4, dual_didn_num_dubs=2, dual_didn_num_convs_recon=2, dual_unet_num_filters=2,
                  dual_unet_num_pool_layers=2)
    pm = {"MWCNN": mwcnn_ok(2), "UNET": u2, "NORMUNET": nu}
    dm = {"CONV": any_ok, "DIDN": didn_ok, "UNET": u2, "NORMUNET": nu}
    for p, d in [("MWCNN", "UNET"), ("MWCNN", "NORMUNET"), ("UNET", "CONV"), ("UNET", "NORMUNET"), ("NORMUNET", "DIDN"),
                 ("NORMUNET", "UNET")]:
        E.append(Entry(f"LPDNet/{p}-{d}", "lpd", "recon",
                       lambda p=p, d=d: LPDNet(fwd, bwd, num_iter=2, num_primal=3, num_dual=2, primal_model_architecture=p,
                                               dual_model_architecture=d, **lpd_kw),
                       "image", Z._c_ksm, min_hw=both(pm[p], dm[d]), tags=(p.lower(), d.lower()), tier="thorough"))
    kkw = dict(image_mwcnn_hidden_channels=2, image_mwcnn_num_scales=2, image_unet_num_filters=2, image_unet_num_pool_layers=2,
               kspace_conv_hidden_channels=4, kspace_conv_n_convs=2, kspace_didn_hidden_channels=4, kspace_didn_num_dubs=2,
               kspace_didn_num_convs_recon=2, kspace_unet_num_filters=2, kspace_unet_num_pool_layers=2)
    for im, ks in [("MWCNN", "CONV"), ("MWCNN", "UNET"), ("UNET", "DIDN"), ("UNET", "UNET"), ("UNET", "NORMUNET"),
                   ("NORMUNET", "CONV"), ("NORMUNET", "DIDN"), ("NORMUNET", "NORMUNET")]:
        E.append(Entry(f"KIKINet/{im}-{ks}", "kikinet", "recon",
                       lambda im=im, ks=ks: KIKINet(fwd, bwd, image_model_architecture=im, kspace_model_architecture=ks,
                                                   num_iter=3, **kkw),
                       "image", Z._c_kms, min_hw=both(pm[im], dm[ks]), tags=(im.lower(), ks.lower()), tier="thorough",
                       tol=1e-4 if "NORMUNET" in (im, ks) else 1e-5))
    return E


def recons3d() -> list[Entry]:
    from direct.nn.vsharp.vsharp import VSharpNet3D

    fwd, bwd = Z._ops()
    kw = dict(num_steps=2, num_steps_dc_gd=2, initializer_channels=(2, 2, 4), initializer_dilations=(1, 1, 2), unet_num_filters=2,
              unet_num_pool_layers=2)
    E = []
    E.append(Entry("VSharpNet3D/unet/zero_filled-shared", "vsharp", "recon3d",
                   lambda: VSharpNet3D(fwd, bwd, image_init="zero_filled", no_parameter_sharing=False, **kw), "image3d", Z._c_last_ksm,
                   min_zhw=unet3d_ok(2), tags=("unet3d", "shared")))
    E.append(Entry("VSharpNet3D/normunet/aux1-ms2", "vsharp", "recon3d",
                   lambda: VSharpNet3D(fwd, bwd, unet_norm=True, auxiliary_steps=1, initializer_multiscale=2, **kw), "image3d",
                   _c_first_ksm, min_zhw=normunet3d_ok(2), tags=("unet3d", "aux")))
    return E


# ----------------------------------------------------------------------------------------------------------------
class IterationWrap(nn.Module):
    """an engine's `_do_iteration` (no losses) as a module — for engines that do not have a `forward_function`
    (RIMEngine, CIRIMEngine): returns `DoIterationOutput.output_image`"""

    def __init__(self, engine, model, **extra):
        super().__init__()
        self.engine = [engine]
        self.model = model
        for k, v in extra.items():
            self.add_module(k, v)

    def forward(self, inputs):
        data = {k: (v.clone() if hasattr(v, "clone") else v) for k, v in inputs.items()}
        data["is_ssl"] = torch.zeros(data["masked_kspace"].shape[0], dtype=torch.bool)
        return self.engine[0]._do_iteration(data, loss_fns=None, regularizer_fns=None).output_image


def engines() -> list[Entry]:
    """engine paths missing from the shared zoo: RIM (one and two unrolled steps), CIRIM, vSHARP SSL / JSSL — thorough tier"""
    from direct.config.defaults import DefaultConfig
    from direct.nn.cirim.cirim import CIRIM
    from direct.nn.cirim.cirim_engine import CIRIMEngine
    from direct.nn.cirim.config import CIRIMConfig
    from direct.nn.rim.config import RIMConfig
    from direct.nn.rim.rim import RIM
    from direct.nn.rim.rim_engine import RIMEngine
    from direct.nn.unet.unet_2d import UnetModel2d
    from direct.nn.vsharp.vsharp import VSharpNet
    from direct.nn.vsharp.vsharp_engine import VSharpNetJSSLEngine, VSharpNetSSLEngine

    fwd, bwd = Z._ops()
    u1 = unet_ok(1)
    E: list[Entry] = []

    def sens():
        return {"sensitivity_model": UnetModel2d(2, 2, 2, 1, 0.0)}

    def add(name, build, min_hw=u1, out="auto", **kw):
        E.append(Entry(f"engine/{name}", "engine", "recon", build, out, lambda m, i: m(i), min_hw=min_hw, tags=("engine",),
                       tier="thorough", **kw))

    def rim_engine(steps, scale=None):
        cfg = DefaultConfig(model=RIMConfig(model_name="zoo", hidden_channels=4, length=2, depth=1, steps=steps,
                                            scale_loglikelihood=scale))
        model = RIM(fwd, bwd, hidden_channels=4, length=2, depth=1)
        extra = sens()
        eng = RIMEngine(cfg, model, "cpu", fwd, bwd, **extra)
        eng.ndim = 2
        return IterationWrap(eng, model, **extra)

    add("RIMEngine/steps1", lambda: rim_engine(1), out="image")
    add("RIMEngine/steps1-scaled", lambda: rim_engine(1, 2.0), out="image")
    add("RIMEngine/steps2", lambda: rim_engine(2), out="image")

    def cirim_engine():
        cfg = DefaultConfig(model=CIRIMConfig(model_name="zoo"))
        model = CIRIM(fwd, bwd, depth=2, time_steps=2, recurrent_hidden_channels=4, num_cascades=2)
        extra = sens()
        eng = CIRIMEngine(cfg, model, "cpu", fwd, bwd, **extra)
        eng.ndim = 2
        return IterationWrap(eng, model, **extra)

    add("CIRIMEngine", cirim_engine, out="mag")
    for cls in (VSharpNetSSLEngine, VSharpNetJSSLEngine):
        def build(cls=cls):
            from direct.config.defaults import ModelConfig
            cfg = DefaultConfig(model=ModelConfig(model_name="zoo"))
            model = VSharpNet(fwd, bwd, num_steps=2, num_steps_dc_gd=2, image_model_architecture="conv",
                              initializer_channels=(2, 2, 4), initializer_dilations=(1, 1, 2), auxiliary_steps=-1,
                              image_conv_hidden_channels=4, image_conv_n_convs=2)
            extra = sens()
            eng = cls(cfg, model, "cpu", fwd, bwd, **extra)
            eng.ndim = 2
            return IterationWrap(eng, model, **extra)
        add(cls.__name__, build, out="mag")
    return E


def schedule(e: Entry, m: nn.Module):
    """`zoo_common.schedule` + the learned initialiser of vSHARP (called once on the permuted SENSE image, before the ADMM steps)"""
    sch = Z.schedule(e, m)
    if sch is not None and e.name.split("/")[0] in ("VSharpNet", "VSharpNet3D"):
        mods, pre, body, iters = sch
        return [m.initializer] + list(mods), [(Z.IMAGE, 2, 2)] + list(pre), body, iters
    return sch


def sched_term(e: Entry, m: nn.Module):
    if e.name.split("/")[0] in ("VSharpNet", "VSharpNet3D"):
        return "Shapes.schedVSharp", m.num_steps
    return Z.sched_term(e, m)


def extra_zoo(thorough: bool = True) -> list[Entry]:
    entries = blocks() + blocks3d() + grus() + recons() + recons3d() + engines()
    return [e for e in entries if thorough or e.tier == "quick"]


def schedule_entries() -> list[Entry]:
    """the additional unrolled networks whose block schedule is translated (same families as in the shared zoo)"""
    return [e for e in recons() + recons3d() if e.name.split("/")[0] not in ("MultiCoil", "CrossDomainNetwork")]
