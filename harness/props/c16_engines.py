"""C16 — the accumulation property through more REAL engines: engines that override `_do_iteration` (RIM with
`model.steps = 2`, VSharpNet, the SSL / JSSL base engines through Unet2dSSLEngine / Unet2dJSSLEngine) and an engine with an additional model in
`self.models` (`sensitivity_model`) whose parameters share the optimiser.

`engine_check(kind, …)`: REAL `engine.train` with `gradient_steps = k` against, per window, the engine's own `_do_iteration`
on each batch separately (fresh gradients of *all* optimised modules), their mean, one optimiser step.
"""
from __future__ import annotations

import functools
import pathlib
import signal
from fractions import Fraction as Fr

import boot  # noqa: F401
import torch

from props import c16 as toy

KINDS = ("rim2", "unet_sens", "unet_ssl", "unet_jssl", "vsharp")


class XDS(torch.utils.data.Dataset):
    """8x8 two-coil items with boolean masks and the SSL split keys"""

    def __init__(self, n, seed, coils=2, h=8, w=8):
        g = torch.Generator().manual_seed(seed)
        self.items = []
        for i in range(n):
            mask = (torch.rand(1, 1, w, 1, generator=g) < 0.6).expand(1, h, w, 1).clone()
            mask[:, :, w // 2] = True
            inp = mask & (torch.rand(1, 1, w, 1, generator=g) < 0.7).expand(1, h, w, 1)
            inp[:, :, w // 2] = True
            tgt = mask & ~inp
            tgt[:, :, w // 2] = True
            ksp = torch.randn(coils, h, w, 2, generator=g)
            self.items.append({
                "masked_kspace": ksp * mask, "kspace": ksp * mask, "sensitivity_map": torch.randn(coils, h, w, 2, generator=g),
                "sampling_mask": mask, "input_sampling_mask": inp, "target_sampling_mask": tgt,
                "input_kspace": ksp * inp, "target_kspace": ksp * tgt, "target": torch.randn(h, w, generator=g).abs(),
                "scaling_factor": torch.tensor(1.0), "filename": "f", "slice_no": i,
                "is_ssl": torch.tensor(i % 3 != 0)})      # JSSL: supervised and self-supervised samples mixed
        self.ndim = 2
        self.volume_indices = {}

    def __len__(self):
        return len(self.items)

    def __getitem__(self, i):
        return dict(self.items[i])


def build(kind, seed, total, k, bs):
    from direct.config.defaults import DefaultConfig, FunctionConfig, LossConfig, TrainingConfig, ValidationConfig
    from direct.data.transforms import fft2, ifft2

    torch.manual_seed(seed)
    fwd, bwd = functools.partial(fft2, centered=True), functools.partial(ifft2, centered=True)
    models = {}
    losses = ["l1_loss", "l2_loss"]
    if kind == "rim2":
        from direct.nn.rim.config import RIMConfig
        from direct.nn.rim.rim import RIM
        from direct.nn.rim.rim_engine import RIMEngine as E
        mc = RIMConfig(steps=2)
        model = RIM(fwd, bwd, hidden_channels=4, length=2, depth=2, no_parameter_sharing=False)
    elif kind == "unet_sens":
        from direct.nn.unet.config import Unet2dConfig
        from direct.nn.unet.unet_2d import Unet2d, UnetModel2d
        from direct.nn.unet.unet_engine import Unet2dEngine as E
        mc = Unet2dConfig(num_filters=4, num_pool_layers=2, image_initialization="sense")
        model = Unet2d(fwd, bwd, num_filters=4, num_pool_layers=2, dropout_probability=0.0, image_initialization="sense")
        models = {"sensitivity_model": UnetModel2d(in_channels=2, out_channels=2, num_filters=2, num_pool_layers=1,
                                                   dropout_probability=0.0)}
    elif kind == "unet_ssl":
        from direct.nn.unet.config import Unet2dConfig
        from direct.nn.unet.unet_2d import Unet2d
        from direct.nn.unet.unet_engine import Unet2dSSLEngine as E
        mc = Unet2dConfig(num_filters=4, num_pool_layers=2, image_initialization="sense")
        model = Unet2d(fwd, bwd, num_filters=4, num_pool_layers=2, dropout_probability=0.0, image_initialization="sense")
        losses = ["l1_loss", "kspace_nmse_loss"]
    elif kind == "unet_jssl":
        from direct.nn.unet.config import Unet2dConfig
        from direct.nn.unet.unet_2d import Unet2d
        from direct.nn.unet.unet_engine import Unet2dJSSLEngine as E
        mc = Unet2dConfig(num_filters=4, num_pool_layers=2, image_initialization="sense")
        model = Unet2d(fwd, bwd, num_filters=4, num_pool_layers=2, dropout_probability=0.0, image_initialization="sense")
        losses = ["l1_loss", "kspace_nmse_loss"]
    elif kind == "vsharp":
        from direct.nn.vsharp.config import VSharpNetConfig
        from direct.nn.vsharp.vsharp import VSharpNet
        from direct.nn.vsharp.vsharp_engine import VSharpNetEngine as E
        mc = VSharpNetConfig()
        model = VSharpNet(fwd, bwd, num_steps=2, num_steps_dc_gd=2, image_unet_num_filters=4, image_unet_num_pool_layers=2,
                          image_init="sense", no_parameter_sharing=False, initializer_channels=(4, 4, 4, 4),
                          initializer_dilations=(1, 1, 2, 4), initializer_multiscale=1, auxiliary_steps=-1)
    else:
        raise ValueError(kind)
    tr = TrainingConfig(loss=LossConfig(losses=[FunctionConfig(n) for n in losses]))
    tr.num_iterations, tr.gradient_steps, tr.batch_size, tr.gradient_clipping = total, k, bs, 0.0
    tr.validation_steps = 10 ** 6
    tr.checkpointer.checkpoint_steps = 10 ** 6
    cfg = DefaultConfig(training=tr, validation=ValidationConfig(crop=None), model=mc)
    return E, cfg, model, models, fft2, ifft2


def _flat(mods):
    return torch.cat([p.detach().reshape(-1) for m in mods for p in m.parameters()]).clone()


def engine_check(kind, k, total, bs, opt_kind, seed):
    """→ (max abs deviation, first bad iteration | None, moved?: per module)"""
    sched = {"kind": "multistep", "milestones": [3], "gamma": Fr(1, 2), "wf": Fr(1, 2), "warmup_iters": 2,
             "method": "linear", "base": Fr(1, 64)}
    ds = XDS(7, seed)

    def mkopt(mods):
        params = [p for m in mods for p in m.parameters()]
        if opt_kind == "adam":
            return torch.optim.Adam(params, lr=float(sched["base"]))
        return torch.optim.SGD(params, lr=float(sched["base"]), momentum=0.5)

    E, cfg, model, models, f, b = build(kind, seed, total, k, bs)
    mods = [model] + list(models.values())
    o = mkopt(mods)
    s = toy.make_scheduler(o, sched)
    records = []

    class Recording(type(s)):
        def step(self, *a, **kw):
            r = super().step(*a, **kw)
            records.append((_flat(mods), o.param_groups[0]["lr"]))
            return r

    s.__class__ = Recording
    eng = toy._seq_engine(E)(cfg, model, "cpu", f, b, **models)
    initial = [_flat([m]) for m in mods]
    with toy.scratch_dir() as d:
        try:
            eng.train(o, s, [ds], pathlib.Path(d), resume=False, num_workers=0)
        finally:
            signal.signal(signal.SIGINT, signal.default_int_handler)
    if total >= k:
        for m, init in zip(mods, initial):
            if float((_flat([m]) - init).abs().max()) == 0.0:
                raise RuntimeError(f"{kind}: the real run did not move the parameters of {type(m).__name__} — vacuous")
    # reference
    E, cfg, rmodel, rmodels, f, b = build(kind, seed, total, k, bs)
    rmods = [rmodel] + list(rmodels.values())
    ro = mkopt(rmods)
    reng = E(cfg, rmodel, "cpu", f, b, **rmodels)
    signal.signal(signal.SIGINT, signal.default_int_handler)
    reng.ndim = 2
    for m in rmods:
        m.train()
    loss_fns = reng.build_loss()
    loader = iter(torch.utils.data.DataLoader(ds, batch_sampler=toy._SeqBatches(len(ds), bs, 0), num_workers=0))
    rparams = [p for m in rmods for p in m.parameters()]
    worst, bad, window = 0.0, None, []
    for it in range(total):
        for p in rparams:
            p.grad = None
        reng._do_iteration(next(loader), loss_fns, regularizer_fns={})
        window.append([None if p.grad is None else p.grad.detach().clone() for p in rparams])
        if (it + 1) % k == 0:
            for j, p in enumerate(rparams):
                gs = [w[j] for w in window if w[j] is not None]
                if gs:
                    acc = gs[0].clone()
                    for g in gs[1:]:
                        acc = acc + g
                    p.grad = acc / k if k > 1 else acc
                else:
                    p.grad = None
            window = []
            for grp in ro.param_groups:
                grp["lr"] = float(toy.lr_closed_form(sched, it))
            ro.step()
        if it >= len(records):
            return float("inf"), it
        dev = float((records[it][0] - _flat(rmods)).abs().max())
        worst = max(worst, dev)
        scale = float(_flat(rmods).abs().max())
        if bad is None and (dev > 1e-5 * max(scale, 1.0)
                            or abs(records[it][1] - float(toy.lr_closed_form(sched, it + 1))) > 1e-12):
            bad = it
    return worst, bad
