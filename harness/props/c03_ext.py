"""C03 phase 3 — oracle extensions: dtype / layout / size ladders, aliasing, call histories on persistent objects
(object-keyed and version-keyed caches), rarely used options and wrappers (ApplyMask wrapper, ApplyZeroPadding keys,
CreateSamplingMask options, tuple seeds), the hard data-consistency step of the SSL / JSSL engines, and the
multiplicative ACS sites of the data pipeline.  Everything is stated directly on the real code, on bit patterns."""
from __future__ import annotations

import itertools

import boot  # noqa: F401
import numpy as np
import torch

from core import Ctx, Violation, err_name

LADDER = [8, 9, 16, 17, 20, 33]
_INT_OF = {torch.float16: torch.int16, torch.bfloat16: torch.int16, torch.float32: torch.int32, torch.float64: torch.int64}
K_DTYPES = {"float16": torch.float16, "bfloat16": torch.bfloat16, "float32": torch.float32, "float64": torch.float64}
M_DTYPES = {"bool": torch.bool, "uint8": torch.uint8, "int8": torch.int8, "int16": torch.int16, "int32": torch.int32,
            "int64": torch.int64, "float16": torch.float16, "bfloat16": torch.bfloat16, "float32": torch.float32,
            "float64": torch.float64}
F32MAX = 3.4028234663852886e38


def B():
    from . import c03
    return c03


# --------------------------------------------------------------------------------------------------
# bit-level helpers for every dtype
def bits(t: torch.Tensor) -> np.ndarray:
    t = t.detach().contiguous()
    if t.dtype in _INT_OF:
        return t.view(_INT_OF[t.dtype]).numpy().copy()
    if t.dtype == torch.bool:
        return t.to(torch.uint8).numpy().copy()
    return t.numpy().copy()


def nonzero(m) -> np.ndarray:
    """`m != 0` computed without torch comparisons (exact conversion to float64 / int64)"""
    if isinstance(m, np.ndarray):
        return m != 0
    m = m.detach()
    if m.dtype.is_floating_point:
        return m.to(torch.float64).contiguous().numpy() != 0
    return m.to(torch.int64).contiguous().numpy() != 0


def expected(kbits: np.ndarray, kshape, sup: np.ndarray):
    shape = np.broadcast_shapes(tuple(sup.shape), tuple(kshape))
    return np.where(np.broadcast_to(sup, shape), np.broadcast_to(kbits, shape), 0)


def rep_tensor(t: torch.Tensor) -> dict:
    name = str(t.dtype).replace("torch.", "")
    if t.dtype in _INT_OF:
        return {"shape": list(t.shape), "dtype": name, "bits": bits(t).reshape(-1).tolist()}
    return {"shape": list(t.shape), "dtype": name, "values": [int(v) for v in t.reshape(-1).tolist()]}


def from_rep(r: dict) -> torch.Tensor:
    dt = getattr(torch, r["dtype"])
    if "bits" in r:
        return torch.tensor(r["bits"], dtype=_INT_OF[dt]).view(dt).reshape(r["shape"])
    return torch.tensor(r["values"], dtype=torch.int64).reshape(r["shape"]).to(dt)


def rand_values(rng, shape, dtype=torch.float32, specials=True) -> torch.Tensor:
    """NaN-free values of any float dtype: normal numbers over many magnitudes, ±0, ±inf, dtype extremes, subnormals"""
    n = int(np.prod(shape))
    g = torch.Generator().manual_seed(rng.randrange(2 ** 31))
    k = (torch.randn(n, generator=g, dtype=torch.float64) * (10.0 ** rng.choice([-3, 0, 0, 2]))).to(dtype)
    if specials and n:
        fi = torch.finfo(dtype)
        pool = [-0.0, 0.0, float("inf"), float("-inf"), fi.max, -fi.max, fi.tiny, -fi.tiny]
        for _ in range(rng.randint(0, max(1, n // 3))):
            k[rng.randrange(n)] = rng.choice(pool)
    k = torch.where(torch.isnan(k), torch.zeros((), dtype=dtype), k)
    return k.reshape(shape).clone()


def rand_mask(rng, shape, dtype_name, pattern=None) -> torch.Tensor:
    pattern = pattern or rng.choice(["random", "random", "sparse", "ones", "zeros", "values"])
    n = int(np.prod(shape)) if len(shape) else 1
    dt = M_DTYPES[dtype_name]
    if pattern == "zeros":
        v = [0.0] * n
    elif pattern == "ones":
        v = [1.0] * n
    elif pattern == "sparse":
        v = [1.0 if rng.random() < 0.2 else 0.0 for _ in range(n)]
    elif pattern == "values":
        if dt == torch.bool:
            pool = [0, 1]
        elif dt.is_floating_point:
            pool = [0.0, -0.0, 1.0, -1.0, 0.5, 2.0, float("inf"), float("-inf"), torch.finfo(dt).tiny]
        else:
            pool = [0, 1, 2, torch.iinfo(dt).max, torch.iinfo(dt).min]
        v = [rng.choice(pool) for _ in range(n)]
    else:
        v = [float(rng.choice([0, 1])) for _ in range(n)]
    if dt.is_floating_point or dt == torch.bool:
        m = torch.tensor(v, dtype=torch.float64).reshape(shape)
        return (m != 0) if dt == torch.bool else m.to(dt)
    return torch.tensor([int(x) for x in v], dtype=torch.int64).reshape(shape).to(dt)   # (int pools stay exact integers)


def canonical_mask_shape(rng, kshape):
    s = [1] * len(kshape)
    s[-2], s[-3] = kshape[-2], kshape[-3]
    if rng.random() < 0.3:
        s[0] = kshape[0]
    if len(kshape) >= 5 and rng.random() < 0.3:
        s[-4] = kshape[-4]          # per-slice / per-frame pattern (dynamic masks)
    return s


# --------------------------------------------------------------------------------------------------
# the callables under test, behind one signature  f(k, m) -> masked
def mask_vias():
    import direct.data.transforms as T
    from direct.data import mri_transforms as MT

    persistent_mod = MT.ApplyMaskModule()
    persistent_wrap = MT.ApplyMask()
    custom = MT.ApplyMask(sampling_mask_key="msk", input_kspace_key="ksp_in", target_kspace_key="ksp_out")

    def via_custom(k, m):
        s = {"ksp_in": k, "msk": m, "kspace": torch.full_like(k, 7.0), "masked_kspace": torch.full_like(k, 9.0),
             "sampling_mask": torch.ones_like(m)}
        o = custom(s)
        if not torch.equal(o["kspace"], torch.full_like(k, 7.0)) or not torch.equal(o["masked_kspace"], torch.full_like(k, 9.0)):
            raise AssertionError("default-named keys were touched by a module configured with custom keys")
        return o["ksp_out"]

    return {
        "apply_mask": lambda k, m: T.apply_mask(k, m, return_mask=False),
        "tuple": lambda k, m: T.apply_mask(k, m)[0],
        "tuple-kw": lambda k, m: T.apply_mask(kspace=k, mask_func=m, seed=None, return_mask=True)[0],
        "module": lambda k, m: MT.ApplyMaskModule()({"kspace": k, "sampling_mask": m})["masked_kspace"],
        "module-persistent": lambda k, m: persistent_mod({"kspace": k, "sampling_mask": m})["masked_kspace"],
        "wrapper": lambda k, m: persistent_wrap({"kspace": k, "sampling_mask": m})["masked_kspace"],
        "wrapper-custom-keys": via_custom,
    }


def check_masked(out, kbits, kshape, kdtype, sup, what="apply_mask"):
    """-> (key, text) | None : `out` must be where(sup, k, +0) bit for bit, of k's dtype"""
    if not isinstance(out, torch.Tensor):
        return f"{what}-not-a-tensor", f"{what} returned {type(out).__name__}"
    if out.dtype != kdtype:
        return f"{what}-dtype", f"{what}: output dtype {out.dtype} != k-space dtype {kdtype}"
    exp = expected(kbits, kshape, sup)
    ob = bits(out)
    if ob.shape != exp.shape:
        return f"{what}-shape", f"{what}: output shape {list(ob.shape)} != broadcast shape {list(exp.shape)}"
    bsup = np.broadcast_to(sup, exp.shape)
    if (ob[bsup] != exp[bsup]).any():
        return f"{what}-alters-sampled", f"{what}: a sampled k-space entry is not bit-identical in the masked k-space"
    if (ob[~bsup] != 0).any():
        return f"{what}-unsampled-nonzero", f"{what}: an unsampled position of the masked k-space is not exactly +0"
    return None


def noncontiguous(rng, t: torch.Tensor):
    """a tensor with the same values but another memory layout (kind, tensor)"""
    kind = rng.choice(["permuted", "strided", "offset", "contiguous"])
    if kind == "permuted" and t.dim() >= 2:
        perm = list(range(t.dim()))
        rng.shuffle(perm)
        inv = [perm.index(i) for i in range(t.dim())]
        return kind, t.permute(perm).contiguous().permute(inv)
    if kind == "strided" and t.dim() >= 1:
        ax = rng.randrange(t.dim())
        big = torch.zeros([n * 2 if i == ax else n for i, n in enumerate(t.shape)], dtype=t.dtype)
        if big.dtype.is_floating_point:
            big.fill_(float("inf"))
        idx = [slice(None)] * t.dim()
        idx[ax] = slice(None, None, 2)
        big[tuple(idx)] = t
        return kind, big[tuple(idx)]
    if kind == "offset":
        flat = torch.zeros(t.numel() + 3, dtype=t.dtype)
        flat[3:] = t.reshape(-1)
        return kind, flat[3:].reshape(t.shape)
    return "contiguous", t.clone()


# --------------------------------------------------------------------------------------------------
def oracle_functional(ctx: Ctx, deep: bool):
    """apply_mask / ApplyMaskModule / ApplyMask wrapper / apply_padding over dtypes, layouts, size ladders; aliasing."""
    import direct.data.transforms as T

    rng = ctx.rng
    vias = mask_vias()
    n = ctx.budget(220, 3000) * (3 if deep else 1)
    for i in range(n):
        r = rng.random()
        if r < 0.35:      # size ladder on one axis, everything else tiny
            rank = rng.choice([4, 4, 5, 6])
            kshape = [rng.choice([1, 2, 3]) for _ in range(rank - 1)] + [2]
            ax = rng.randrange(rank - 1)
            kshape[ax] = rng.choice(LADDER)
            fam = f"ladder/axis{ax - rank}"
        elif r < 0.45:    # zero-size axis
            kshape = [rng.choice([0, 1, 2, 3]) for _ in range(rng.choice([3, 4]))] + [2]
            fam = "zero-size" if 0 in kshape else "small"
        else:
            kshape = B().gen_kshape(rng)[1]
            fam = "small"
        kdn = rng.choice(["float32", "float32", "float64", "float16", "bfloat16"])
        mdn = rng.choice(list(M_DTYPES))
        mshape = canonical_mask_shape(rng, kshape) if rng.random() < 0.5 and len(kshape) >= 4 else B().gen_mask_shape(rng, kshape)[1]
        try:
            np.broadcast_shapes(tuple(mshape), tuple(kshape))
        except ValueError:
            continue
        k0 = rand_values(rng, kshape, K_DTYPES[kdn])
        m0 = rand_mask(rng, mshape, mdn)
        lk, k = noncontiguous(rng, k0)
        lm, m = noncontiguous(rng, m0)
        via = rng.choice(list(vias))
        sup = nonzero(m0)
        kb, mb = bits(k0), bits(m0)
        nontrivial = bool(sup.any() and (~sup).any()) and k0.numel() >= 4
        ctx.count(("x-func", i, tuple(kshape), tuple(mshape), kdn, mdn, via), nontrivial, bucket=f"oracle/functional/{fam}/{kdn}/{mdn}")
        ctx.hist[f"oracle/layout/k={lk}/m={lm}"] = ctx.hist.get(f"oracle/layout/k={lk}/m={lm}", 0) + 1
        rep = {"op": "x_apply_mask", "via": via, "kspace": rep_tensor(k0), "mask": rep_tensor(m0), "layout": [lk, lm]}
        try:
            with (torch.no_grad() if rng.random() < 0.5 else torch.enable_grad()):
                out = vias[via](k, m)
            res = check_masked(out, kb, kshape, k0.dtype, sup, via)
            if res is None and ((bits(k) != kb).any() or (bits(m) != mb).any()):
                res = (f"{via}-mutates-input", f"{via} modified its k-space or mask argument in place")
            if res is None and out.numel():
                # aliasing: writing into the result must not reach the input and vice versa (all-true masks included)
                snap = bits(out)
                if out.dtype.is_floating_point:
                    out.detach().mul_(2).add_(1)
                if (bits(k) != kb).any():
                    res = (f"{via}-aliases-input", f"{via}: the masked k-space shares memory with the input k-space "
                                                   f"(an in-place update of the result changed the input)")
                else:
                    out2 = vias[via](k, m)
                    k.detach().mul_(0).add_(3)
                    if (bits(out2) != snap).any():
                        res = (f"{via}-aliases-input", f"{via}: the masked k-space shares memory with the input k-space "
                                                       f"(an in-place update of the input changed the result)")
        except Exception as e:  # noqa: BLE001
            res = (f"{via}-raises", f"{via} raises {err_name(e)}: {str(e)[:160]} (k {kdn}{kshape}, mask {mdn}{mshape})")
        if res:
            yield Violation(res[0], res[1], rep)
    # ---- returned mask (return_mask=True) with a tensor mask: the given mask, unchanged
    for i in range(ctx.budget(30, 300)):
        kshape = B().gen_kshape(rng, 60)[1]
        mdn = rng.choice(list(M_DTYPES))
        m0 = rand_mask(rng, canonical_mask_shape(rng, kshape), mdn)
        k0 = rand_values(rng, kshape)
        ctx.count(("x-retmask", i, tuple(kshape), mdn), True, bucket="oracle/return-mask")
        m = m0.clone()
        try:
            out, mret = T.apply_mask(k0.clone(), m)
            bad = mret.dtype != m0.dtype or mret.shape != m0.shape or (bits(mret) != bits(m0)).any() or (bits(m) != bits(m0)).any()
        except Exception:  # noqa: BLE001
            bad = True
        if bad:
            yield Violation("apply_mask-returned-mask", "apply_mask(kspace, mask_tensor) does not return the given mask unchanged",
                            {"op": "x_retmask", "kspace": rep_tensor(k0), "mask": rep_tensor(m0)})
    # ---- apply_padding / ApplyZeroPadding (key options) on k-space of every dtype and on boolean / integer masks
    from direct.data.mri_transforms import ApplyZeroPadding

    for i in range(ctx.budget(120, 1500)):
        dshape = B().gen_kshape(rng, 100)[1]
        if rng.random() < 0.3:
            dshape[rng.randrange(len(dshape) - 1)] = rng.choice(LADDER)
        ddn = rng.choice(["float32", "float32", "float64", "float16", "bool", "int64", "uint8"])
        pdn = rng.choice(list(M_DTYPES))
        pshape = [dshape[0], 1] + dshape[2:-1] + [1] if rng.random() < 0.6 else B().gen_mask_shape(rng, dshape)[1]
        try:
            oshape = np.broadcast_shapes(tuple(pshape), tuple(dshape))
        except ValueError:
            continue
        d0 = rand_values(rng, dshape, K_DTYPES[ddn]) if ddn in K_DTYPES else rand_mask(rng, dshape, ddn, "random")
        p0 = rand_mask(rng, pshape, pdn, rng.choice(["random", "sparse", "ones", "zeros", "values"]))
        isone = p0.to(torch.float64).numpy() == 1 if p0.dtype != torch.bool else p0.numpy()
        _, d = noncontiguous(rng, d0)
        _, p = noncontiguous(rng, p0)
        via = rng.choice(["apply_padding", "ApplyZeroPadding", "ApplyZeroPadding-custom-keys"])
        ctx.count(("x-pad", i, tuple(dshape), ddn, pdn, via), bool(isone.any() and (~isone).any()), bucket=f"oracle/padding/{via}/{ddn}/{pdn}")
        rep = {"op": "x_apply_padding", "via": via, "data": rep_tensor(d0), "padding": rep_tensor(p0)}
        try:
            if via == "apply_padding":
                out = T.apply_padding(d, p)
            elif via == "ApplyZeroPadding":
                out = ApplyZeroPadding()({"kspace": d, "padding": p, "masked_kspace": d0.clone()})["kspace"]
            else:
                other = d0.clone()
                s = ApplyZeroPadding(kspace_key="masked_kspace", padding_key="pad2")({"masked_kspace": d, "pad2": p, "kspace": other,
                                                                                     "padding": torch.ones_like(p)})
                out = s["masked_kspace"]
                if s["kspace"] is not other or (bits(other) != bits(d0)).any():
                    raise AssertionError("ApplyZeroPadding(kspace_key='masked_kspace') touched sample['kspace']")
            exp = np.where(np.broadcast_to(isone, oshape), 0, np.broadcast_to(bits(d0), oshape))
            ob = bits(out)
            bad = out.dtype != d0.dtype or ob.shape != exp.shape or (ob != exp).any() or (bits(d) != bits(d0)).any() or (bits(p) != bits(p0)).any()
            res = ("apply_padding-not-where", f"{via}: result is not where(padding == 1, +0, data) bit for bit "
                                              f"(data {ddn}{dshape}, padding {pdn}{pshape})") if bad else None
        except Exception as e:  # noqa: BLE001
            res = ("apply_padding-raises", f"{via} raises {err_name(e)}: {str(e)[:160]}")
        if res:
            yield Violation(res[0], res[1], rep)


# --------------------------------------------------------------------------------------------------
# call histories on persistent objects: caches keyed by tensor object / data_ptr / _version / shape must not exist
WRITE_MODES = ["inplace", "numpy", "dotdata"]


def _write(t: torch.Tensor, rng, mode: str, is_mask: bool, finite_only: bool = False):
    """modify `t` in place through the normal API, through shared numpy memory, or through `.data` (the last two
    do not bump the autograd version counter)"""
    n = t.numel()
    if n == 0:
        return
    idx = sorted(set(rng.randrange(n) for _ in range(max(1, n // 3))))
    flat = t.reshape(-1) if t.is_contiguous() else None
    if flat is None:
        return
    if is_mask:
        new = [(0 if bool(flat[j] != 0) else 1) for j in idx]
    else:
        pool = [-0.0, 5.0, -7.0, 0.0, 123.0] + ([] if finite_only else [float("inf"), float("-inf")])
        new = [rng.choice(pool) for _ in idx]
    if mode == "inplace":
        for j, v in zip(idx, new):
            flat[j] = v
    elif mode == "numpy" and t.dtype != torch.bfloat16:
        a = t.numpy().reshape(-1)
        for j, v in zip(idx, new):
            a[j] = v
    else:
        d = t.data.reshape(-1)
        for j, v in zip(idx, new):
            d[j] = v


def history_subjects():
    """name -> (make() -> callable(k, m, aux) -> tensor, reference(k, m, aux) -> bits, kind)"""
    import direct.data.transforms as T
    from direct.data import mri_transforms as MT
    from direct.nn.conjgradnet.conjgrad import ConjGrad
    from direct.nn.rim.rim import MRILogLikelihood

    def where_ref(k, m):
        sup = nonzero(m)
        shape = np.broadcast_shapes(tuple(sup.shape), tuple(k.shape))
        e = expected(bits(k), k.shape, sup)
        return torch.from_numpy(np.ascontiguousarray(e)).view(k.dtype).reshape(shape)

    eng = B().toy_engine()

    def eng_ops():
        eng.forward_operator, eng.backward_operator = T.fft2, T.ifft2
        return eng

    subs = {
        "apply_mask": (lambda: (lambda k, m, aux: T.apply_mask(k, m, return_mask=False)),
                       lambda k, m, aux: bits(where_ref(k, m))),
        "apply_mask-tuple": (lambda: (lambda k, m, aux: T.apply_mask(k, m)[0]), lambda k, m, aux: bits(where_ref(k, m))),
        "ApplyMaskModule": (lambda: (lambda mod: (lambda k, m, aux: mod({"kspace": k, "sampling_mask": m})["masked_kspace"]))(MT.ApplyMaskModule()),
                            lambda k, m, aux: bits(where_ref(k, m))),
        "ApplyMaskModule-same-dict": (lambda: (lambda mod, d: (lambda k, m, aux: mod(_upd(d, k, m))["masked_kspace"]))(MT.ApplyMaskModule(), {}),
                                      lambda k, m, aux: bits(where_ref(k, m))),
        "ApplyMask-wrapper": (lambda: (lambda mod: (lambda k, m, aux: mod({"kspace": k, "sampling_mask": m})["masked_kspace"]))(MT.ApplyMask()),
                              lambda k, m, aux: bits(where_ref(k, m))),
        "apply_padding": (lambda: (lambda k, m, aux: T.apply_padding(k, m)),
                          lambda k, m, aux: np.where(np.broadcast_to((m.to(torch.float64).numpy() == 1), k.shape), 0, bits(k))),
        "engine._forward_operator": (lambda: (lambda k, m, aux: eng_ops()._forward_operator(aux["x"], aux["S"], m)),
                                     lambda k, m, aux: bits(where_ref(T.fft2(T.expand_operator(aux["x"], aux["S"], dim=1), dim=(2, 3)), m))),
        "engine._backward_operator": (lambda: (lambda k, m, aux: eng_ops()._backward_operator(k, aux["S"], m)),
                                      lambda k, m, aux: bits(T.reduce_operator(T.ifft2(where_ref(k, m), dim=(2, 3)), aux["S"], dim=1))),
        "ConjGrad._A_star_op": (lambda: _with_module(ConjGrad(T.fft2, T.ifft2), lambda cg: (lambda k, m, aux: cg._A_star_op(k, aux["S"], m))),
                                lambda k, m, aux: bits(T.reduce_operator(T.ifft2(where_ref(k, m), dim=(2, 3)), aux["S"], dim=1))),
        "MRILogLikelihood": (lambda: _with_module(MRILogLikelihood(T.fft2, T.ifft2),
                                                  lambda ll: (lambda k, m, aux: ll(aux["x"].permute(0, 3, 1, 2), k, aux["S"], m))),
                             lambda k, m, aux: bits(MRILogLikelihood(T.fft2, T.ifft2)(aux["x"].clone().permute(0, 3, 1, 2), k.clone(),
                                                                                      aux["S"].clone(), m.clone()))),
    }
    return subs


def _with_module(mod, wrap):
    f = wrap(mod)
    f.module = mod
    return f


def _upd(d, k, m):
    d["kspace"], d["sampling_mask"] = k, m
    return d


HISTORY_STEPS = ["same-k-new-mask", "same-mask-new-k", "write-k", "write-mask", "realloc-k", "realloc-mask", "same-all", "new",
                 "toggle-mode"]


def run_history(name: str, seed: int):
    """-> (key, text, trace) | None"""
    import random

    rng = random.Random(f"c03-hist-{name}-{seed}")
    make, ref = history_subjects()[name]
    b, c, h, w = rng.choice([1, 2]), rng.choice([1, 2, 3, rng.choice(LADDER)]), rng.choice([2, 3, 4]), rng.choice([2, 3, 5])
    kshape = [b, c, h, w, 2]
    mshape = rng.choice([[b, 1, h, w, 1], [1, 1, h, w, 1], [1, 1, 1, w, 1]])
    mdn = rng.choice(["bool", "bool", "uint8", "int64", "float32"])
    exact = name in ("apply_mask", "apply_mask-tuple", "ApplyMaskModule", "ApplyMaskModule-same-dict", "ApplyMask-wrapper", "apply_padding")
    newk = lambda: rand_values(rng, kshape, specials=exact)  # noqa: E731
    newm = lambda: rand_mask(rng, mshape, mdn, rng.choice(["random", "random", "sparse", "ones", "values"]))  # noqa: E731
    aux = {"x": rand_values(rng, [b, h, w, 2], specials=False), "S": rand_values(rng, kshape, specials=False)}
    f = make()
    k, m = newk(), newm()
    trace = []
    steps = ["new"] + [rng.choice(HISTORY_STEPS) for _ in range(rng.randint(3, 6))]
    for step in steps:
        if step == "same-k-new-mask":
            m = newm()
        elif step == "same-mask-new-k":
            k = newk()
        elif step == "write-k":
            mode = rng.choice(WRITE_MODES)
            _write(k, rng, mode, False, finite_only=not exact)
            step += "/" + mode
        elif step == "write-mask":
            mode = rng.choice(WRITE_MODES)
            _write(m, rng, mode, True)
            step += "/" + mode
        elif step == "realloc-k":
            k = None
            k = newk()
        elif step == "realloc-mask":
            m = None
            m = newm()
        elif step == "new":
            k, m = newk(), newm()
        elif step == "toggle-mode":
            for obj in (B().toy_engine().model, getattr(f, "module", None)):
                if obj is not None:
                    obj.train(not obj.training)
        trace.append(step)
        kb = bits(k)
        try:
            with torch.no_grad():
                out = f(k, m, aux)
                exp = ref(k.clone(), m.clone(), {a: v.clone() for a, v in aux.items()})
        except Exception as e:  # noqa: BLE001
            return f"history-{name}-raises", f"{name} raises {err_name(e)} after the call history {trace}: {str(e)[:120]}", trace
        ob = bits(out)
        if ob.shape != exp.shape or (ob != exp).any():
            try:                                  # is it the history, or is a single fresh call on copies wrong as well?
                with torch.no_grad():
                    f2 = make()
                    if getattr(f2, "module", None) is not None:
                        f2.module.train(f.module.training)
                    o2 = bits(f2(k.clone(), m.clone(), {a: v.clone() for a, v in aux.items()}))
                fresh_wrong = o2.shape != exp.shape or bool((o2 != exp).any())
            except Exception:  # noqa: BLE001
                fresh_wrong = True
            if fresh_wrong:
                return (f"history-{name}-wrong-result",
                        f"{name}: k-space {kshape}, mask {mdn}{mshape}, engine model training={B().toy_engine().model.training}: the result is "
                        f"not where(mask == 0, +0, ·) composed with the unmasked operators (also on a fresh call with copies of the inputs)",
                        trace)
            return (f"history-{name}-stale-state",
                    f"{name}: after the call history {trace} the result is not the masked quantity of the CURRENT k-space and mask "
                    f"(state kept between calls — e.g. a cache keyed by tensor object, address or version counter)", trace)
        if (bits(k) != kb).any():
            return f"history-{name}-mutates-input", f"{name} modified its k-space argument in place (history {trace})", trace
    return None


def oracle_histories(ctx: Ctx, deep: bool):
    rng = ctx.rng
    names = list(history_subjects())
    for name in names:
        for j in range(ctx.budget(6, 60) * (3 if deep else 1)):
            seed = rng.randrange(2 ** 30)
            ctx.count(("x-hist", name, seed), True, bucket=f"oracle/history/{name}")
            r = run_history(name, seed)
            if r:
                yield Violation(r[0], r[1], {"op": "x_history", "subject": name, "seed": seed, "steps": r[2]})


# --------------------------------------------------------------------------------------------------
# mask given as a mask function: seeds (None, 0, ints, tuples as CreateSamplingMask passes them), return_mask, 3-D / per-frame
# masks; CreateSamplingMask (+ padding) -> ApplyMask as in the pipeline
class RecordingMaskFunc:
    def __init__(self, inner):
        self.inner, self.calls = inner, []

    def __call__(self, *a, **kw):
        self.calls.append((a, dict(kw)))
        return self.inner(*a, **kw)


def frame_pattern(shape, seed=None, return_acs=False):
    """a deterministic custom mask function with a different pattern per slice / frame"""
    shape = [int(s) for s in shape]
    h, w = shape[-3], shape[-2]
    s = 0 if seed is None else (sum(seed) if isinstance(seed, (tuple, list)) else int(seed))
    if return_acs:
        m = torch.zeros(h, w, dtype=torch.bool)
        m[:, w // 2] = True
        return m.reshape([1] * (len(shape) - 3) + [h, w, 1])
    if len(shape) >= 4:
        t = shape[-4]
        m = torch.tensor([[[(i * 3 + j + f + s) % 3 != 0 for j in range(w)] for i in range(h)] for f in range(t)], dtype=torch.bool)
        m[:, :, w // 2] = True
        return m.reshape([1] * (len(shape) - 4) + [t, h, w, 1])
    m = torch.tensor([[(i * 3 + j + s) % 3 != 0 for j in range(w)] for i in range(h)], dtype=torch.bool)
    m[:, w // 2] = True
    return m.reshape([1] * (len(shape) - 3) + [h, w, 1])


def mask_func_factories():
    from direct.common.subsample import (FastMRIEquispacedMaskFunc, FastMRIMagicMaskFunc, FastMRIRandomMaskFunc,
                                         Gaussian1DMaskFunc)
    return [("FastMRIRandom", lambda: FastMRIRandomMaskFunc(accelerations=[2], center_fractions=[0.25])),
            ("FastMRIEquispaced", lambda: FastMRIEquispacedMaskFunc(accelerations=[3], center_fractions=[0.2])),
            ("FastMRIMagic", lambda: FastMRIMagicMaskFunc(accelerations=[2], center_fractions=[0.25])),
            ("Gaussian1D", lambda: Gaussian1DMaskFunc(accelerations=[2], center_fractions=[0.2])),
            ("frame_pattern", lambda: frame_pattern)]


def gen_seed(rng):
    r = rng.random()
    if r < 0.15:
        return None
    if r < 0.35:
        return 0
    if r < 0.55:
        return tuple(map(ord, rng.choice(["file_1.h5", "a", "vol_00017.h5", "\x00"])))
    if r < 0.65:
        return rng.choice([(0,), (0, 0), (1, 2, 3)])
    return rng.choice([1, 7, 123456, rng.randrange(2 ** 31)])


def _seed_eq(a, b):
    if a is None or b is None:
        return a is None and b is None
    ta, tb = isinstance(a, (tuple, list)), isinstance(b, (tuple, list))
    if ta != tb:
        return False
    return tuple(int(x) for x in a) == tuple(int(x) for x in b) if ta else int(a) == int(b)


def oracle_mask_func(ctx: Ctx, deep: bool):
    import direct.data.transforms as T
    from direct.data import mri_transforms as MT

    rng = ctx.rng
    facs = mask_func_factories()
    for i in range(ctx.budget(60, 800) * (2 if deep else 1)):
        name, fac = rng.choice(facs)
        c = rng.choice([1, 2, 3, rng.choice(LADDER)])
        h, w = rng.choice([4, 5, 6, 8]), rng.choice([6, 7, 8, 10])
        three_d = rng.random() < 0.4
        kshape = [c, rng.choice([1, 2, 3]), h, w, 2] if three_d else [c, h, w, 2]
        seed = gen_seed(rng)
        if seed is None and name != "frame_pattern":
            seed = 0
        k0 = rand_values(rng, kshape)
        style = rng.choice(["positional", "keyword", "return_mask=False"])
        ctx.count(("x-mf", i, name, tuple(kshape), repr(seed), style), True,
                  bucket=f"oracle/maskfunc/{name}/{'3d' if three_d else '2d'}/seed={type(seed).__name__ if seed != 0 else 'zero'}/{style}")
        rep = {"op": "x_mask_func", "gen": name, "kspace": rep_tensor(k0), "seed": list(seed) if isinstance(seed, tuple) else seed,
               "seed_is_tuple": isinstance(seed, tuple), "style": style}
        try:
            ref = fac()(shape=tuple(kshape[1:]), seed=seed)
        except Exception:  # noqa: BLE001 - infeasible for this generator
            continue
        try:
            rec = RecordingMaskFunc(fac())
            k = k0.clone()
            if style == "positional":
                out, mret = T.apply_mask(k, rec, seed)
            elif style == "keyword":
                out, mret = T.apply_mask(kspace=k, mask_func=rec, seed=seed, return_mask=True)
            else:
                out, mret = T.apply_mask(k, rec, seed=seed, return_mask=False), None
            res = None
            if len(rec.calls) != 1:
                res = ("apply_mask-mask-func-calls", f"the mask function was called {len(rec.calls)} times")
            else:
                a, kw = rec.calls[0]
                kw = dict(kw, **dict(zip(("shape", "seed"), a)))
                if [int(s) for s in kw.get("shape", [])] != kshape[1:] or not _seed_eq(kw.get("seed"), seed) or kw.get("return_acs", False):
                    res = ("apply_mask-mask-func-args", f"mask function called with shape={list(kw.get('shape', []))} seed={kw.get('seed')!r} "
                                                        f"instead of shape=kspace.shape[1:]={kshape[1:]} seed={seed!r}")
            if res is None and mret is not None and (mret.shape != ref.shape or not torch.equal(mret, ref)):
                res = ("apply_mask-mask-func-args", "returned mask != mask_func(shape=kspace.shape[1:], seed)")
            if res is None:
                res = check_masked(out, bits(k0), kshape, k0.dtype, nonzero(ref), "apply_mask-mask-func")
            if res is None and (bits(k) != bits(k0)).any():
                res = ("apply_mask-mutates-input", "apply_mask with a mask function modified the k-space in place")
        except Exception as e:  # noqa: BLE001
            res = ("apply_mask-mask-func-raises", f"apply_mask with a mask function raises {err_name(e)}: {str(e)[:160]}")
        if res:
            yield Violation(res[0], res[1], rep)
    # ---- CreateSamplingMask (shape / use_seed / return_acs options, optional padding) followed by ApplyMask
    for i in range(ctx.budget(60, 800) * (2 if deep else 1)):
        name, fac = rng.choice(facs)
        three_d = rng.random() < 0.3
        c, h, w = rng.choice([1, 2, 3, rng.choice(LADDER)]), rng.choice([4, 5, 6, 8]), rng.choice([6, 7, 8, 10])
        kshape = [c, rng.choice([1, 2]), h, w, 2] if three_d else [c, h, w, 2]
        sp = kshape[1:-1]
        opt = rng.choice(["none", "none", "full", "with-None", "all-None"])
        shape_opt = {"none": None, "full": tuple(sp), "with-None": tuple(None if j == len(sp) - 1 else n for j, n in enumerate(sp)),
                     "all-None": tuple(None for _ in sp)}[opt]
        use_seed, return_acs, with_pad = rng.random() < 0.7, rng.random() < 0.4, rng.random() < 0.5
        fname = rng.choice(["file_1.h5", "vol_00017.h5", "a"])
        k0 = rand_values(rng, kshape)
        pad0 = None
        if with_pad:
            pad0 = torch.zeros([1] + [1] * (len(kshape) - 4) + [h, w, 1])
            pad0[..., : rng.choice([0, 1, 2]), :] = 1
            pad0[..., w - rng.choice([0, 1, 2]):, :] = 1
            if rng.random() < 0.3:
                pad0 = pad0.bool()
        ctx.count(("x-csm", i, name, tuple(kshape), opt, use_seed, return_acs, with_pad), True,
                  bucket=f"oracle/pipeline/CreateSamplingMask/{opt}/seed={use_seed}/acs={return_acs}/pad={with_pad}")
        rep = {"op": "x_create_mask", "gen": name, "kspace": rep_tensor(k0), "shape_opt": opt, "use_seed": use_seed,
               "return_acs": return_acs, "padding": None if pad0 is None else rep_tensor(pad0.float()), "filename": fname}
        r = check_create_and_apply(fac, k0, shape_opt, use_seed, return_acs, pad0, fname)
        if r:
            yield Violation(r[0], r[1], rep)


def check_create_and_apply(fac, k0, shape_opt, use_seed, return_acs, pad0, fname):
    from direct.data import mri_transforms as MT

    kshape = list(k0.shape)
    want_seed = tuple(map(ord, fname)) if use_seed else None
    try:
        ref = fac()(shape=tuple(kshape[1:]), seed=want_seed if want_seed is not None else 0, return_acs=False)
    except Exception:  # noqa: BLE001
        return None
    try:
        rec = RecordingMaskFunc(fac())
        sample = {"kspace": k0.clone(), "filename": fname, "slice_no": 0}
        if pad0 is not None:
            sample["padding"] = pad0.clone()
        sample = MT.CreateSamplingMask(rec, shape=shape_opt, use_seed=use_seed, return_acs=return_acs)(sample)
        if not rec.calls:
            return "pipeline-mask-func-not-called", "CreateSamplingMask did not call the mask function"
        a, kw = rec.calls[0]
        kw = dict(kw, **dict(zip(("shape", "seed", "return_acs"), a)))
        if [int(s) for s in kw.get("shape", [])] != kshape[1:] or not _seed_eq(kw.get("seed"), want_seed) or kw.get("return_acs", False):
            return ("pipeline-mask-func-args",
                    f"CreateSamplingMask(shape={shape_opt}, use_seed={use_seed}) called the mask function with shape="
                    f"{[int(s) for s in kw.get('shape', [])]} seed={kw.get('seed')!r} return_acs={kw.get('return_acs')} instead of "
                    f"shape={kshape[1:]} seed={want_seed!r} return_acs=False")
        if ("acs_mask" in sample) != return_acs:
            return "pipeline-acs-mask-key", f"acs_mask present={'acs_mask' in sample} with return_acs={return_acs}"
        mask = sample["sampling_mask"]
        if use_seed:
            exp_mask = ref.clone()
        else:
            exp_mask = rec.inner(shape=tuple(kshape[1:]), seed=None, return_acs=False) if rec.inner is frame_pattern else None
        if pad0 is not None and exp_mask is not None:
            exp_mask = torch.from_numpy(np.where(np.broadcast_to(nonzero(pad0), np.broadcast_shapes(tuple(pad0.shape), tuple(exp_mask.shape))),
                                                 False, exp_mask.numpy()))
        if exp_mask is not None and (mask.dtype != torch.bool or mask.shape != exp_mask.shape or not torch.equal(mask, exp_mask)):
            return ("pipeline-sampling-mask", "sample['sampling_mask'] is not mask_func(kspace.shape[1:], seed(filename)) with the "
                                              "padded columns cleared")
        if pad0 is not None and bool((torch.from_numpy(nonzero(mask)) & torch.from_numpy(np.broadcast_to(nonzero(pad0), np.broadcast_shapes(
                tuple(pad0.shape), tuple(mask.shape))).copy())).any()):
            return "pipeline-mask-in-padding", "the sampling mask is set inside the zero-padding"
        sample = MT.ApplyMask()(sample)
        res = check_masked(sample["masked_kspace"], bits(k0), kshape, k0.dtype, nonzero(mask), "pipeline-ApplyMask")
        if res:
            return res
        if pad0 is not None:
            mk = bits(sample["masked_kspace"])
            if (mk[np.broadcast_to(nonzero(pad0), mk.shape)] != 0).any():
                return "pipeline-padding-leaks", "masked k-space is not exactly +0 inside the zero-padding"
        if (bits(sample["kspace"]) != bits(k0)).any():
            return "pipeline-mutates-kspace", "CreateSamplingMask / ApplyMask modified sample['kspace']"
    except Exception as e:  # noqa: BLE001
        return "pipeline-raises", f"CreateSamplingMask -> ApplyMask raises {err_name(e)}: {str(e)[:160]}"
    return None


# --------------------------------------------------------------------------------------------------
# hard data consistency of the SSL / JSSL engines (callers outside the anchored files):
#   output_kspace = apply_padding(kspace + apply_mask(prediction, ~mask), padding)   [+ apply_mask(·, target mask) in SSL training]
_SSL = {}


def ssl_engine(kind: str):
    """a toy engine on the REAL `_do_iteration` of SSLMRIModelEngine / JSSLMRIModelEngine"""
    if kind not in _SSL:
        from omegaconf import OmegaConf
        from direct.config.defaults import DefaultConfig
        from direct.nn.ssl.mri_models import JSSLMRIModelEngine, SSLMRIModelEngine

        base = SSLMRIModelEngine if kind == "ssl" else JSSLMRIModelEngine

        class Toy(base):
            pred = None          # (image or None, kspace or None) returned by the "network"

            def forward_function(self, data):
                img, ksp = self.pred
                w = self.model.weight.sum() * 0
                return (None if img is None else img + w), (None if ksp is None else ksp + w)

        eng = Toy(OmegaConf.structured(DefaultConfig), torch.nn.Linear(1, 1), "cpu", forward_operator=None, backward_operator=None)
        eng.ndim = 2
        _SSL[kind] = eng
    return _SSL[kind]


def gen_ssl_case(rng, integer_valued=False):
    b, c, h, w = rng.choice([1, 2]), rng.choice([1, 2, 3, rng.choice(LADDER)]), rng.choice([2, 3, 4]), rng.choice([2, 3, 5])
    kshape = [b, c, h, w, 2]
    mshape = [b, 1, h, w, 1]
    draw = lambda p: torch.tensor([rng.random() < p for _ in range(b * h * w)]).reshape(mshape)  # noqa: E731
    pat = rng.choice(["random", "random", "sparse", "full", "empty"])
    acquired = {"random": draw(0.6), "sparse": draw(0.2), "full": draw(1.1), "empty": draw(-1)}[pat]
    inp = acquired & draw(0.6)              # SSL: input mask and target mask partition the acquired samples
    tgt = acquired & ~inp
    if integer_valued:
        full = B().gen_kspace(rng, kshape, n_special=0)
        pred = B().gen_kspace(rng, kshape, n_special=0)
    else:
        full = rand_values(rng, kshape, specials=False)
        pred = rand_values(rng, kshape, specials=False)
    pad = None
    if rng.random() < 0.4:
        pad = torch.zeros(mshape)
        pad[..., : rng.choice([1, 2]), :] = 1
        acquired, inp, tgt = (torch.where(pad == 1, torch.tensor([False]), x) for x in (acquired, inp, tgt))
    return kshape, acquired, inp, tgt, full, pred, pad, pat


def run_ssl_iteration(kind, train, is_ssl, via_image, kshape, acquired, inp, tgt, full, pred, pad, S=None, x=None):
    """-> the k-space the engine hands to its loss / backward operator (hard DC output), through the real `_do_iteration`"""
    import direct.data.transforms as T

    eng = ssl_engine(kind)
    eng.model.train(train)
    seen = []

    def rec_backward(data, dim=None, **kw):
        seen.append(data.detach().clone())
        return torch.zeros_like(data)
    eng.backward_operator = rec_backward
    zero = torch.tensor([0.0])
    data = {"masked_kspace": torch.where(acquired == 0, zero, full), "sampling_mask": acquired.clone(),
            "input_kspace": torch.where(inp == 0, zero, full), "input_sampling_mask": inp.clone(),
            "target_sampling_mask": tgt.clone(), "kspace": full.clone(), "target": torch.zeros(kshape[0], kshape[2], kshape[3]),
            "sensitivity_map": (S if S is not None else torch.ones(kshape)).clone(), "is_ssl": [is_ssl] * kshape[0]}
    if pad is not None:
        data["padding"] = pad.clone()
    if via_image:
        eng.forward_operator = lambda d, dim=None, **kw: pred.clone()    # F(E(image)) supplied by its value
        eng.pred = (x if x is not None else torch.zeros(kshape[0], kshape[2], kshape[3], 2), None)
    else:
        eng.forward_operator = None
        eng.pred = (None, pred.clone())
    lossrec = []

    def kloss(out, tgt_, reduction="mean", rs=None):
        lossrec.append(out.detach().clone())
        return (out * 0).sum() + eng.model.weight.sum() * 0
    with torch.enable_grad():
        eng._do_iteration(data, loss_fns={"kspace_probe": kloss} if train else None)
    if len(seen) != 1 or (train and len(lossrec) != 1):
        raise AssertionError(f"backward operator called {len(seen)}x, k-space loss {len(lossrec)}x")
    if train and (bits(seen[0]) != bits(lossrec[0])).any():
        raise AssertionError("k-space loss and SENSE reconstruction see different output k-spaces")
    return seen[0]


def expected_ssl(kind, train, is_ssl, acquired, inp, tgt, full, pred, pad):
    """the specification: measured where sampled, prediction elsewhere, +0 in the padding, projected on the target mask in
    SSL training.  Values, not signs of zero (x + (+0) turns -0 into +0)."""
    ssl_train = train and (is_ssl if kind == "jssl" else True)
    m = inp if ssl_train else acquired
    shape = full.shape
    sup = np.broadcast_to(nonzero(m), shape)
    out = np.where(sup, full.numpy(), pred.numpy()).astype(np.float32)
    if pad is not None:
        out = np.where(np.broadcast_to(nonzero(pad), shape), np.float32(0), out)
    if ssl_train:
        out = np.where(np.broadcast_to(nonzero(tgt), shape), out, np.float32(0))
    return out + np.float32(0)


def check_ssl_engine(seed: int):
    import random

    rng = random.Random(f"c03-ssl-{seed}")
    kind, train, is_ssl, via_image = rng.choice(["ssl", "jssl"]), rng.random() < 0.5, rng.random() < 0.6, rng.random() < 0.4
    kshape, acquired, inp, tgt, full, pred, pad, pat = gen_ssl_case(rng)
    tag = f"{'JSSL' if kind == 'jssl' else 'SSL'}MRIModelEngine._do_iteration ({'train' if train else 'eval'}, is_ssl={is_ssl}, " \
          f"{'image' if via_image else 'k-space'} output, mask {pat}, coils {kshape[1]})"
    args = (kind, train, is_ssl, via_image, kshape, acquired, inp, tgt, full, pred, pad)
    try:
        out = run_ssl_iteration(*args)
        exp = expected_ssl(kind, train, is_ssl, acquired, inp, tgt, full, pred, pad)
        if out.shape != full.shape or not np.array_equal(out.numpy() + np.float32(0), exp):
            return "ssl-hard-dc-wrong", f"{tag}: output k-space is not (measured where sampled, prediction elsewhere, +0 in padding / off the target mask)"
        # non-interference: the prediction at SAMPLED positions (any value, inf included) never reaches the output
        ssl_train = train and (is_ssl if kind == "jssl" else True)
        m = inp if ssl_train else acquired
        sel = torch.from_numpy(np.broadcast_to(nonzero(m), full.shape).copy())
        pred2 = pred.clone()
        junk = rand_values(rng, kshape)
        junk[torch.rand(kshape, generator=torch.Generator().manual_seed(seed)) < 0.5] = rng.choice([float("inf"), float("-inf"), F32MAX])
        pred2[sel] = junk[sel]
        out2 = run_ssl_iteration(kind, train, is_ssl, via_image, kshape, acquired, inp, tgt, full, pred2, pad)
        if (bits(out) != bits(out2)).any():
            return "ssl-hard-dc-prediction-leaks", f"{tag}: the predicted k-space at sampled positions changes the data-consistent output"
    except Exception as e:  # noqa: BLE001
        return "ssl-engine-raises", f"{tag} raises {err_name(e)}: {str(e)[:160]}"
    return None


def oracle_ssl(ctx: Ctx, deep: bool):
    rng = ctx.rng
    for i in range(ctx.budget(40, 400) * (2 if deep else 1)):
        seed = rng.randrange(2 ** 30)
        ctx.count(("x-ssl", seed), True, bucket="oracle/ssl-engine-hard-dc")
        r = check_ssl_engine(seed)
        if r:
            yield Violation(r[0], r[1], {"op": "x_ssl", "seed": seed})


# --------------------------------------------------------------------------------------------------
# the ACS sites of the data pipeline (product form `kspace * acs_mask + 0.0` until the phase-3 repair, now apply_mask)
def acs_kspace(which: str, k: torch.Tensor, acs: torch.Tensor, sigma=None):
    """the k-space that EstimateSensitivityMapModule.estimate_acs_image / EstimateBodyCoilImage hand to the backward operator"""
    from direct.data import mri_transforms as MT

    seen = []

    def rec(data, dim=None, **kw):
        seen.append(data.detach().clone())
        return data
    if which == "sensitivity":
        mod = MT.EstimateSensitivityMapModule(backward_operator=rec, gaussian_sigma=sigma)
        mod.estimate_acs_image({"kspace": k, "acs_mask": acs})
    else:
        tr = MT.EstimateBodyCoilImage(mask_func=lambda shape, seed=None, return_acs=False: acs.reshape(acs.shape[-4:]) if acs.dim() > 4 else acs,
                                      backward_operator=rec, use_seed=False)
        try:
            tr({"kspace": k, "filename": "f"})
        except Exception:  # noqa: BLE001 - everything after the backward operator is irrelevant here
            if not seen:
                raise
    return seen[0]


def check_acs_site(which: str, seed: int, with_inf: bool):
    import random

    rng = random.Random(f"c03-acs-{which}-{seed}")
    c, h, w = rng.choice([1, 2, 3]), rng.choice([2, 3, 4]), rng.choice([4, 5, 6])
    batched = which == "sensitivity"
    kshape = ([1] if batched else []) + [c, h, w, 2]
    acs = torch.zeros(([1] if batched else []) + [1, h, w, 1], dtype=torch.bool)
    acs[..., w // 2 - 1: w // 2 + 1, :] = True
    k = rand_values(rng, kshape, specials=False)
    sel = ~acs.expand(kshape)
    junk = rand_values(rng, kshape, specials=False) * 100
    pool = [-0.0, F32MAX, -F32MAX, -5.0] + ([float("inf"), float("-inf")] if with_inf else [])
    for j in range(max(1, junk.numel() // 2)):
        junk.reshape(-1)[rng.randrange(junk.numel())] = rng.choice(pool)
    k2 = k.clone()
    k2[sel] = junk[sel]
    a1, a2 = acs_kspace(which, k.clone(), acs), acs_kspace(which, k2.clone(), acs)
    exp = expected(bits(k), kshape, acs.numpy())
    if (bits(a1) != bits(a2)).any() or (bits(a2) != (exp if not a2.isnan().any() else exp)).any():
        nan = bool(a2.isnan().any())
        return (f"acs-mul-mask:{'inf-outside-acs-gives-nan' if nan else 'depends-on-values-outside-acs'}",
                f"{'EstimateSensitivityMapModule.estimate_acs_image' if which == 'sensitivity' else 'EstimateBodyCoilImage'}: the ACS k-space "
                f"{'is NaN' if nan else 'changes'} when values OUTSIDE the ACS mask change "
                f"({'an infinite entry times 0' if nan else 'not where(acs_mask == 0, +0, kspace)'})",
                {"kspace": rep_tensor(k2), "acs_mask": rep_tensor(acs)})
    return None


def oracle_acs(ctx: Ctx, deep: bool):
    rng = ctx.rng
    for which in ("sensitivity", "bodycoil"):
        for with_inf in (False, True):
            for i in range(ctx.budget(6, 60)):
                seed = rng.randrange(2 ** 30)
                ctx.count(("x-acs", which, with_inf, seed), True, bucket=f"oracle/acs-mul/{which}/{'inf' if with_inf else 'finite'}")
                try:
                    r = check_acs_site(which, seed, with_inf)
                except Exception as e:  # noqa: BLE001
                    r = ("acs-site-raises", f"{which}: {err_name(e)}: {str(e)[:160]}", {})
                if r:
                    yield Violation(r[0], r[1], dict(r[2], op="x_acs", which=which, seed=seed, with_inf=with_inf))


# --------------------------------------------------------------------------------------------------
def replay(rep: dict) -> bool:
    """True = the recorded input still violates the property"""
    import direct.data.transforms as T

    op = rep["op"]
    try:
        if op == "x_apply_mask":
            k0, m0 = from_rep(rep["kspace"]), from_rep(rep["mask"])
            out = mask_vias()[rep["via"]](k0.clone(), m0.clone())
            if check_masked(out, bits(k0), list(k0.shape), k0.dtype, nonzero(m0), rep["via"]) is not None:
                return True
            k = k0.clone()
            out = mask_vias()[rep["via"]](k, m0.clone())
            if out.numel() and out.dtype.is_floating_point:
                out.detach().mul_(2).add_(1)
            return bool((bits(k) != bits(k0)).any())
        if op == "x_retmask":
            k0, m0 = from_rep(rep["kspace"]), from_rep(rep["mask"])
            m = m0.clone()
            _, mret = T.apply_mask(k0.clone(), m)
            return bool(mret.dtype != m0.dtype or mret.shape != m0.shape or (bits(mret) != bits(m0)).any() or (bits(m) != bits(m0)).any())
        if op == "x_apply_padding":
            from direct.data.mri_transforms import ApplyZeroPadding
            d0, p0 = from_rep(rep["data"]), from_rep(rep["padding"])
            via = rep["via"]
            if via == "apply_padding":
                out = T.apply_padding(d0.clone(), p0.clone())
            elif via == "ApplyZeroPadding":
                out = ApplyZeroPadding()({"kspace": d0.clone(), "padding": p0.clone()})["kspace"]
            else:
                out = ApplyZeroPadding(kspace_key="masked_kspace", padding_key="pad2")(
                    {"masked_kspace": d0.clone(), "pad2": p0.clone(), "kspace": d0.clone(), "padding": torch.ones_like(p0)})["masked_kspace"]
            isone = p0.to(torch.float64).numpy() == 1 if p0.dtype != torch.bool else p0.numpy()
            oshape = np.broadcast_shapes(tuple(p0.shape), tuple(d0.shape))
            exp = np.where(np.broadcast_to(isone, oshape), 0, np.broadcast_to(bits(d0), oshape))
            return bool(out.dtype != d0.dtype or bits(out).shape != exp.shape or (bits(out) != exp).any())
        if op == "x_history":
            return run_history(rep["subject"], rep["seed"]) is not None
        if op == "x_mask_func":
            fac = dict(mask_func_factories())[rep["gen"]]
            k0 = from_rep(rep["kspace"])
            seed = tuple(rep["seed"]) if rep.get("seed_is_tuple") else rep["seed"]
            rec = RecordingMaskFunc(fac())
            out, mret = T.apply_mask(k0.clone(), rec, seed)
            ref = fac()(shape=tuple(k0.shape[1:]), seed=seed)
            a, kw = rec.calls[0]
            kw = dict(kw, **dict(zip(("shape", "seed"), a)))
            return bool(len(rec.calls) != 1 or [int(s) for s in kw["shape"]] != list(k0.shape[1:]) or not _seed_eq(kw.get("seed"), seed)
                        or mret.shape != ref.shape or not torch.equal(mret, ref)
                        or check_masked(out, bits(k0), list(k0.shape), k0.dtype, nonzero(ref), "x") is not None)
        if op == "x_create_mask":
            fac = dict(mask_func_factories())[rep["gen"]]
            k0 = from_rep(rep["kspace"])
            sp = list(k0.shape)[1:-1]
            shape_opt = {"none": None, "full": tuple(sp), "with-None": tuple(None if j == len(sp) - 1 else n for j, n in enumerate(sp)),
                         "all-None": tuple(None for _ in sp)}[rep["shape_opt"]]
            pad0 = None if rep["padding"] is None else from_rep(rep["padding"])
            return check_create_and_apply(fac, k0, shape_opt, rep["use_seed"], rep["return_acs"], pad0, rep["filename"]) is not None
        if op == "x_splitter":
            return check_splitter(rep["seed"]) is not None
        if op == "x_unchanged":
            return check_unchanged(rep["subject"], rep["mode"], rep["seed"]) is not None
        if op == "x_ssl":
            return check_ssl_engine(rep["seed"]) is not None
        if op == "x_acs":
            return check_acs_site(rep["which"], rep["seed"], rep["with_inf"]) is not None
    except Exception:  # noqa: BLE001
        return True
    return True


# --------------------------------------------------------------------------------------------------
# scripted call histories for the correspondence op `maskhist` (Lean: `maskHistory` = `Memo.run` with the complete key)
def gen_history_script(rng):
    """-> (kshape, mshape, mask dtype name, script, snapshots[(mask values, k-space tensor)])"""
    b, c, h, w = rng.choice([1, 2]), rng.choice([1, 2, 3, rng.choice(LADDER)]), rng.choice([1, 2, 3]), rng.choice([2, 3])
    kshape = [b, c, h, w, 2]
    mshape = rng.choice([[b, 1, h, w, 1], [1, 1, h, w, 1], [1, 1, 1, w, 1]])
    mdn = rng.choice(["bool", "uint8", "int64"])
    nk, nm = int(np.prod(kshape)), int(np.prod(mshape))
    newk = lambda: B().gen_kspace(rng, kshape).reshape(-1).tolist()  # noqa: E731
    newm = lambda: [rng.choice([0, 1]) for _ in range(nm)]  # noqa: E731
    k, m = newk(), newm()
    script, snaps = [("new", k, m)], [(list(m), list(k))]
    for _ in range(rng.randint(2, 5)):
        step = rng.choice(["same-k-new-mask", "same-mask-new-k", "write-k", "write-mask", "realloc-k", "same-all", "new"])
        if step == "same-k-new-mask":
            m = newm()
            script.append((step, m))
        elif step in ("same-mask-new-k", "realloc-k"):
            k = newk()
            script.append((step, k))
        elif step == "write-k":
            idx = sorted(set(rng.randrange(nk) for _ in range(max(1, nk // 3))))
            vals = [rng.choice([-0.0, float("inf"), float("-inf"), 5.0, -7.0, 0.0, 123.0]) for _ in idx]
            k = list(k)
            for j, v in zip(idx, vals):
                k[j] = v
            script.append((step, rng.choice(WRITE_MODES), idx, vals))
        elif step == "write-mask":
            idx = sorted(set(rng.randrange(nm) for _ in range(max(1, nm // 2))))
            m = list(m)
            for j in idx:
                m[j] = 1 - m[j]
            script.append((step, rng.choice(WRITE_MODES), idx, [m[j] for j in idx]))
        elif step == "new":
            k, m = newk(), newm()
            script.append((step, k, m))
        else:
            script.append((step,))
        snaps.append((list(m), list(k)))
    return kshape, mshape, mdn, script, snaps


def run_history_script(subject: str, kshape, mshape, mdn, script):
    """replay the script on real tensor objects against ONE persistent callable; -> list of outputs"""
    f = history_subjects()[subject][0]()
    dt = M_DTYPES[mdn]
    mk = lambda v: torch.tensor(v, dtype=torch.int64).reshape(mshape).to(dt)  # noqa: E731
    kk = lambda v: torch.tensor(v, dtype=torch.float32).reshape(kshape)  # noqa: E731
    k = m = None
    outs = []

    def write(t, mode, idx, vals):
        if mode == "inplace":
            flat = t.reshape(-1)
            for j, v in zip(idx, vals):
                flat[j] = v
        elif mode == "numpy":
            a = t.numpy().reshape(-1)
            for j, v in zip(idx, vals):
                a[j] = v
        else:
            d = t.data.reshape(-1)
            for j, v in zip(idx, vals):
                d[j] = v
    for st in script:
        if st[0] == "new":
            k, m = kk(st[1]), mk(st[2])
        elif st[0] == "same-k-new-mask":
            m = mk(st[1])
        elif st[0] == "same-mask-new-k":
            k = kk(st[1])
        elif st[0] == "realloc-k":
            k = None
            k = kk(st[1])
        elif st[0] == "write-k":
            write(k, *st[1:])
        elif st[0] == "write-mask":
            write(m, *st[1:])
        with torch.no_grad():
            outs.append(f(k, m, {}).clone())
    return outs



# --------------------------------------------------------------------------------------------------
# every operator leaves its input tensors untouched — with gradients tracked, under no_grad and under inference_mode
GRAD_MODES = {"grad": torch.enable_grad, "no_grad": torch.no_grad, "inference": torch.inference_mode}


def unchanged_subjects():
    """name -> callable(k, m, S, x) (k: multi-coil k-space NON-ZERO off the mask, m: mask, S: maps, x: image)"""
    import direct.data.transforms as T
    from direct.data import mri_transforms as MT
    from direct.nn.conjgradnet.conjgrad import ConjGrad
    from direct.nn.rim.rim import MRILogLikelihood

    eng = B().toy_engine()

    def with_ops(f):
        def g(*a):
            eng.forward_operator, eng.backward_operator = T.fft2, T.ifft2
            return f(*a)
        return g
    cg = ConjGrad(T.fft2, T.ifft2)
    ll = MRILogLikelihood(T.fft2, T.ifft2)
    return {
        "apply_mask": lambda k, m, S, x: T.apply_mask(k, m, return_mask=False),
        "apply_mask-tuple": lambda k, m, S, x: T.apply_mask(k, m),
        "apply_padding": lambda k, m, S, x: T.apply_padding(k, m),
        "ApplyMaskModule": lambda k, m, S, x: MT.ApplyMaskModule()({"kspace": k, "sampling_mask": m}),
        "ApplyMask-wrapper": lambda k, m, S, x: MT.ApplyMask()({"kspace": k, "sampling_mask": m}),
        "engine._forward_operator": with_ops(lambda k, m, S, x: eng._forward_operator(x, S, m)),
        "engine._backward_operator": with_ops(lambda k, m, S, x: eng._backward_operator(k, S, m)),
        "ConjGrad._A_star_op": lambda k, m, S, x: cg._A_star_op(k, S, m),
        "ConjGrad._A_star_A_op": lambda k, m, S, x: cg._A_star_A_op(x, S, m),
        "MRILogLikelihood": lambda k, m, S, x: ll(x.permute(0, 3, 1, 2), k, S, m),
    }


def check_unchanged(name: str, mode: str, seed: int):
    import random

    rng = random.Random(f"c03-unch-{name}-{mode}-{seed}")
    b, c, h, w = rng.choice([1, 2]), rng.choice([1, 2, 3, rng.choice(LADDER)]), rng.choice([2, 3, 4]), rng.choice([2, 3, 5])
    kshape = [b, c, h, w, 2]
    mdn = rng.choice(["bool", "uint8", "int64", "float32", "float64"])
    m = rand_mask(rng, rng.choice([[b, 1, h, w, 1], [1, 1, h, w, 1]]), mdn, rng.choice(["random", "sparse", "zeros", "values"]))
    k = rand_values(rng, kshape, specials=False) + 3.0            # non-zero at (almost) every unsampled position
    S, x = rand_values(rng, kshape, specials=False), rand_values(rng, [b, h, w, 2], specials=False)
    args = (k, m, S, x)
    before = [bits(t) for t in args]
    versions = [t._version for t in args]
    train = rng.random() < 0.5
    B().toy_engine().model.train(train)
    with GRAD_MODES[mode]():
        unchanged_subjects()[name](*args)
    for t, b0, v0, label in zip(args, before, versions, ("k-space", "mask", "sensitivity map", "image")):
        if (bits(t) != b0).any() or t._version != v0:
            n = int((bits(t) != b0).sum())
            return (f"{name}-mutates-input",
                    f"{name} [{mode}, model.training={train}, k-space {kshape}, mask {mdn}{list(m.shape)}]: the {label} it was given was "
                    f"modified in place ({n} entries changed)")
    return None


def oracle_unchanged(ctx: Ctx, deep: bool):
    rng = ctx.rng
    for name in unchanged_subjects():
        for mode in GRAD_MODES:
            for j in range(ctx.budget(3, 30) * (2 if deep else 1)):
                seed = rng.randrange(2 ** 30)
                ctx.count(("x-unch", name, mode, seed), True, bucket=f"oracle/inputs-unchanged/{name}/{mode}")
                try:
                    r = check_unchanged(name, mode, seed)
                except Exception as e:  # noqa: BLE001
                    r = (f"{name}-raises", f"{name} [{mode}] raises {err_name(e)}: {str(e)[:160]}")
                if r:
                    yield Violation(r[0], r[1], {"op": "x_unchanged", "subject": name, "mode": mode, "seed": seed})


# --------------------------------------------------------------------------------------------------
# SSL mask splitters (direct/ssl/ssl.py, a caller outside the anchored files): the two k-spaces they emit are
# apply_mask(kspace, input mask) / apply_mask(kspace, target mask), for either `kspace_key`
def check_splitter(seed: int):
    import random

    from direct.ssl.ssl import HalfMaskSplitterModule, UniformMaskSplitterModule

    rng = random.Random(f"c03-split-{seed}")
    b, c, h, w = rng.choice([1, 2, 3]), rng.choice([1, 2, rng.choice(LADDER)]), rng.choice([6, 8, 9]), rng.choice([6, 7, 10])
    kshape = [b, c, h, w, 2]
    kkey = rng.choice(["masked_kspace", "kspace"])
    cls = rng.choice([UniformMaskSplitterModule, HalfMaskSplitterModule])
    mod = cls(kspace_key=kkey, use_seed=rng.random() < 0.5)
    sm = torch.tensor([rng.random() < 0.6 for _ in range(b * h * w)]).reshape(b, 1, h, w, 1)
    k0 = rand_values(rng, kshape)
    other = rand_values(rng, kshape)
    sample = {"sampling_mask": sm.clone(), kkey: k0.clone(), ("kspace" if kkey == "masked_kspace" else "masked_kspace"): other.clone(),
              "acs_mask": torch.zeros_like(sm), "filename": [f"f{j}" for j in range(b)], "slice_no": list(range(b))}
    tag = f"{cls.__name__}(kspace_key={kkey!r}), k-space {kshape}"
    try:
        out = mod(sample)
        for pre in ("input_", "target_"):
            msk, ksp = out[pre + "sampling_mask"], out[pre + kkey]
            r = check_masked(ksp, bits(k0), kshape, k0.dtype, nonzero(msk), f"splitter-{pre}kspace")
            if r:
                return r[0], f"{tag}: {r[1]}"
            if bool((torch.from_numpy(nonzero(msk)) & ~sm).any()):
                return "splitter-mask-outside-sampling-mask", f"{tag}: the {pre}mask is set where the sampling mask is not"
        if (bits(out[kkey]) != bits(k0)).any():
            return "splitter-mutates-kspace", f"{tag}: sample[{kkey!r}] was modified"
    except Exception as e:  # noqa: BLE001
        return "splitter-raises", f"{tag} raises {err_name(e)}: {str(e)[:160]}"
    return None


def oracle_splitter(ctx: Ctx, deep: bool):
    rng = ctx.rng
    for i in range(ctx.budget(24, 240)):
        seed = rng.randrange(2 ** 30)
        ctx.count(("x-split", seed), True, bucket="oracle/ssl-splitter")
        r = check_splitter(seed)
        if r:
            yield Violation(r[0], r[1], {"op": "x_splitter", "seed": seed})
