"""C04 — worker entry points for argument forms, call histories and call sites of the mask generators.

`run_forms(spec)`      one generator (spec as in maskgen_common), called in every accepted argument form: shape as
                       tuple / list / torch.Size / numpy array, positional / keyword, mode as enum / lower / upper case
                       string; returns one digest per form.
`run_history(spec)`    one generator INSTANCE serving a sequence of calls that share some but not all of (seed, rank,
                       rows, cols, frames, return_acs); every answer must equal that of a fresh instance.
`run_site(spec)`       the real callers: `CreateSamplingMask`, `apply_mask`, `EstimateBodyCoilImage`-style ACS call,
                       `build_masking_function(**cfg)` as `train.py` / `predict.py` do it.
All results are JSON-able; errors of the code under test are returned, never raised.
"""
from __future__ import annotations

import hashlib


def _digest(m) -> dict:
    import numpy as np
    import torch

    a = m.numpy() if isinstance(m, torch.Tensor) else np.asarray(m)
    return {"ok": True, "shape": list(a.shape), "dtype": str(m.dtype), "sha": hashlib.sha1(np.ascontiguousarray(a).tobytes()).hexdigest()[:16],
            "count": int(a.sum())}


def _err(e) -> dict:
    return {"ok": False, "err": type(e).__name__, "msg": str(e)[:160]}


def _make(spec, mode_form="enum"):
    import boot  # noqa: F401
    from direct.common import subsample as S
    from direct.types import MaskFuncMode

    from props import maskgen_common as G

    acc, cf = spec["acc"], spec.get("cf")
    accs = list(acc) if isinstance(acc, (list, tuple)) else [acc]
    cfs = None if cf is None else (list(cf) if isinstance(cf, (list, tuple)) else [cf])
    mode = spec["mode"]
    marg = {"enum": MaskFuncMode(mode), "str": mode, "upper": mode.upper()}[mode_form]
    extra = dict(spec.get("extra", {}))
    if spec.get("via_build") or mode_form != "enum":
        return S.build_masking_function(spec["gen"], accs, cfs, extra.pop("uniform_range", False), marg, **extra)
    return G.make(spec["gen"], mode, acc, cf, **extra)


def _seed(spec):
    s = spec.get("seed")
    return tuple(s) if isinstance(s, list) else s


def run_forms(spec: dict) -> dict:
    import numpy as np
    import torch

    out = {}
    shp = list(spec["shape"])
    forms = {"tuple": tuple(shp), "list": list(shp), "size": torch.Size(shp), "ndarray": np.array(shp)}
    racs = bool(spec.get("return_acs"))
    for name, sh in forms.items():
        for style in ("pos", "kw"):
            try:
                f = _make(spec)
                m = f(sh, seed=_seed(spec), return_acs=racs) if style == "pos" else f(shape=sh, seed=_seed(spec), return_acs=racs)
                out[f"{name}/{style}"] = _digest(m)
            except Exception as e:  # noqa: BLE001
                out[f"{name}/{style}"] = _err(e)
    for mf in ("str", "upper"):
        try:
            f = _make(spec, mf)
            out[f"mode-{mf}"] = _digest(f(tuple(shp), seed=_seed(spec), return_acs=racs))
        except Exception as e:  # noqa: BLE001
            out[f"mode-{mf}"] = _err(e)
    if spec["gen"] in ("Radial", "Spiral"):
        # the same generator through its base class with the scheme given as enum / string (configs give strings)
        from direct.common import subsample as S
        from direct.types import MaskFuncMode

        scheme = {"Radial": S.CIRCUSSamplingMode.CIRCUS_RADIAL, "Spiral": S.CIRCUSSamplingMode.CIRCUS_SPIRAL}[spec["gen"]]
        acc, cf = spec["acc"], spec.get("cf")
        accs = list(acc) if isinstance(acc, (list, tuple)) else [acc]
        cfs = None if cf is None else (list(cf) if isinstance(cf, (list, tuple)) else [cf])
        # (observation, not checked: an upper-case string passes the constructor's case-insensitive membership test but
        #  matches no branch of mask_func, which then fails with IndexError / RuntimeError)
        for nm, sc in (("circus-enum", scheme), ("circus-str", scheme.value)):
            try:
                f = S.CIRCUSMaskFunc(subsampling_scheme=sc, accelerations=accs, center_fractions=cfs, mode=MaskFuncMode(spec["mode"]))
                out[nm] = _digest(f(tuple(shp), seed=_seed(spec), return_acs=racs))
            except Exception as e:  # noqa: BLE001
                out[nm] = _err(e)
        try:
            S.CIRCUSMaskFunc(subsampling_scheme="circus-zigzag", accelerations=accs, center_fractions=cfs)
            out["circus-unknown-scheme"] = {"ok": True, "accepted": True}
        except NotImplementedError:
            pass
        except Exception as e:  # noqa: BLE001
            out["circus-unknown-scheme"] = _err(e)
    return {"ok": True, "forms": out}


def run_history(spec: dict) -> dict:
    """spec["calls"]: list of {"shape", "seed", "return_acs"}: all made, in order, on ONE instance; every one of them is
    also made on a fresh instance.  Returns per call the two digests (`reused`, `fresh`)."""
    f = _make(spec)
    out = []
    for c in spec.get("calls", []):
        s = c.get("seed")
        s = tuple(s) if isinstance(s, list) else s
        pair = {}
        for who, obj in (("fresh", None), ("reused", f)):
            try:
                o = obj if obj is not None else _make(spec)
                pair[who] = _digest(o(tuple(c["shape"]), seed=s, return_acs=bool(c.get("return_acs"))))
            except Exception as e:  # noqa: BLE001
                pair[who] = _err(e)
        out.append(pair)
    return {"ok": True, "calls": out}


def run_site(spec: dict) -> dict:
    """the mask as the real callers obtain it, for a k-space of shape (coil, *shape)"""
    import boot  # noqa: F401
    import torch

    from direct.data import transforms as T
    from direct.data.mri_transforms import CreateSamplingMask

    shape = tuple(spec["shape"])
    coils = 2
    kspace = torch.ones((coils, *shape))
    fname = spec.get("filename", "file_0001.h5")
    seed = tuple(map(ord, fname))
    out = {}
    try:
        f = _make(spec)
        direct = f(shape, seed=seed)
        out["direct"] = _digest(direct)
    except Exception as e:  # noqa: BLE001
        out["direct"] = _err(e)
    try:
        tr = CreateSamplingMask(_make(spec), shape=None, use_seed=True, return_acs=True)
        sample = tr({"kspace": kspace.clone(), "filename": fname})
        out["create/sampling_mask"] = _digest(sample["sampling_mask"])
        out["create/acs_mask"] = _digest(sample["acs_mask"])
        out["create/broadcasts"] = list(torch.broadcast_shapes(tuple(sample["sampling_mask"].shape), tuple(kspace.shape))) == list(kspace.shape)
    except Exception as e:  # noqa: BLE001
        out["create/sampling_mask"] = _err(e)
    try:
        # explicit shape with None entries ("allow None as values")
        part = tuple(None if i % 2 else v for i, v in enumerate(shape[:-1]))
        tr = CreateSamplingMask(_make(spec), shape=part, use_seed=True)
        out["create-partial-shape"] = _digest(tr({"kspace": kspace.clone(), "filename": fname})["sampling_mask"])
    except Exception as e:  # noqa: BLE001
        out["create-partial-shape"] = _err(e)
    try:
        masked, mask = T.apply_mask(kspace.clone(), _make(spec), seed=seed)
        out["apply_mask/mask"] = _digest(mask)
        out["apply_mask/masked-ok"] = bool((masked == kspace * mask).all())
    except Exception as e:  # noqa: BLE001
        out["apply_mask/mask"] = _err(e)
    try:
        # train.py / predict.py: build_masking_function(**masking) from a config dict
        from direct.common.subsample import build_masking_function

        acc, cf = spec["acc"], spec.get("cf")
        cfg = {"name": spec["gen"], "accelerations": list(acc) if isinstance(acc, (list, tuple)) else [acc],
               "center_fractions": None if cf is None else (list(cf) if isinstance(cf, (list, tuple)) else [cf]),
               "uniform_range": False, "mode": spec["mode"], **spec.get("extra", {})}
        out["config-build"] = _digest(build_masking_function(**cfg)(shape, seed=seed))
    except Exception as e:  # noqa: BLE001
        out["config-build"] = _err(e)
    try:
        # the same without any `mode` (the MaskingConfig default is STATIC; the Kt generators are dynamic by construction and
        # must ignore what the builder passes): builder == class constructed without a mode
        from direct.common import subsample as S
        from direct.common.subsample import build_masking_function

        acc, cf = spec["acc"], spec.get("cf")
        accs = list(acc) if isinstance(acc, (list, tuple)) else [acc]
        cfs = None if cf is None else (list(cf) if isinstance(cf, (list, tuple)) else [cf])
        extra = dict(spec.get("extra", {}))
        extra.pop("uniform_range", None)
        import inspect

        cls = getattr(S, spec["gen"] + "MaskFunc")
        params = inspect.signature(cls.__init__).parameters
        kw = dict(accelerations=accs, **{k: v for k, v in extra.items() if k in params})   # what the builder must forward
        if cfs is not None:
            kw["center_fractions"] = cfs
        try:
            out["class-no-mode"] = _digest(cls(**kw)(shape, seed=seed))
        except Exception as e:  # noqa: BLE001
            out["class-no-mode"] = _err(e)
        out["config-build-no-mode"] = _digest(build_masking_function(spec["gen"], accs, cfs, **extra)(shape, seed=seed))
    except Exception as e:  # noqa: BLE001
        out["config-build-no-mode"] = _err(e)
    return {"ok": True, "sites": out}


SEED_LADDER = [
    {"int": 0}, {"int": 1}, {"int": 2 ** 31 - 2}, {"int": 2 ** 31 - 1}, {"int": 2 ** 31}, {"int": 2 ** 32 - 2}, {"int": 2 ** 32 - 1},
    {"np": "int64", "v": 12345}, {"np": "int32", "v": 7}, {"np": "uint32", "v": 2 ** 32 - 1}, {"np": "int64", "v": 2 ** 32 - 1},
    {"tuple": [2 ** 32 - 1, 7, 2 ** 31]}, {"tuple": [0]}, {"list": [2 ** 32 - 1, 2 ** 32 - 2]}, {"tuple_np": [3, 2 ** 31]},
    {"int": 2 ** 32}, {"int": -1},
]


def decode_seed(d: dict):
    import numpy as np

    if "int" in d:
        return int(d["int"])
    if "np" in d:
        return getattr(np, d["np"])(d["v"])
    if "tuple" in d:
        return tuple(d["tuple"])
    if "list" in d:
        return list(d["list"])
    return tuple(np.int64(v) for v in d["tuple_np"])


def run_seeds(spec: dict) -> dict:
    """one generator, one shape, every seed of `spec["ladder"]` (default SEED_LADDER), mask and ACS request"""
    out = []
    for d in spec.get("ladder", SEED_LADDER):
        for racs in (False, True):
            try:
                f = _make(spec)
                out.append({"seed": d, "return_acs": racs, "res": _digest(f(tuple(spec["shape"]), seed=decode_seed(d), return_acs=racs))})
            except Exception as e:  # noqa: BLE001
                out.append({"seed": d, "return_acs": racs, "res": _err(e)})
    return {"ok": True, "seeds": out}


def run(spec: dict) -> dict:
    """worker entry point: dispatch on spec["kind"]"""
    return {"forms": run_forms, "history": run_history, "site": run_site, "seeds": run_seeds}[spec["kind"]](spec)
