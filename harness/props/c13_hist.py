"""C13 — histories with several live iterators over ONE BatchVolumeSampler object.

Operation alphabet (shared by the Lean machine `Model/C13Machine.lean`, the correspondence and the oracle):
  (0, _) iter(bs)        -> handle (number of iter calls before it)
  (1, _) len(bs)
  (2, h) next(it_h)      -> batch | StopIteration
  (3, h) abandon it_h    (del / close() / leak a reference / throw an exception into it)
Modes (how the real object is built and iterated; the model does not depend on it):
  0 BatchVolumeSampler(DistributedSequentialSampler(ds, num_replicas, rank, limit), bs), iter(bs)
  1 Engine.build_batch_sampler(ds, bs, "sequential", limit_number_of_volumes=…) under patched rank/world, iter(bs)
  2 … + Engine.build_loader(ds, batch_sampler, num_workers=0): iterators are DataLoader iterators
"""
from __future__ import annotations

import collections
import pathlib

import boot  # noqa: F401
from torch.utils.data import Dataset

from core import err_name, ints

ITER, LEN, NEXT, ABANDON = 0, 1, 2, 3
MODES = {0: "direct", 1: "build_batch_sampler", 2: "build_loader"}
ABANDON_KINDS = ("del", "close", "leak", "throw")


class IndexDataset(Dataset):
    """a torch Dataset whose item is its own index, with `volume_indices` as the MRI datasets have"""

    def __init__(self, layout):
        self.volume_indices = collections.OrderedDict()
        off = 0
        for v, n in enumerate(layout):
            self.volume_indices[pathlib.Path(f"vol_{v:02d}.h5")] = range(off, off + n)
            off += n
        self.n = off

    def __len__(self):
        return self.n

    def __getitem__(self, i):
        return int(i)


class _ConsumerFailed(RuntimeError):
    pass


def build(layout, world, rank, limit, bs, mode):
    """-> (dataset, sequential sampler, batch sampler, iterable whose iterators are the passes, len-able)"""
    from direct.data.samplers import BatchVolumeSampler, DistributedSequentialSampler

    ds = IndexDataset(layout)
    lim = limit if limit != 0 else None
    if mode == 0:
        s = DistributedSequentialSampler(ds, num_replicas=world, rank=rank, limit_number_of_volumes=lim)
        b = BatchVolumeSampler(s, batch_size=bs)
        return ds, s, b, b
    from direct.engine import Engine
    from props.c13 import patched_comm

    with patched_comm(rank, world):
        b = Engine.build_batch_sampler(ds, bs, "sequential", limit_number_of_volumes=lim)
    if mode == 1:
        return ds, b.sampler, b, b
    loader = Engine.build_loader(ds, batch_sampler=b, num_workers=0)
    return ds, b.sampler, b, loader


def run_ops(iterable, ops, kinds):
    """Run an operation history on the real object.  -> list of ("handle", h) | ("len", n) | ("batch", [...]) |
    ("stop",) | ("closed",) | ("bad",)"""
    its, leaked, out = [], [], []
    kinds = list(kinds)
    held = []                                  # (position in out, the object that was yielded): a consumer may keep it
    for c, a in ops:
        if c == ITER:
            its.append(iter(iterable))
            out.append(("handle", len(its) - 1))
        elif c == LEN:
            out.append(("len", int(len(iterable))))
        elif c == NEXT:
            if a >= len(its) or its[a] is None:
                out.append(("bad",))
                continue
            try:
                bt = next(its[a])
            except StopIteration:
                out.append(("stop",))
                continue
            out.append(("batch", [int(i) for i in (bt.tolist() if hasattr(bt, "tolist") else bt)]))
            held.append((len(out) - 1, bt))
        elif c == ABANDON:
            if a >= len(its) or its[a] is None:
                out.append(("bad",))
                continue
            kind = kinds.pop(0) if kinds else "del"
            it = its[a]
            its[a] = None
            if kind == "close" and hasattr(it, "close"):
                it.close()
            elif kind == "throw" and hasattr(it, "throw"):
                try:
                    it.throw(_ConsumerFailed("consumer failed"))
                except (_ConsumerFailed, StopIteration):
                    pass
            elif kind == "leak":
                leaked.append(it)
            del it
            out.append(("closed",))
        else:
            raise ValueError(f"unknown op {c}")
    # a batch handed out earlier must not change when the iterator (or another one) is advanced later
    for pos, bt in held:
        now = [int(i) for i in (bt.tolist() if hasattr(bt, "tolist") else bt)]
        if now != out[pos][1]:
            out[pos] = ("batch", out[pos][1], now)
    return out


def fmt(results) -> str:
    groups = []
    for r in results:
        if r[0] in ("handle", "len"):
            groups.append(str(int(r[1])))
        elif r[0] == "batch":
            groups.append(ints(r[1]))
        else:
            groups.append({"stop": "-1", "closed": "-3", "bad": "-2"}[r[0]])
    return ("ok " + " | ".join(groups)).strip()


def flat(ops):
    return [x for c, a in ops for x in (c, a)]


# ---- operation histories ---------------------------------------------------------------------------
def gen_ops(rng, nbound, scenario=None):
    """-> (ops, abandon kinds, scenario).  `nbound` >= number of batches of a pass; a drain is nbound+1 `next`s."""
    scenario = scenario or rng.choice(["abandon", "abandon", "peek", "zip", "zip-lag", "random", "random", "complete"])
    ops, kinds = [], []
    n_it = 0

    def new():
        nonlocal n_it
        ops.append((ITER, 0))
        n_it += 1
        return n_it - 1

    def drain(h):
        ops.extend([(NEXT, h)] * (nbound + 1))

    def abandon(h):
        ops.append((ABANDON, h))
        kinds.append(rng.choice(ABANDON_KINDS))

    if scenario == "abandon":
        for _ in range(rng.randint(1, 2)):
            h = new()
            ops.extend([(NEXT, h)] * rng.randint(1, max(1, nbound)))
            if rng.random() < 0.8:
                abandon(h)
            if rng.random() < 0.4:
                ops.append((LEN, 0))
        drain(new())
        if rng.random() < 0.5:
            drain(new())
    elif scenario == "peek":
        for _ in range(rng.randint(1, 3)):
            h = new()
            ops.append((NEXT, h))
            abandon(h)
        drain(new())
    elif scenario == "zip":
        a, b = new(), new()
        for _ in range(nbound + 1):
            ops.extend([(NEXT, a), (NEXT, b)])
    elif scenario == "zip-lag":
        a = new()
        ops.extend([(NEXT, a)] * rng.randint(1, max(1, nbound - 1)))
        b = new()
        for _ in range(nbound + 1):
            ops.extend([(NEXT, b), (NEXT, a)] if rng.random() < 0.5 else [(NEXT, a), (NEXT, b)])
    elif scenario == "complete":
        for _ in range(rng.randint(1, 3)):
            drain(new())
            if rng.random() < 0.5:
                ops.append((LEN, 0))
    else:  # random interleaving of up to 4 iterators
        live = []
        for _ in range(rng.randint(8, 40)):
            r = rng.random()
            if (r < 0.15 and n_it < 4) or not live:
                live.append(new())
            elif r < 0.22:
                ops.append((LEN, 0))
            elif r < 0.30:
                h = live.pop(rng.randrange(len(live)))
                abandon(h)
            else:
                ops.append((NEXT, rng.choice(live)))
        drain(new())
    return ops, kinds, scenario


# ---- the property on the real object, for one history ----------------------------------------------
def check_history(layout, world, rank, limit, bs, mode, ops, kinds):
    """Yields (key, what, observed).  For every iterator ever created — whatever else happened on the sampler
    object before and in between —: each batch holds consecutive indices of one volume, 1..bs of them; the batches are,
    in order, a prefix of the rank's index list; an iterator run to its end delivered all of it in exactly len() batches."""
    try:
        ds, s, b, iterable = build(layout, world, rank, limit, bs, mode)
        idx = [int(i) for i in s]
        res = run_ops(iterable, ops, kinds)
    except Exception as e:  # noqa: BLE001
        yield ("bvs-history-raises", f"history raises {err_name(e)}: {e!r}"[:200], {"err": repr(e)})
        return
    vols = [ds.volume_indices[f] for f in s.volume_indices]
    per, done, handle_of = collections.defaultdict(list), set(), {}
    n_it = 0
    lens = set()
    for (c, a), r in zip(ops, res):
        if r[0] == "batch" and len(r) == 3:
            yield ("bvs-history-batch-mutated-after-yield",
                   f"batch {r[1]} handed out by iterator {a} reads {r[2]} after later operations (aliased buffer)",
                   {"results": [list(x) for x in res]})
        if c == ITER:
            handle_of[n_it] = True
            n_it += 1
        elif c == LEN:
            lens.add(r[1])
        elif c == NEXT:
            if r[0] == "batch":
                if a in done:
                    yield ("bvs-history-after-stop", f"iterator {a} yields {r[1]} after StopIteration", {"results": res})
                per[a].append(r[1])
            elif r[0] == "stop":
                done.add(a)
    obs = {"per_iterator": {str(k): v for k, v in per.items()}, "exhausted": sorted(done), "len": sorted(lens),
           "rank_indices": idx}
    if len(lens) > 1:
        yield ("bvs-history-len-changes", f"len() changes during the history: {sorted(lens)}", obs)
    for h in range(n_it):
        batches = per.get(h, [])
        for bt in batches:
            if not bt or len(bt) > bs:
                yield ("bvs-history-batch-size", f"iterator {h}: batch of size {len(bt)} with batch_size {bs}", obs)
            elif bt != list(range(bt[0], bt[0] + len(bt))):
                yield ("bvs-history-not-consecutive", f"iterator {h}: batch {bt} is not consecutive", obs)
            elif not any(all(i in r for i in bt) for r in vols):
                yield ("bvs-history-mixed-volumes", f"iterator {h}: batch {bt} mixes volumes", obs)
        fl = [i for bt in batches for i in bt]
        if fl != idx[:len(fl)]:
            yield ("bvs-history-index-order", f"iterator {h}: batches are not a prefix of the rank's indices", obs)
        if h in done:
            if fl != idx:
                yield ("bvs-history-index-lost", f"iterator {h} ran to its end but delivered {len(fl)} of {len(idx)} indices", obs)
            n = int(len(iterable))
            if len(batches) != n:
                yield ("bvs-history-len-mismatch", f"iterator {h} ran to its end with {len(batches)} batches, len() = {n}", obs)
