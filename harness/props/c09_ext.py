"""C09 phase 3 — option x size-class matrix, Gaussian window, map types, ESPIRiT, histories, in-place checks, every
engine class, float-range boundary.  Used by props/c09.py (correspondence / oracle / replay)."""
from __future__ import annotations

import functools
import importlib
import inspect
import math
import pkgutil
import warnings
from fractions import Fraction

import boot  # noqa: F401
import torch

from core import Ctx, Violation, err_name, ints
from props import c09 as base

# size classes: 1 along each spatial axis, odd, even, non-square; 2-D (h, w) and 3-D (slice, h, w); w = width = dim -2
SIZES_2D = [(1, 1), (1, 4), (4, 1), (1, 3), (3, 1), (2, 2), (3, 3), (2, 5), (5, 2), (3, 4), (4, 4)]
SIZES_3D = [(1, 1, 1), (1, 3, 1), (1, 1, 4), (2, 1, 3), (2, 3, 1), (1, 2, 2), (2, 3, 4), (3, 2, 2)]
SIGMAS_EXACT = [None, (0, 1), (1, 2), (1, 1), (2, 1), (-1, 2)]          # rational sigmas used against the model


def size_class(spatial) -> str:
    tags = []
    if any(s == 1 for s in spatial):
        tags.append("one@" + "".join("1" if s == 1 else "x" for s in spatial))
    if any(s % 2 == 1 and s > 1 for s in spatial):
        tags.append("odd")
    if any(s % 2 == 0 for s in spatial):
        tags.append("even")
    if len(set(spatial[-2:])) > 1:
        tags.append("nonsquare")
    return f"{len(spatial)}d:" + "+".join(tags)


def sigma_float(sig):
    return None if sig is None else sig[0] / sig[1]


def sigma_group(sig):
    return [0, 0] if sig is None else list(sig)


def make_acs(rng, b, spatial, kind, as_bool):
    three_d = len(spatial) == 3
    h, w = spatial[-2:]
    mshape = [b, 1] + ([1] if three_d else []) + [h, w, 1]
    if kind == "empty":
        m = torch.zeros(mshape)
    elif kind == "full":
        m = torch.ones(mshape)
    elif kind == "centre":
        m = torch.zeros(mshape)
        lo, hi = w // 2 - max(w // 4, 0), w // 2 + max(w // 4, 1)
        m[..., max(lo, 0):max(hi, 1), :] = 1.0
    elif kind == "weighted":     # non-boolean mask values: `where(mask == 0, 0, k)` keeps the data, a product would not
        m = torch.tensor([rng.choice([0, 2, 3]) for _ in range(math.prod(mshape))], dtype=torch.float32).reshape(mshape)
        return m
    else:
        m = torch.tensor([rng.choice([0, 1, 1]) for _ in range(math.prod(mshape))], dtype=torch.float32).reshape(mshape)
    return m.bool() if as_bool else m


class PlantedCalib(torch.nn.Module):
    def __init__(self, planted):
        super().__init__()
        self.planted, self.n = planted, 0

    def forward(self, sample):
        self.n += 1
        return self.planted.clone()


class RecNet(torch.nn.Module):
    """identity network recording the rank of what it is called with"""

    def __init__(self):
        super().__init__()
        self.ranks = []

    def forward(self, x):
        self.ranks.append(x.dim())
        return x.clone()


# --------------------------------------------------------------------------------------------------
# correspondence
def window_case(W, sig, three_d):
    from direct.data.mri_transforms import EstimateSensitivityMapModule, SensitivityMapType
    shape = [1, 1] + ([2] if three_d else []) + [2, W, 2]
    k = torch.ones(shape)
    acs = torch.ones([1, 1] + ([1] if three_d else []) + [2, W, 1])

    def run():
        op = base.Identity()
        mod = EstimateSensitivityMapModule(backward_operator=op, type_of_map=SensitivityMapType.RSS_ESTIMATE,
                                           gaussian_sigma=sigma_float(sig))
        with warnings.catch_warnings():
            warnings.simplefilter("ignore")
            out = mod.estimate_acs_image({"kspace": k.clone(), "acs_mask": acs})
        if list(out.shape) != shape:
            return "err Shape"
        if not torch.isfinite(out).all():
            return "err NonFinite"
        row = out.reshape(-1, W, 2)
        if not all(torch.equal(row[i], row[0]) for i in range(row.shape[0])):
            return "err NotAlongWidth"            # the window must vary along the width axis only
        wv = row[0, :, 0].double()
        if sig is None or sig[0] == 0:
            return "ok off" if torch.equal(out, k) else "err WindowWithoutSigma"
        if not torch.isfinite(wv).all():
            return "err NonFinite"
        if (wv <= 0).any() or (wv > 1).any():
            return "err WeightRange"
        es = []
        for v in (-torch.log(wv)).tolist():
            f = Fraction(v).limit_denominator(1024)
            if abs(float(f) - v) > 4e-6:
                return "err Inexact"
            es += [f.numerator, f.denominator]
        return "ok " + ints(es)
    return {"line": base.pline("window", [W], sigma_group(sig)), "impl": base._impl(run), "nontrivial": W >= 2 and bool(sig and sig[0]),
            "key": ("window", W, sig, three_d), "bucket": f"window/W={'1' if W == 1 else 'odd' if W % 2 else 'even'}/sigma={sigma_float(sig)}"}


def correspondence_ext(ctx: Ctx):
    from direct.data.mri_transforms import EstimateSensitivityMapModule, SensitivityMapType

    rng = ctx.rng
    # ---- the Gaussian window's coordinates: linspace(-1, 1, W), every W <= 10 (W = 1 included), every sigma form
    for W in range(1, 11):
        for sig in SIGMAS_EXACT:
            yield window_case(W, sig, three_d=(W + (sig or (0, 0))[0]) % 3 == 0)
    # ---- RSS estimate with mask and window inside the model: size classes x sigma (fixed matrix) ----------------
    matrix = [(sp, sig) for sp in SIZES_2D + SIZES_3D for sig in SIGMAS_EXACT]
    extra = ctx.budget(20, 600)
    for i in range(len(matrix) + extra):
        if i < len(matrix):
            spatial, sig = matrix[i]
        else:
            spatial, sig = rng.choice(SIZES_2D + SIZES_3D), rng.choice(SIGMAS_EXACT)
        spatial = list(spatial)
        b, c = rng.choice([1, 1, 2]), rng.choice([1, 2, 2, 3])
        kind = rng.choice(["dyadic", "pythagorean", "pythagorean"])
        k, zc = base.gen_coil_image(rng, b, c, spatial, kind)
        acs_kind = rng.choice(["full", "full", "empty", "partial", "partial", "centre", "weighted"])
        acs = make_acs(rng, b, spatial, acs_kind, rng.random() < 0.5)
        shape = list(k.shape)
        mfull = (acs + 0.0).expand([b, 1] + spatial + [1]).reshape(-1)

        def run(k=k, acs=acs, sig=sig, shape=shape):
            op = base.Identity()
            mod = EstimateSensitivityMapModule(backward_operator=op, type_of_map=SensitivityMapType.RSS_ESTIMATE,
                                               gaussian_sigma=sigma_float(sig))
            kin, ain = k.clone(), acs.clone()
            with warnings.catch_warnings():
                warnings.simplefilter("ignore")
                out = mod({"kspace": kin, "acs_mask": ain})["sensitivity_map"]
            if len(op.seen) != 1 or list(out.shape) != shape:
                return "err AcsImage"
            if op.seen[0][1] != ((2, 3) if len(shape) == 5 else (3, 4)):
                return "err BackwardDims"
            if not (torch.equal(kin, k) and torch.equal(ain, acs)):
                return "err InputModified"
            return base.ok_rats(shape, out)
        yield {"line": base.pline("estgauss", shape, sigma_group(sig), base.int_data(k), base.int_data(mfull)), "impl": base._impl(run),
               "nontrivial": c >= 2 or acs_kind in ("partial", "centre", "weighted"),
               "bucket": f"estgauss/{size_class(spatial)}/sigma={sigma_float(sig)}/c={c}/acs={acs_kind}" + ("/zero-coil" if zc else "")}
    # ---- the three map types flow into the common tail (planted ESPIRiT calibrator) --------------------------------
    for i in range(ctx.budget(45, 600)):
        ty = i % 3
        spatial = list(rng.choice(SIZES_2D + (SIZES_3D if rng.random() < 0.4 else [])))
        b, c = rng.choice([1, 2]), rng.choice([1, 2, 3, 4] if ty else [1, 4])
        kind = rng.choice(["dyadic", "pythagorean"])
        calib, _ = base.gen_coil_image(rng, b, c, spatial, kind)
        acs_image, _ = base.gen_coil_image(rng, b, c, spatial, kind)
        shape = list(calib.shape)

        form = ["member", "lower", "upper", "mixed"][(i // 3) % 4]

        def run(ty=ty, calib=calib, acs_image=acs_image, shape=shape, form=form):
            op = base.Identity()
            typ = [SensitivityMapType.UNIT, SensitivityMapType.RSS_ESTIMATE, SensitivityMapType.ESPIRIT][ty]
            typ = enum_forms(typ)[form]           # member / lower / UPPER / Mixed-case string: same behaviour expected
            mod = EstimateSensitivityMapModule(backward_operator=op, type_of_map=typ)
            pc = PlantedCalib(calib)
            if ty == 2:
                mod.espirit_calibrator = pc
            acs = torch.ones([shape[0], 1] + ([1] if len(shape) == 6 else []) + shape[-3:-1] + [1])
            with warnings.catch_warnings():
                warnings.simplefilter("ignore")
                out = mod({"kspace": acs_image.clone(), "acs_mask": acs})["sensitivity_map"]
            if pc.n != (1 if ty == 2 else 0) or len(op.seen) != (1 if ty == 1 else 0) or list(out.shape) != shape:
                return "err BranchCalls"
            return base.ok_rats(shape, out)
        yield {"line": base.pline("forward", [ty], shape, base.int_data(calib), base.int_data(acs_image)), "impl": base._impl(run),
               "nontrivial": c >= 2, "key": ("forward", i, form),
               "bucket": f"forward/{['unit', 'rss', 'espirit'][ty]}/{form}/{size_class(spatial)}/c={c}"}
    # ---- which refinement model the engine applies (all 16 combinations) ------------------------------------------
    eng = base.toy_engine()
    for mc in (0, 1):
        for h2 in (0, 1):
            for h3 in (0, 1):
                for nd in (2, 3):
                    def run(mc=mc, h2=h2, h3=h3, nd=nd):
                        n2, n3 = RecNet(), RecNet()
                        eng.ndim = nd
                        eng.models = {**({"sensitivity_model": n2} if h2 else {}), **({"sensitivity_model_3d": n3} if h3 else {})}
                        c, sl = (2 if mc else 1), 3
                        S = torch.ones([1, c] + ([sl] if nd == 3 else []) + [2, 2, 2])
                        try:
                            eng.compute_sensitivity_map(S)
                        finally:
                            eng.models = {}
                        if n3.ranks and not n2.ranks:
                            return "ok 2" if (len(n3.ranks) == c and set(n3.ranks) == {5}) else "err Calls3d"
                        if n2.ranks and not n3.ranks:
                            if len(n2.ranks) == c and set(n2.ranks) == {4} and nd == 2:
                                return "ok 1"
                            if len(n2.ranks) == c * sl and set(n2.ranks) == {4} and nd == 3:
                                return "ok 3"
                            return "err Calls2d"
                        return "ok 0" if not (n2.ranks or n3.ranks) else "err BothCalled"
                    yield {"line": base.pline("choice", [mc, h2, h3, nd]), "impl": base._impl(run), "nontrivial": bool(mc and (h2 or h3)),
                           "bucket": "engine-model-choice"}


LO, HI = 2.0 ** -60, 2.0 ** 60
OUT_OF_RANGE_BOUND = 4.0


def check_map_ranged(S: torch.Tensor, src: torch.Tensor, what: str):
    """`base.check_map`, with the pixels whose coil vector lies outside the documented float32 range (largest magnitude
    over coils and components not in [2^-60, 2^60], and not 0) judged for finiteness only (the stated partial)"""
    if not torch.isfinite(S).all():
        return f"{what}-nonfinite", "the sensitivity map contains NaN or Inf"
    if src is None or not torch.isfinite(src).all():
        return base.check_map(S, src if src is None else None, what)
    m = src.abs().amax(dim=(1, -1), keepdim=True) if src.shape[1] > 0 else src.abs().sum(dim=(1, -1), keepdim=True)
    ok = (m == 0) | ((m >= LO) & (m <= HI))
    if ok.all():
        return base.check_map(S, src, what)
    # outside the documented range: finite (checked above) and bounded — a pixel whose squares under/overflow may lose its
    # normalisation (0, or off by the rounding of subnormal squares), but no entry may blow up
    tot = (S.double() ** 2).sum(-1, keepdim=True).sum(1, keepdim=True)
    if (tot[~ok] > OUT_OF_RANGE_BOUND).any():
        return f"{what}-unbounded-outside-range", (f"a pixel whose magnitudes lie outside 2^-60..2^60 has sum over coils of |S|^2 = "
                                                   f"{float(tot[~ok].max()):.3g} > {OUT_OF_RANGE_BOUND}")
    okb = ok.expand_as(S)
    return base.check_map(torch.where(okb, S, torch.zeros_like(S)), torch.where(okb, src, torch.zeros_like(src)), what)


# --------------------------------------------------------------------------------------------------
# oracle: option x size matrix on the real module (real inverse FFT)
def _kdata(seed, shape, scale_exp, feat):
    g = torch.Generator().manual_seed(seed)
    k = torch.randn(shape, generator=g) * (2.0 ** scale_exp)
    c = shape[1]
    if feat == "zero-coil" and c > 0:
        k[:, seed % c] = 0
    elif feat == "zero-border":
        k[..., :1, :, :] = 0
        k[..., :, -1:, :] = 0
    elif feat == "all-zero":
        k.zero_()
    return k


BACKWARDS = {"ifft2": {}, "ifft2-uncentered": {"centered": False}, "ifft2-unnormalized": {"normalized": False}}


def matrix_case(spec: dict):
    """one cell of the option x size matrix -> (key, what) or None"""
    import direct.data.transforms as T
    from direct.data.mri_transforms import EstimateSensitivityMap, EstimateSensitivityMapModule, SensitivityMapType
    from direct.types import KspaceKey

    spatial, b, c = list(spec["spatial"]), spec["b"], spec["c"]
    shape = [b, c] + spatial + [2]
    k = _kdata(spec["seed"], shape, spec["scale"], spec["feat"])
    acs = make_acs(__import__("random").Random(spec["seed"]), b, spatial, spec["acs"], spec["seed"] % 2 == 0)
    typ = SensitivityMapType(spec["typ"])
    bw = functools.partial(T.ifft2, **BACKWARDS[spec["backward"]]) if spec["backward"] != "ifft2" else T.ifft2
    key = spec["key"]
    kw = dict(kspace_key=KspaceKey.MASKED_KSPACE if key == "masked_kspace" else KspaceKey.KSPACE, backward_operator=bw, type_of_map=typ, gaussian_sigma=spec["sigma"])
    what = f"matrix-{spec['typ']}" + ("-gauss" if spec["sigma"] else "")
    with warnings.catch_warnings():
        warnings.simplefilter("ignore")
        if spec["wrapped"]:         # the un-batched transform used by build_supervised_mri_transforms
            tr = EstimateSensitivityMap(**kw)
            outs, srcs = [], []
            for bi in range(b):
                sample = {key: k[bi].clone(), "acs_mask": acs[bi].clone()}
                outs.append(tr(sample)["sensitivity_map"])
            S = torch.stack(outs) if outs else torch.zeros(shape)
            src = (EstimateSensitivityMapModule(**kw).estimate_acs_image({key: k.clone(), "acs_mask": acs.clone()})
                   if typ == SensitivityMapType.RSS_ESTIMATE else torch.ones(shape))
        else:
            mod = EstimateSensitivityMapModule(**kw)
            sample = {key: k.clone(), "acs_mask": acs.clone()}
            src = mod.estimate_acs_image(dict(sample)) if typ == SensitivityMapType.RSS_ESTIMATE else torch.ones(shape)
            S = mod(sample)["sensitivity_map"]
            if not torch.equal(sample[key], k) or not torch.equal(sample["acs_mask"], acs):
                return f"{what}-input-modified", "the k-space or the ACS mask of the sample was modified in place"
            if set(sample) != {key, "acs_mask", "sensitivity_map"}:
                return f"{what}-keys", f"unexpected keys in the sample: {sorted(sample)}"
    if list(S.shape) != shape:
        return f"{what}-shape", f"sensitivity map of shape {list(S.shape)} for k-space {shape}"
    return check_map_ranged(S, src, what)


def matrix_specs(ctx: Ctx, deep: bool):
    rng = ctx.rng
    sigmas = [None, 0, 0.0, 0.05, 0.5, 2.0, -0.7]
    reps = ctx.budget(1, 6) * (2 if deep else 1)
    for spatial in SIZES_2D + SIZES_3D:
        for typ, sigma in [("unit", None)] + [("rss_estimate", s) for s in sigmas]:
            for acs in ("full", "empty", "centre"):
                for _ in range(reps):
                    yield {"spatial": list(spatial), "typ": typ, "sigma": sigma, "acs": acs, "b": rng.choice([1, 2]),
                           "c": rng.choice([1, 1, 2, 3, 5]), "feat": rng.choice(["plain", "plain", "zero-coil", "zero-border", "all-zero"]),
                           "scale": rng.choice([-50, -20, 0, 0, 0, 20, 50]), "seed": rng.randrange(1, 2 ** 20),
                           "wrapped": rng.random() < 0.25, "key": rng.choice(["kspace", "kspace", "masked_kspace"]),
                           "backward": rng.choice(["ifft2", "ifft2", "ifft2-uncentered", "ifft2-unnormalized"])}


def oracle_matrix(ctx: Ctx, deep: bool):
    for spec in matrix_specs(ctx, deep):
        ctx.count(("o-matrix", tuple(sorted((k, str(v)) for k, v in spec.items()))), spec["c"] >= 2 or spec["feat"] != "plain",
                  bucket=f"oracle/matrix/{spec['typ']}/sigma={spec['sigma']!r}/{size_class(spec['spatial'])}/c={min(spec['c'], 2)}{'+' if spec['c'] > 2 else ''}")
        try:
            res = matrix_case(spec)
        except Exception as e:  # noqa: BLE001
            res = (f"matrix-{spec['typ']}-raises", f"EstimateSensitivityMapModule raises {err_name(e)}: {str(e)[:200]}")
        if res:
            yield Violation(res[0], res[1] + f" [spatial={spec['spatial']} sigma={spec['sigma']} acs={spec['acs']} coils={spec['c']}]",
                            {"op": "matrix", "spec": spec})


# --------------------------------------------------------------------------------------------------
# oracle: the real ESPIRiT path at tiny sizes
def espirit_feasible(c, h, acs_w, ks):
    return h >= ks and acs_w >= ks and (h - ks + 1) * (acs_w - ks + 1) >= c * ks * ks


def espirit_case(spec: dict):
    import direct.data.transforms as T
    from direct.data.mri_transforms import EstimateSensitivityMapModule, SensitivityMapType

    b, c, h, w, ks, acs_w = (spec[x] for x in ("b", "c", "h", "w", "ks", "acs_w"))
    shape = [b, c + spec["pad"], h, w, 2]
    k = _kdata(spec["seed"], shape, spec["scale"], "plain")
    if spec["pad"]:
        k[:, c:] = 0                 # zero-padded coils (PadCoilDimension) are dropped by the calibrator
    acs = torch.zeros([b, 1, h, w, 1], dtype=torch.bool)
    lo = (w - acs_w) // 2
    acs[..., lo:lo + acs_w, :] = True
    mod = EstimateSensitivityMapModule(backward_operator=T.ifft2, type_of_map=SensitivityMapType.ESPIRIT, espirit_threshold=spec["thr"],
                                       espirit_kernel_size=ks, espirit_crop=spec["crop"], espirit_max_iters=spec["iters"])
    with warnings.catch_warnings():
        warnings.simplefilter("ignore")
        S = mod({"kspace": k.clone(), "acs_mask": acs})["sensitivity_map"]
    if list(S.shape) != shape:
        return "espirit-shape", f"ESPIRiT map of shape {list(S.shape)} for k-space {shape}"
    if spec["pad"] and not (S[:, c:] == 0).all():
        return "espirit-padded-coil-nonzero", "a zero-padded coil got a non-zero ESPIRiT map"
    return base.check_map(S, None, "espirit")


def oracle_espirit(ctx: Ctx, deep: bool):
    rng = ctx.rng
    n = ctx.budget(14, 150) * (2 if deep else 1)
    i = 0
    while i < n:
        c, ks = rng.choice([1, 2, 2, 3, 4]), rng.choice([2, 2, 3])
        h, w = rng.choice([6, 7, 8, 9]), rng.choice([8, 9, 10, 12])
        acs_w = rng.choice([x for x in range(ks, w + 1)])
        if not espirit_feasible(c, h, acs_w, ks):
            continue
        i += 1
        spec = {"b": rng.choice([1, 2]), "c": c, "h": h, "w": w, "ks": ks, "acs_w": acs_w, "thr": rng.choice([0.0, 0.05, 0.05, 0.3]),
                "crop": rng.choice([0.0, 0.5, 0.95, 0.95, 0.99]), "iters": rng.choice([1, 5, 30]), "pad": rng.choice([0, 0, 2]),
                "scale": rng.choice([-40, -10, 0, 0, 10, 40]), "seed": rng.randrange(1, 2 ** 20)}
        ctx.count(("o-espirit", tuple(sorted(spec.items()))), True,
                  bucket=f"oracle/espirit/c={c}/ks={ks}/crop={spec['crop']}/thr={spec['thr']}/iters={spec['iters']}" + ("/pad_coils" if spec["pad"] else ""))
        try:
            res = espirit_case(spec)
        except Exception as e:  # noqa: BLE001
            res = ("espirit-raises", f"ESPIRiT estimation raises {err_name(e)}: {str(e)[:200]}")
        if res:
            yield Violation(res[0], res[1] + f" [{spec}]", {"op": "espirit", "spec": spec})


def pipeline_espirit_case(spec: dict):
    """`build_mri_transforms(..., sensitivity_maps_type=ESPIRIT, sensitivity_maps_espirit_*=...)` on a raw sample"""
    import numpy as np
    import direct.data.transforms as T
    from direct.common.subsample import FastMRIEquispacedMaskFunc, FastMRIRandomMaskFunc
    from direct.data.mri_transforms import SensitivityMapType, build_mri_transforms

    seed = spec["seed"]
    rs = np.random.RandomState(seed)
    mf = (FastMRIRandomMaskFunc if seed % 2 else FastMRIEquispacedMaskFunc)(accelerations=[2], center_fractions=[0.25])
    tr = build_mri_transforms(T.fft2, T.ifft2, mf, estimate_sensitivity_maps=True, sensitivity_maps_type=SensitivityMapType.ESPIRIT,
                              sensitivity_maps_espirit_threshold=spec["thr"], sensitivity_maps_espirit_kernel_size=spec["ks"],
                              sensitivity_maps_espirit_crop=spec["crop"], sensitivity_maps_espirit_max_iters=spec["iters"],
                              pad_coils=spec["pad_coils"], use_seed=True)
    shape = (spec["c"], 8 + seed % 3, 24 + seed % 4)
    ks = ((rs.randn(*shape) + 1j * rs.randn(*shape)) * 10.0 ** [0, -4, 4][seed % 3]).astype(np.complex64)
    with warnings.catch_warnings():
        warnings.simplefilter("ignore")
        out = tr({"kspace": ks, "filename": "f", "slice_no": 0})
    S = out["sensitivity_map"]
    if S.shape[0] != max(spec["c"], spec["pad_coils"] or 0):
        return "pipeline-coil-count", f"sensitivity map has {S.shape[0]} coils"
    return base.check_map(S.unsqueeze(0), None, "pipeline-espirit")


def oracle_pipeline_espirit(ctx: Ctx, deep: bool):
    rng = ctx.rng
    for _ in range(ctx.budget(6, 48) * (2 if deep else 1)):
        ks = rng.choice([2, 2, 3])
        spec = {"c": rng.choice([1, 2, 3] if ks == 2 else [1, 2]), "ks": ks, "thr": rng.choice([0.0, 0.05, 0.2]), "crop": rng.choice([0.0, 0.8, 0.95]),
                "iters": rng.choice([1, 5, 30]), "pad_coils": rng.choice([None, None, 4]), "seed": rng.randrange(1, 2 ** 20)}
        ctx.count(("o-pipeline-espirit", tuple(sorted((k, str(v)) for k, v in spec.items()))), True,
                  bucket=f"oracle/pipeline/espirit/ks={spec['ks']}/crop={spec['crop']}" + ("/pad_coils" if spec["pad_coils"] else ""))
        try:
            res = pipeline_espirit_case(spec)
        except Exception as e:  # noqa: BLE001
            res = ("pipeline-espirit-raises", f"build_mri_transforms (ESPIRiT) raises {err_name(e)}: {str(e)[:200]}")
        if res:
            yield Violation(res[0], res[1] + f" [{spec}]", {"op": "pipeline_espirit", "spec": spec})


# --------------------------------------------------------------------------------------------------
# oracle: histories on one instance (samples of different shapes), aliasing / in-place modification
def history_case(spec: dict):
    """the same module / engine instance over a sequence of samples of different shapes gives bit-for-bit what a fresh
    instance gives on each sample; inputs are never modified; the output does not share storage with an input"""
    import direct.data.transforms as T
    from direct.data.mri_transforms import EstimateSensitivityMapModule, SensitivityMapType

    rnd = __import__("random").Random(spec["seed"])
    typ = SensitivityMapType(spec["typ"])
    mk = lambda: EstimateSensitivityMapModule(backward_operator=T.ifft2, type_of_map=typ, gaussian_sigma=spec["sigma"],  # noqa: E731
                                              espirit_kernel_size=2, espirit_max_iters=5)
    shared = mk()
    steps = []
    for j, spatial in enumerate(spec["sizes"]):
        spatial = list(spatial)
        b, c = rnd.choice([1, 2]), rnd.choice([1, 2, 3])
        if typ == SensitivityMapType.ESPIRIT:
            spatial, c = [6 + j % 3, 8 + j % 2], rnd.choice([1, 2])
        feat = rnd.choice(["plain", "zero-coil", "zero-border"])
        k = _kdata(spec["seed"] + j, [b, c] + spatial + [2], 0, "plain" if typ == SensitivityMapType.ESPIRIT else feat)
        acs = make_acs(rnd, b, spatial, "full" if typ == SensitivityMapType.ESPIRIT else rnd.choice(["full", "centre", "empty"]), True)
        steps.append((k, acs))
    # the same shapes again with different data (a cache keyed by shape shows), then the first sample again
    steps += [(_kdata(spec["seed"] + 500 + j, list(k.shape), 0, "plain"), acs) for j, (k, acs) in enumerate(list(steps))]
    steps.append(steps[0])
    with warnings.catch_warnings():
        warnings.simplefilter("ignore")
        for j, (k, acs) in enumerate(steps):
            s1 = {"kspace": k.clone(), "acs_mask": acs.clone()}
            s2 = {"kspace": k.clone(), "acs_mask": acs.clone()}
            a = shared(s1)["sensitivity_map"]
            f = mk()(s2)["sensitivity_map"]
            if a.shape != f.shape or not torch.equal(torch.nan_to_num(a, nan=7.0), torch.nan_to_num(f, nan=7.0)):
                return "history-dependence", f"step {j}: a reused EstimateSensitivityMapModule gives a different map than a fresh one"
            if not torch.equal(s1["kspace"], k) or not torch.equal(s1["acs_mask"], acs):
                return "input-modified", f"step {j}: the sample's k-space / ACS mask was modified in place"
            if a.numel() and a.untyped_storage().data_ptr() in (s1["kspace"].untyped_storage().data_ptr(),):
                return "output-aliases-input", f"step {j}: the sensitivity map shares storage with the k-space"
            r = base.check_map(a, None, "history")
            if r:
                return r
    return None


def engine_history_case(spec: dict):
    eng = base.toy_engine()
    rnd = __import__("random").Random(spec["seed"])
    seq = []
    for j, spatial in enumerate(spec["sizes"]):
        spatial = list(spatial)
        three_d = len(spatial) == 3
        b, c = rnd.choice([1, 2]), rnd.choice([1, 2, 3])
        shape = [b, c] + spatial + [2]
        S0 = _kdata(spec["seed"] + j, shape, rnd.choice([-30, 0, 30]), rnd.choice(["plain", "zero-coil", "zero-border"]))
        R = _kdata(spec["seed"] + 100 + j, shape, rnd.choice([-30, 0, 30]), rnd.choice(["plain", "zero-coil", "zero-border"]))
        mode = rnd.choice(["none", "2d"]) if not three_d else rnd.choice(["none", "3d", "slice"])
        seq.append((S0, R, mode, three_d))
    # the same shapes again with different data (a cache keyed by shape shows), then the first sample again
    seq += [(_kdata(spec["seed"] + 500 + j, list(S0.shape), 0, "plain"), _kdata(spec["seed"] + 700 + j, list(S0.shape), 0, "plain"), mode, td)
            for j, (S0, R, mode, td) in enumerate(list(seq))]
    seq.append(seq[0])
    outs = []
    try:
        for j, (S0, R, mode, three_d) in enumerate(seq):
            eng.ndim = 3 if three_d else 2
            net = base.PlantedNet(R.clone(), mode)
            eng.models = {} if mode == "none" else {"sensitivity_model_3d" if mode == "3d" else "sensitivity_model": net}
            arg = S0.clone()
            out = eng.compute_sensitivity_map(arg)
            if not torch.equal(arg, S0):
                return "input-modified", f"step {j}: compute_sensitivity_map modified its argument in place"
            if not torch.equal(net.planted, R):
                return "input-modified", f"step {j}: compute_sensitivity_map modified the network output in place"
            if out.numel() and out.untyped_storage().data_ptr() == arg.untyped_storage().data_ptr():
                return "output-aliases-input", f"step {j}: the returned map shares storage with the argument"
            refined = mode != "none" and S0.shape[1] > 1
            r = base.check_map(out, R if refined else S0, "engine-history")
            if r:
                return r
            outs.append(out)
        if not torch.equal(outs[0], outs[-1]):
            return "history-dependence", "compute_sensitivity_map on the first sample again gives a different map"
    finally:
        eng.models = {}
    return None


def oracle_histories(ctx: Ctx, deep: bool):
    rng = ctx.rng
    sizes = SIZES_2D + SIZES_3D
    cfgs = [("rss_estimate", None), ("rss_estimate", 0.5), ("rss_estimate", 2.0), ("unit", None), ("espirit", None)]
    for typ, sigma in cfgs:
        for _ in range(ctx.budget(2, 20) * (2 if deep else 1)):
            spec = {"typ": typ, "sigma": sigma, "sizes": [list(rng.choice(sizes)) for _ in range(rng.randint(3, 6))], "seed": rng.randrange(1, 2 ** 20)}
            # a singleton width and a 2-D/3-D switch in every history
            spec["sizes"][rng.randrange(len(spec["sizes"]))] = list(rng.choice([(4, 1), (1, 1), (2, 3, 1)]))
            ctx.count(("o-history", typ, sigma, spec["seed"], tuple(map(tuple, spec["sizes"]))), True, bucket=f"oracle/history/module/{typ}/sigma={sigma}")
            try:
                res = history_case(spec)
            except Exception as e:  # noqa: BLE001
                res = ("history-raises", f"EstimateSensitivityMapModule raises in a history: {err_name(e)}: {str(e)[:200]}")
            if res:
                yield Violation(res[0], res[1], {"op": "history", "spec": spec})
    for _ in range(ctx.budget(6, 60) * (2 if deep else 1)):
        spec = {"sizes": [list(rng.choice(sizes)) for _ in range(rng.randint(3, 6))], "seed": rng.randrange(1, 2 ** 20)}
        ctx.count(("o-history-engine", spec["seed"], tuple(map(tuple, spec["sizes"]))), True, bucket="oracle/history/engine")
        try:
            res = engine_history_case(spec)
        except Exception as e:  # noqa: BLE001
            res = ("history-raises", f"compute_sensitivity_map raises in a history: {err_name(e)}: {str(e)[:200]}")
        if res:
            yield Violation(res[0], res[1], {"op": "engine_history", "spec": spec})


# --------------------------------------------------------------------------------------------------
# oracle: every engine class (whatever `compute_sensitivity_map` it inherits or overrides)
_ENGINES: dict = {}


def engine_classes():
    if not _ENGINES:
        import direct.nn
        from direct.nn.mri_models import MRIModelEngine
        for m in pkgutil.walk_packages(direct.nn.__path__, "direct.nn."):
            if m.name.endswith("_engine") or m.name.endswith("mri_models"):
                mod = importlib.import_module(m.name)
                for n, o in vars(mod).items():
                    if inspect.isclass(o) and issubclass(o, MRIModelEngine) and o.__module__ == m.name:
                        _ENGINES[n] = o
    return _ENGINES


def all_engines_case(name: str, seed: int, extreme=None):
    import direct.data.transforms as T
    from omegaconf import OmegaConf
    from direct.config.defaults import DefaultConfig

    cls = engine_classes()[name]
    if inspect.isabstract(cls):
        cls = type(name + "Concrete", (cls,), {"forward_function": lambda self, data: (None, None)})
    rnd = __import__("random").Random(seed)
    three_d = rnd.random() < 0.4
    spatial = list(rnd.choice(SIZES_3D if three_d else SIZES_2D))
    b, c = rnd.choice([1, 2]), rnd.choice([1, 2, 3])
    shape = [b, c] + spatial + [2]
    S0 = _kdata(seed, shape, rnd.choice([-40, 0, 40]), rnd.choice(["plain", "zero-coil", "zero-border"]))
    R = _kdata(seed + 1, shape, rnd.choice([-40, 0, 40]), rnd.choice(["plain", "zero-coil", "zero-border", "all-zero"]))
    mode = rnd.choice(["none", "2d"]) if not three_d else rnd.choice(["none", "3d", "slice"])
    if extreme is not None:
        spatial = [2, 4, 3] if three_d else [4, 3]
        shape = [b, c] + spatial + [2]
        S0 = extreme_tensor(seed, shape, extreme[0], extreme[1])
        R = extreme_tensor(seed + 1, shape, extreme[0], extreme[1])
    models = {} if mode == "none" else {"sensitivity_model_3d" if mode == "3d" else "sensitivity_model": base.PlantedNet(R, mode)}
    eng = cls(OmegaConf.structured(DefaultConfig), torch.nn.Linear(1, 1), "cpu", T.fft2, T.ifft2, **models)
    eng.ndim = 3 if three_d else 2
    out = eng.compute_sensitivity_map(S0.clone())
    refined = mode != "none" and c > 1
    if extreme is not None:
        return check_map_ranged(out, R if refined else S0, f"engine-class-{name}")
    return base.check_map(out, R if refined else S0, f"engine-class-{name}")


def oracle_all_engines(ctx: Ctx, deep: bool):
    from direct.nn.mri_models import MRIModelEngine
    names = sorted(engine_classes())
    over = [n for n in names if engine_classes()[n].compute_sensitivity_map is not MRIModelEngine.compute_sensitivity_map]
    ctx.notes.append(f"engine classes: {len(names)}; overriding compute_sensitivity_map: {over or 'none'}")
    for name in names:
        for _ in range(ctx.budget(2, 12) * (2 if deep else 1)):
            seed = ctx.rng.randrange(1, 2 ** 20)
            ctx.count(("o-engine-class", name, seed), True, bucket=f"oracle/engine-class/{name}")
            try:
                res = all_engines_case(name, seed)
            except Exception as e:  # noqa: BLE001
                res = (f"engine-class-{name}-raises", f"{name}.compute_sensitivity_map raises {err_name(e)}: {str(e)[:200]}")
            if res:
                yield Violation(res[0], res[1], {"op": "engine_class", "name": name, "seed": seed})


# --------------------------------------------------------------------------------------------------
# oracle: the boundary of the documented float32 range (|x| = 2^-60 and 2^60 exactly, up to 64 coils)
def boundary_tensor(e: int, c: int, pattern: int):
    """(1, c, 2, 2, 2): every non-zero entry has magnitude exactly 2^e; pattern selects signs / zero components"""
    S = torch.full([1, c, 2, 2, 2], 2.0 ** e)
    if pattern % 2:
        S[..., 1] = 0                                  # purely real
    if pattern % 3 == 1:
        S[:, ::2] *= -1
    if pattern % 3 == 2 and c > 1:
        S[:, 0] = 0                                    # a zero coil next to boundary-magnitude coils
    S[:, :, 0, 0, :] = 0                               # one pixel without signal
    return S


def boundary_case(path: str, e: int, c: int, pattern: int):
    from direct.data.mri_transforms import EstimateSensitivityMapModule, SensitivityMapType
    S0 = boundary_tensor(e, c, pattern)
    if path == "engine":
        eng = base.toy_engine()
        eng.models, eng.ndim = {}, 2
        out = eng.compute_sensitivity_map(S0.clone())
    elif path == "engine-refined":
        eng = base.toy_engine()
        eng.ndim = 2
        eng.models = {"sensitivity_model": base.PlantedNet(S0, "2d")}
        try:
            out = eng.compute_sensitivity_map(torch.ones_like(S0))
        finally:
            eng.models = {}
    else:
        mod = EstimateSensitivityMapModule(backward_operator=base.Identity(), type_of_map=SensitivityMapType.RSS_ESTIMATE,
                                           gaussian_sigma=2.0 if path == "estimate-gauss" else None)
        with warnings.catch_warnings():
            warnings.simplefilter("ignore")
            out = mod({"kspace": S0.clone(), "acs_mask": torch.ones(1, 1, 2, 2, 1)})["sensitivity_map"]
    return out, S0


BOUNDARY_PATHS = ("engine", "engine-refined", "estimate", "estimate-gauss")


def oracle_boundary(ctx: Ctx, deep: bool):
    for path in BOUNDARY_PATHS:
        for e in (-60, -59, 59, 60):
            for c in (1, 2, 7, 64):
                for pattern in range(3 if not ctx.thorough else 6):
                    if path == "engine-refined" and c == 1:
                        continue
                    ctx.count(("o-boundary", path, e, c, pattern), True, bucket=f"oracle/range-boundary/{path}/2^{e}")
                    try:
                        out, S0 = boundary_case(path, e, c, pattern)
                        res = base.check_map(out, S0, "range-boundary")
                    except Exception as ex:  # noqa: BLE001
                        res = ("range-boundary-raises", f"raises {err_name(ex)}: {str(ex)[:200]}")
                    if res:
                        yield Violation(res[0], res[1] + f" [path={path} |x|=2^{e} coils={c}]",
                                        {"op": "boundary", "path": path, "e": e, "c": c, "pattern": pattern})
    # documentation of what happens outside the documented range (not judged)
    for e in (-76, -75, -74, -70, -64, -63, -61, 61, 62, 63, 64):
        row = []
        for c in (1, 64):
            try:
                out, S0 = boundary_case("engine", e, c, 0)
                s = (out.double() ** 2).sum(-1).sum(1)[0, 1, 1]
                row.append(f"c={c}: finite={bool(torch.isfinite(out).all())} sum|S|^2={float(s):.6g}")
            except Exception as ex:  # noqa: BLE001
                row.append(f"c={c}: raises {err_name(ex)}")
        ctx.notes.append(f"outside the documented range, |x| = 2^{e}: " + "; ".join(row))


# --------------------------------------------------------------------------------------------------
# oracle: enum-valued options given as member / lower-case / UPPER-case / Mixed-case string behave identically
def enum_forms(member):
    v = str(member.value)
    return {"member": member, "lower": v.lower(), "upper": v.upper(), "mixed": "_".join(w.capitalize() for w in v.split("_"))}


def enum_form_case(spec: dict):
    """the map computed with `type_of_map` (and `kspace_key`) given in the form `spec['form']` equals, bit for bit, the
    one computed with the enum member, and is unit-or-zero / finite"""
    import numpy as np
    import direct.data.transforms as T
    from direct.common.subsample import FastMRIEquispacedMaskFunc
    from direct.data.mri_transforms import (EstimateSensitivityMap, EstimateSensitivityMapModule, SensitivityMapType,
                                            build_mri_transforms)
    from direct.types import KspaceKey

    member = SensitivityMapType(spec["typ"])
    form, seed, c = spec["form"], spec["seed"], spec["c"]
    outs = []
    for f in ("member", form):
        typ = enum_forms(member)[f]
        with warnings.catch_warnings():
            warnings.simplefilter("ignore")
            if spec["site"] == "pipeline":
                rs = np.random.RandomState(seed)
                mf = FastMRIEquispacedMaskFunc(accelerations=[2], center_fractions=[0.25])
                tr = build_mri_transforms(T.fft2, T.ifft2, mf, estimate_sensitivity_maps=True, sensitivity_maps_type=typ,
                                          sensitivity_maps_espirit_kernel_size=2, sensitivity_maps_espirit_max_iters=5, use_seed=True)
                shape = (c, 8, 24)
                ks = (rs.randn(*shape) + 1j * rs.randn(*shape)).astype(np.complex64)
                outs.append(tr({"kspace": ks, "filename": "f", "slice_no": 0})["sensitivity_map"].unsqueeze(0))
            else:
                shape = [1, c, 6, 8, 2]
                k = _kdata(seed, shape, 0, "plain")
                acs = torch.zeros(1, 1, 6, 8, 1, dtype=torch.bool)
                acs[..., 1:7, :] = True
                # `kspace_key` is a dictionary key: only the member and its own value are valid forms
                kkey = KspaceKey.KSPACE if f == "member" else "kspace"
                kw = dict(kspace_key=kkey, backward_operator=T.ifft2, type_of_map=typ, espirit_kernel_size=2, espirit_max_iters=5)
                if spec["site"] == "wrapped":
                    outs.append(EstimateSensitivityMap(**kw)({"kspace": k[0].clone(), "acs_mask": acs[0].clone()})["sensitivity_map"].unsqueeze(0))
                else:
                    outs.append(EstimateSensitivityMapModule(**kw)({"kspace": k.clone(), "acs_mask": acs.clone()})["sensitivity_map"])
    if outs[0].shape != outs[1].shape or not torch.equal(torch.nan_to_num(outs[0], nan=7.0), torch.nan_to_num(outs[1], nan=7.0)):
        return "enum-form-dependence", (f"type_of_map given as {enum_forms(member)[form]!r} gives a different sensitivity map than "
                                        f"the enum member {member!r}")
    return base.check_map(outs[1], None, "enum-form")


def oracle_enum_forms(ctx: Ctx, deep: bool):
    rng = ctx.rng
    for typ in ("unit", "rss_estimate", "espirit"):
        for form in ("lower", "upper", "mixed"):
            for site in ("module", "wrapped", "pipeline"):
                for _ in range(ctx.budget(1, 4)):
                    spec = {"typ": typ, "form": form, "site": site, "c": rng.choice([2, 3]), "seed": rng.randrange(1, 2 ** 20)}
                    ctx.count(("o-enum-form", typ, form, site, spec["c"], spec["seed"]), True, bucket=f"oracle/enum-form/{typ}/{form}/{site}")
                    try:
                        res = enum_form_case(spec)
                    except Exception as e:  # noqa: BLE001
                        res = ("enum-form-raises", f"type_of_map given as a {form}-case string raises {err_name(e)}: {str(e)[:200]}")
                    if res:
                        yield Violation(res[0], res[1] + f" [{spec}]", {"op": "enum_form", "spec": spec})


# --------------------------------------------------------------------------------------------------
# oracle: non-finite k-space entries OFF the ACS mask never reach the map (apply_mask = where(mask == 0, 0, k))
def offmask_case(spec: dict):
    import direct.data.transforms as T
    from direct.data.mri_transforms import EstimateSensitivityMapModule, SensitivityMapType
    spatial = list(spec["spatial"])
    shape = [1, spec["c"]] + spatial + [2]
    k = _kdata(spec["seed"], shape, 0, "plain")
    acs = make_acs(__import__("random").Random(spec["seed"]), 1, spatial, "centre", True)
    off = (~acs).expand([1, spec["c"]] + spatial + [2])
    bad = k.clone()
    bad[off] = torch.tensor([float("inf"), float("-inf"), float("nan")])[torch.arange(int(off.sum())) % 3]
    clean = k.clone()
    clean[off] = 0.0
    outs = []
    for data in (bad, clean):
        mod = EstimateSensitivityMapModule(backward_operator=T.ifft2, type_of_map=SensitivityMapType.RSS_ESTIMATE, gaussian_sigma=spec["sigma"])
        with warnings.catch_warnings():
            warnings.simplefilter("ignore")
            outs.append(mod({"kspace": data.clone(), "acs_mask": acs.clone()})["sensitivity_map"])
    if not torch.isfinite(outs[0]).all():
        return "offmask-nonfinite", "Inf/NaN k-space entries outside the ACS mask reach the sensitivity map"
    if not torch.equal(outs[0], outs[1]):
        return "offmask-dependence", "the map depends on k-space entries outside the ACS mask"
    return base.check_map(outs[0], None, "offmask")


def oracle_offmask(ctx: Ctx, deep: bool):
    rng = ctx.rng
    for spatial in [(4, 4), (3, 5), (1, 4), (2, 3, 4), (1, 1, 5)]:
        for sigma in (None, 0.5):
            for _ in range(ctx.budget(1, 6)):
                spec = {"spatial": list(spatial), "sigma": sigma, "c": rng.choice([1, 2, 3]), "seed": rng.randrange(1, 2 ** 20)}
                ctx.count(("o-offmask", tuple(spatial), sigma, spec["c"], spec["seed"]), True, bucket=f"oracle/off-mask-nonfinite/sigma={sigma}")
                try:
                    res = offmask_case(spec)
                except Exception as e:  # noqa: BLE001
                    res = ("offmask-raises", f"raises {err_name(e)}: {str(e)[:200]}")
                if res:
                    yield Violation(res[0], res[1] + f" [{spec}]", {"op": "offmask", "spec": spec})


# --------------------------------------------------------------------------------------------------
# oracle: the whole float32 exponent range 2^-149 … 2^127 (denormals to near-overflow), also mixed across coils / pixels:
# finite everywhere; unit-or-zero where the pixel lies inside the documented range; bounded (sum |S|^2 <= 4) outside it
LADDER = [-149, -140, -127, -126, -110, -90, -84, -76, -75, -74, -70, -64, -61, -60, 0, 60, 61, 63, 64, 90, 120, 126, 127]
FMAX = 3.4028234663852886e38


def extreme_tensor(seed: int, shape, kind: str, e: int):
    g = torch.Generator().manual_seed(seed)
    rnd = __import__("random").Random(seed)
    x = torch.randn(shape, generator=g).clamp(-3, 3)
    x[x.abs() < 0.25] = 0.25
    if kind == "uniform":
        x = x * (2.0 ** max(e, -149)) if e < 126 else x / 4 * (2.0 ** e)
    elif kind == "pow2":                       # every entry exactly ±2^e (2^-149 = smallest denormal, 2^127 near overflow)
        x = torch.sign(x) * (2.0 ** e)
    elif kind == "region":                     # normal-scale data with a block of pixels at 2^e (the seeded corner)
        x[..., shape[-3] // 2:, :, :] *= (2.0 ** e) if e < 126 else (2.0 ** e) / 4
    elif kind == "coil-mixed":                 # every coil its own magnitude from the ladder
        for ci in range(shape[1]):
            ee = e if ci == 0 else rnd.choice(LADDER)
            x[:, ci] *= (2.0 ** ee) if ee < 126 else (2.0 ** ee) / 4
    elif kind == "pixel-mixed":                # every pixel its own magnitude
        ex = torch.tensor([rnd.choice(LADDER) for _ in range(math.prod(shape[2:-1]))], dtype=torch.float64).reshape([1, 1] + list(shape[2:-1]) + [1])
        x = (x.double() / 4 * (2.0 ** ex)).float()
    x = torch.nan_to_num(x, nan=0.0, posinf=FMAX, neginf=-FMAX)
    if rnd.random() < 0.3:
        x[..., 0, :, :] = 0                    # a row without signal
    return x


EXTREME_KINDS = ("uniform", "pow2", "region", "coil-mixed", "pixel-mixed")
EXTREME_PATHS = ("forward-espirit-planted", "estimate-identity", "estimate-identity-gauss", "estimate-ifft2", "engine", "engine-refined", "engine-3d-slice", "jointicnet")


def extreme_case(spec: dict):
    import direct.data.transforms as T
    from direct.data.mri_transforms import EstimateSensitivityMapModule, SensitivityMapType

    path, kind, e, seed, c = spec["path"], spec["kind"], spec["e"], spec["seed"], spec["c"]
    three_d = path == "engine-3d-slice"
    shape = [1, c] + ([2] if three_d else []) + [4, 3, 2]
    X = extreme_tensor(seed, shape, kind, e)
    what = f"extreme-{path}"
    if path == "forward-espirit-planted":      # the common tail of `forward` on an arbitrary calibrator output
        mod = EstimateSensitivityMapModule(backward_operator=base.Identity(), type_of_map=SensitivityMapType.ESPIRIT)
        mod.espirit_calibrator = PlantedCalib(X)
        with warnings.catch_warnings():
            warnings.simplefilter("ignore")
            out = mod({"kspace": torch.ones_like(X), "acs_mask": torch.ones(1, 1, 4, 3, 1, dtype=torch.bool)})["sensitivity_map"]
        return check_map_ranged(out, X, what)
    if path.startswith("estimate"):
        ident = "identity" in path
        if not ident:
            X = X.clamp(-2.0 ** 120, 2.0 ** 120)          # the inverse FFT itself must not overflow
        mod = EstimateSensitivityMapModule(backward_operator=base.Identity() if ident else T.ifft2, type_of_map=SensitivityMapType.RSS_ESTIMATE,
                                           gaussian_sigma=2.0 if path.endswith("gauss") else None)
        sample = {"kspace": X.clone(), "acs_mask": torch.ones(1, 1, 4, 3, 1, dtype=torch.bool)}
        with warnings.catch_warnings():
            warnings.simplefilter("ignore")
            src = mod.estimate_acs_image(dict(sample))
            out = mod(sample)["sensitivity_map"]
        if not torch.isfinite(src).all():
            return None                                    # the ACS image itself overflowed: outside "finite input"
        return check_map_ranged(out, src, what)
    if path == "jointicnet":
        from direct.nn.jointicnet.jointicnet import JointICNet
        torch.manual_seed(seed)
        net = JointICNet(T.fft2, T.ifft2, 1, False, image_unet_num_filters=2, image_unet_num_pool_layers=1, kspace_unet_num_filters=2,
                         kspace_unet_num_pool_layers=1, sens_unet_num_filters=2, sens_unet_num_pool_layers=1).eval()
        with torch.no_grad():
            net.lr_sens.zero_()                            # no sensitivity update: the network normalises exactly the maps it is given
        # the image normalisation of the network (image / max |image|) needs some normal-scale signal: half of the pixels
        X = extreme_tensor(seed, shape, "region", e).clamp(-2.0 ** 100, 2.0 ** 100)
        seen = []
        orig = net._forward_operator

        def rec(image, sampling_mask, sensitivity_map):
            seen.append(sensitivity_map.detach().clone())
            return orig(image, sampling_mask, sensitivity_map)
        net._forward_operator = rec
        g = torch.Generator().manual_seed(seed)
        m = torch.rand([1, 1, 4, 3, 1], generator=g) < 0.7
        y = torch.where(m, torch.randn(shape, generator=g), torch.tensor([0.0]))
        with torch.no_grad():
            net(y, m, X.clone())
        if len(seen) < 2:
            return "jointicnet-no-maps", "JointICNet never used a normalised map"
        return check_map_ranged(seen[1], X, what)      # seen[0] is the caller's map, seen[1] the one the network normalised
    eng = base.toy_engine()
    try:
        if path == "engine":
            eng.models, eng.ndim = {}, 2
            out = eng.compute_sensitivity_map(X.clone())
        elif path == "engine-refined":
            eng.ndim, eng.models = 2, {"sensitivity_model": base.PlantedNet(X, "2d")}
            out = eng.compute_sensitivity_map(torch.ones_like(X))
            if c == 1:
                X = torch.ones_like(X)
        else:
            eng.ndim, eng.models = 3, {"sensitivity_model": base.PlantedNet(X, "slice")}
            out = eng.compute_sensitivity_map(torch.ones_like(X))
            if c == 1:
                X = torch.ones_like(X)
    finally:
        eng.models = {}
    return check_map_ranged(out, X, what)


def oracle_extremes(ctx: Ctx, deep: bool):
    rng = ctx.rng
    reps = ctx.budget(1, 4) * (2 if deep else 1)
    for path in EXTREME_PATHS:
        for e in LADDER:
            for _ in range(reps):
                spec = {"path": path, "kind": rng.choice(EXTREME_KINDS), "e": e, "c": rng.choice([1, 2, 3, 5]), "seed": rng.randrange(1, 2 ** 20)}
                if path == "jointicnet":
                    spec["kind"] = "region"
                ctx.count(("o-extreme", tuple(sorted(spec.items()))), True, bucket=f"oracle/extreme/{path}/2^{e}")
                try:
                    res = extreme_case(spec)
                except Exception as ex:  # noqa: BLE001
                    res = (f"extreme-{path}-raises", f"raises {err_name(ex)}: {str(ex)[:200]}")
                if res:
                    yield Violation(res[0], res[1] + f" [{spec}]", {"op": "extreme", "spec": spec})
    # every engine class (= every site of the sens_sites table goes through the class's compute_sensitivity_map)
    for name in sorted(engine_classes()):
        for _ in range(ctx.budget(2, 8) * (2 if deep else 1)):
            spec = {"name": name, "kind": rng.choice(EXTREME_KINDS), "e": rng.choice(LADDER), "seed": rng.randrange(1, 2 ** 20)}
            ctx.count(("o-extreme-class", tuple(sorted(spec.items()))), True, bucket=f"oracle/extreme/engine-class/{name}")
            try:
                res = all_engines_case(name, spec["seed"], extreme=(spec["kind"], spec["e"]))
            except Exception as ex:  # noqa: BLE001
                res = (f"engine-class-{name}-raises", f"{name}.compute_sensitivity_map raises {err_name(ex)}: {str(ex)[:200]}")
            if res:
                yield Violation(res[0], res[1] + f" [{spec}]", {"op": "extreme_class", "spec": spec})


# --------------------------------------------------------------------------------------------------
def oracle_ext(ctx: Ctx, deep: bool):
    yield from oracle_enum_forms(ctx, deep)
    yield from oracle_extremes(ctx, deep)
    yield from oracle_offmask(ctx, deep)
    yield from oracle_matrix(ctx, deep)
    yield from oracle_espirit(ctx, deep)
    yield from oracle_pipeline_espirit(ctx, deep)
    yield from oracle_histories(ctx, deep)
    yield from oracle_all_engines(ctx, deep)
    yield from oracle_boundary(ctx, deep)


def replay_ext(rep: dict):
    """-> True (still violated) / False / None (not one of ours)"""
    op = rep.get("op")
    if op == "matrix":
        return matrix_case(rep["spec"]) is not None
    if op == "enum_form":
        return enum_form_case(rep["spec"]) is not None
    if op == "offmask":
        return offmask_case(rep["spec"]) is not None
    if op == "extreme":
        return extreme_case(rep["spec"]) is not None
    if op == "extreme_class":
        sp = rep["spec"]
        return all_engines_case(sp["name"], sp["seed"], extreme=(sp["kind"], sp["e"])) is not None
    if op == "espirit":
        return espirit_case(rep["spec"]) is not None
    if op == "pipeline_espirit":
        return pipeline_espirit_case(rep["spec"]) is not None
    if op == "history":
        return history_case(rep["spec"]) is not None
    if op == "engine_history":
        return engine_history_case(rep["spec"]) is not None
    if op == "engine_class":
        return all_engines_case(rep["name"], rep["seed"]) is not None
    if op == "boundary":
        out, S0 = boundary_case(rep["path"], rep["e"], rep["c"], rep["pattern"])
        return base.check_map(out, S0, "range-boundary") is not None
    return None
