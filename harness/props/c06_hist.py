"""C06 — worker entry point for call histories on ONE persistent mask-function object, and seed forms.

`run_hist(spec)`  builds the mask function of `spec` (as `maskgen_common.make` does) ONCE and makes every call of
                  `spec["calls"]` on that object: {"shape": [...], "seed": <encoded seed>, "return_acs": bool}.  With
                  `spec["refs"]` true, every distinct (shape, seed, return_acs) of the history is additionally evaluated
                  on a FRESH object (recording RandomState) — "the mask produced with the same arguments".
                  With `spec["record"]` the persistent object's `rng` is a recording RandomState too (the first draw of
                  a call is the index `choose_acceleration` picked); without it the object is left exactly as
                  constructed (its own `np.random.RandomState()`).

Seeds are JSON-encoded so that the forms callers really use survive the pipe:
    {"k": "int", "v": 0} | {"k": "bool", "v": false} | {"k": "tuple", "v": [..]} | {"k": "list", "v": [..]}
    | {"k": "np", "t": "int64", "v": 3} | {"k": "fname", "v": "file_0001.h5"}  (tuple(map(ord, name)), as
    `CreateSamplingMask` derives it) | {"k": "none"}

All results are JSON-able; errors of the code under test are returned, never raised.
"""
from __future__ import annotations

from props import maskgen_common as G


def dec_seed(enc):
    import numpy as np

    if enc is None:
        return None
    k = enc["k"]
    if k == "none":
        return None
    if k == "int":
        return int(enc["v"])
    if k == "bool":
        return bool(enc["v"])
    if k == "tuple":
        return tuple(int(x) for x in enc["v"])
    if k == "list":
        return [int(x) for x in enc["v"]]
    if k == "np":
        return getattr(np, enc["t"])(enc["v"])
    if k == "fname":
        return tuple(map(ord, str(enc["v"])))
    raise ValueError(f"unknown seed encoding {enc!r}")


def seed_text(enc) -> str:
    if enc is None or enc.get("k") == "none":
        return "None"
    k = enc["k"]
    if k == "np":
        return f"np.{enc['t']}({enc['v']})"
    if k == "fname":
        return f"tuple(map(ord, {enc['v']!r}))"
    if k == "tuple":
        return repr(tuple(enc["v"]))
    return repr(enc["v"])


def _attrs(f) -> dict:
    """coarse digest of the instance attributes other than the random stream (diagnostics for the replay)"""
    out = {}
    for k, v in sorted(vars(f).items()):
        if k == "rng":
            continue
        try:
            out[k] = f"{type(v).__name__}[{len(v)}]" if hasattr(v, "__len__") and not isinstance(v, str) else repr(v)[:40]
        except Exception:  # noqa: BLE001
            out[k] = type(v).__name__
    return out


def _call(f, c: dict, rng=None) -> dict:
    import numpy as np
    import torch

    if rng is not None:
        rng.log = []
    try:
        kw = {}
        seed = dec_seed(c.get("seed"))
        if seed is not None or (c.get("seed") or {}).get("k") == "none":
            kw["seed"] = seed
        if c.get("return_acs"):
            kw["return_acs"] = True
        shape = tuple(c["shape"])
        m = f(shape, **kw)
        cols = shape[-2]
        a = m.numpy() if isinstance(m, torch.Tensor) else np.asarray(m)
        out = {"ok": True, "shape": list(a.shape), "dtype": str(m.dtype), "cols": cols,
               "rows": G.pack_rows(a, cols) if a.size % max(cols, 1) == 0 else None}
    except BaseException as e:  # noqa: BLE001 - canonicalised
        if isinstance(e, (KeyboardInterrupt, SystemExit)):
            raise
        out = {"ok": False, "err": type(e).__name__, "msg": str(e)[:160]}
    out["draws"] = list(rng.log) if rng is not None else []
    return out


def _key(c: dict) -> str:
    import json

    return json.dumps([c["shape"], c.get("seed"), bool(c.get("return_acs"))], sort_keys=True)


def run_hist(spec: dict) -> dict:
    try:
        extra = dict(spec.get("extra", {}))
        mk = lambda: G.make(spec["gen"], spec["mode"], spec["acc"], spec.get("cf"),  # noqa: E731
                            via_build=bool(spec.get("via_build")), **extra)
        f = mk()
    except BaseException as e:  # noqa: BLE001
        if isinstance(e, (KeyboardInterrupt, SystemExit)):
            raise
        return {"ok": False, "err": type(e).__name__, "msg": str(e)[:160], "stage": "construct"}
    rng = None
    if spec.get("record"):
        rng = G._recording_rng()
        f.rng = rng
    before = _attrs(f)
    calls = [_call(f, c, rng) for c in spec["calls"]]
    after = _attrs(f)
    refs = {}
    if spec.get("refs"):
        for c in spec["calls"]:
            k = _key(c)
            if k not in refs:
                g = mk()
                r = G._recording_rng()
                g.rng = r
                refs[k] = _call(g, c, r)
    return {"ok": True, "calls": calls, "refs": refs, "attrs_before": before, "attrs_after": after}


def run_site(spec: dict) -> dict:
    """the real producer of (sampling mask, ACS mask) pairs: ONE `CreateSamplingMask(mask_func, shape=crop,
    use_seed=True, return_acs=True)` transform applied to a sequence of samples (`spec["filenames"]`), as the data
    pipeline does for a whole dataset.  `spec["crop"]`: None | [h, w] | entries None ("allow None as values").
    Per sample: the two masks the transform stored, and the recorded call of a fresh mask function with the seed the
    transform is documented to derive (tuple(map(ord, filename))) on the effective shape."""
    import boot  # noqa: F401
    import torch

    from direct.data.mri_transforms import CreateSamplingMask

    extra = dict(spec.get("extra", {}))
    mk = lambda: G.make(spec["gen"], spec["mode"], spec["acc"], spec.get("cf"),  # noqa: E731
                        via_build=bool(spec.get("via_build")), **extra)
    shape = list(spec["shape"])
    crop = spec.get("crop")
    try:
        tr = CreateSamplingMask(mk(), shape=None if crop is None else tuple(crop), use_seed=True, return_acs=True)
    except BaseException as e:  # noqa: BLE001
        if isinstance(e, (KeyboardInterrupt, SystemExit)):
            raise
        return {"ok": False, "err": type(e).__name__, "msg": str(e)[:160], "stage": "construct"}
    # effective shape as documented: the crop shape (None entries filled from the k-space) + the complex axis
    if crop is None:
        eff = shape
    else:
        eff = [c if c else shape[:-1][i] for i, c in enumerate(crop)] + [2]
    out = []
    for fname in spec["filenames"]:
        rec = {"filename": fname, "eff_shape": eff}
        try:
            sample = tr({"kspace": torch.zeros((2, *shape)), "filename": fname})
            for key in ("sampling_mask", "acs_mask"):
                m = sample[key]
                a = m.numpy()
                rec[key] = {"ok": True, "shape": list(a.shape), "dtype": str(m.dtype), "cols": eff[-2],
                            "rows": G.pack_rows(a, eff[-2]) if a.size % max(eff[-2], 1) == 0 else None}
        except BaseException as e:  # noqa: BLE001
            if isinstance(e, (KeyboardInterrupt, SystemExit)):
                raise
            rec["err"] = {"ok": False, "err": type(e).__name__, "msg": str(e)[:160]}
        g = mk()
        r = G._recording_rng()
        g.rng = r
        rec["ref_mask"] = _call(g, {"shape": eff, "seed": {"k": "fname", "v": fname}, "return_acs": False}, r)
        out.append(rec)
    return {"ok": True, "samples": out}


def run(spec: dict) -> dict:
    """worker entry point: dispatch on spec["kind"] (default: history)"""
    return run_site(spec) if spec.get("kind") == "site" else run_hist(spec)


# --------------------------------------------------------------------------------------------------
# argument-form ladder: the same VALUE handed over as different Python objects
SCALAR_FORMS = ["int", "float", "np.int64", "np.int32", "np.float64", "np.float32", "0d", "torch64", "torch32"]
CONTAINER_FORMS = ["tuple", "ndarray", "tensor"]
SHAPE_FORMS = ["list", "size", "ndarray"]
MODE_FORMS = ["lower", "upper"]


def scalar_form(value, form: str):
    """`value` (a Python int or float) as the object `form` names; None when the form cannot hold the value exactly
    in a way that keeps the comparison meaningful (an int form for a non-integer value)"""
    import numpy as np
    import torch

    integral = float(value) == int(value)
    if form == "int":
        return int(value) if integral else None
    if form == "float":
        return float(value)
    if form in ("np.int64", "np.int32"):
        return getattr(np, form[3:])(int(value)) if integral else None
    if form in ("np.float64", "np.float32"):
        return getattr(np, form[3:])(value)
    if form == "0d":
        return np.array(int(value) if isinstance(value, int) else float(value))
    if form == "torch64":
        return torch.tensor(float(value), dtype=torch.float64) if not isinstance(value, int) else torch.tensor(int(value))
    if form == "torch32":
        return torch.tensor(float(value), dtype=torch.float32)
    raise ValueError(form)


def _digest(m, cols) -> dict:
    import numpy as np
    import torch

    a = m.numpy() if isinstance(m, torch.Tensor) else np.asarray(m)
    return {"ok": True, "shape": list(a.shape), "dtype": str(m.dtype), "rows": G.pack_rows(a, cols) if a.size % max(cols, 1) == 0 else None}


def run_forms(spec: dict) -> dict:
    """one generator class (the 14 in scope and the bases Random / Equispaced / Magic), one canonical configuration
    (Python ints / floats in lists, enum mode, tuple shape); every argument in every other form.  Result: per form key
    the ACS and the mask (or the exception).  Keys: `canonical`, `cf=<form>`, `acc=<form>`, `cfs=<container>`,
    `accs=<container>`, `shape=<form>`, `mode=<form>`."""
    import boot  # noqa: F401
    import numpy as np
    import torch
    from direct.common import subsample as S
    from direct.types import MaskFuncMode

    name, mode = spec["gen"], spec["mode"]
    accs, cfs = list(spec["acc"]), (None if spec.get("cf") is None else list(spec["cf"]))
    shape, seed = tuple(spec["shape"]), dec_seed(spec.get("seed"))
    cols = shape[-2]
    cls = getattr(S, name + "MaskFunc")

    def build(accs_, cfs_, mode_):
        kw = dict(accelerations=accs_, **spec.get("extra", {}))
        if cfs_ is not None:
            kw["center_fractions"] = cfs_
        if not G.is_kt(name):
            kw["mode"] = mode_
        return cls(**kw)

    def both(f, shp):
        out = {}
        for key, racs in (("acs", True), ("mask", False)):
            if key == "mask" and not spec.get("masks", True):
                continue
            try:
                out[key] = _digest(f(shp, seed=seed, return_acs=racs), cols)
            except BaseException as e:  # noqa: BLE001
                if isinstance(e, (KeyboardInterrupt, SystemExit)):
                    raise
                out[key] = {"ok": False, "err": type(e).__name__, "msg": str(e)[:120]}
        return out

    def attempt(mk, shp=shape):
        try:
            f = mk()
        except BaseException as e:  # noqa: BLE001
            if isinstance(e, (KeyboardInterrupt, SystemExit)):
                raise
            r = {"ok": False, "err": type(e).__name__, "msg": str(e)[:120], "stage": "construct"}
            return {"acs": r, "mask": r}
        return both(f, shp)

    enum = MaskFuncMode(mode)
    res = {"canonical": attempt(lambda: build(accs, cfs, enum))}
    conts = {"tuple": tuple, "ndarray": np.array, "tensor": torch.tensor}
    for form in SCALAR_FORMS:
        if cfs is not None:
            vals = [scalar_form(v, form) for v in cfs]
            if all(v is not None for v in vals) and any(type(v) is not type(c) for v, c in zip(vals, cfs)):
                res[f"cf={form}"] = attempt(lambda vals=vals: build(accs, vals, enum))
        vals = [scalar_form(v, form) for v in accs]
        if all(v is not None for v in vals) and any(type(v) is not type(c) for v, c in zip(vals, accs)):
            res[f"acc={form}"] = attempt(lambda vals=vals: build(vals, cfs, enum))
    for cname, c in conts.items():
        if cfs is not None:
            res[f"cfs={cname}"] = attempt(lambda c=c: build(accs, c(cfs), enum))
        res[f"accs={cname}"] = attempt(lambda c=c: build(c(accs), cfs, enum))
    shapes = {"list": list(shape), "size": torch.Size(shape), "ndarray": np.array(shape)}
    for sname, shp in shapes.items():
        res[f"shape={sname}"] = attempt(lambda: build(accs, cfs, enum), shp)
    if not G.is_kt(name):
        for mname, mv in (("lower", mode), ("upper", mode.upper())):
            res[f"mode={mname}"] = attempt(lambda mv=mv: build(accs, cfs, mv))
    return {"ok": True, "forms": res}


def run(spec: dict) -> dict:  # noqa: F811 - extends the dispatcher above
    """worker entry point: dispatch on spec["kind"] (default: history)"""
    kind = spec.get("kind")
    return run_site(spec) if kind == "site" else run_forms(spec) if kind == "forms" else run_hist(spec)
