"""C04 — the Poisson-disc rasteriser `direct/common/_poisson.pyx` against `Model/C04Poisson.lean`.

What runs where
---------------
* the REAL kernel (`direct.common._poisson.poisson`: the compiled extension when its embedded source equals the
  current `.pyx`, else the `.pyx` front-end) is called by `run_kernel` / through the real generator; what is observed
  is the mask it wrote and how many `rand()` calls it made (the next value of the libc stream after the call);
* `trace(...)` is the float oracle of the Lean model: it follows the *model's* control flow with the C semantics of
  the generated code (float32 / float64 rounding of every intermediate, numpy scalars) only to produce the data the
  model cannot compute itself — the recorded `rand()` stream and the rows `(t, cos t, sin t)`; its own mask and
  counters are compared with the model's as well (`stats`), so a tracer that drifts from the model is noticed;
* the Lean model (`poisson_kernel` operation) recomputes everything else exactly (dyadic arithmetic).

A float is sent as `mantissa exponent` of its exact binary value (`dy`).
"""
from __future__ import annotations

import ctypes
import math

RAND_MAX = 2147483647
_libc = None


def libc():
    global _libc
    if _libc is None:
        _libc = ctypes.CDLL("libc.so.6")
        _libc.rand.restype = ctypes.c_int
        _libc.srand.argtypes = [ctypes.c_uint]
    return _libc


def stream(seed: int, n: int) -> list[int]:
    """the first `n` values of `rand()` after `srand(seed)`"""
    L = libc()
    L.srand(int(seed) & 0xFFFFFFFF)
    return [L.rand() for _ in range(n)]


def dy(x) -> tuple[int, int]:
    """exact binary value of a float as (odd mantissa, exponent); 0 -> (0, 0)"""
    x = float(x)
    if x == 0.0:
        return 0, 0
    num, den = x.as_integer_ratio()
    e = -(den.bit_length() - 1)
    while num % 2 == 0:
        num //= 2
        e += 1
    return num, e


def undy(m: int, e: int) -> float:
    return math.ldexp(m, e)


def radii(nx: int, ny: int, slope: float):
    """`radius_x`, `radius_y` as `VariableDensityPoissonMaskFunc.poisson` computes them for one slope"""
    import numpy as np

    x, y = np.mgrid[:nx, :ny]
    x = np.maximum(abs(x - nx / 2), 0)
    x /= x.max()
    y = np.maximum(abs(y - ny / 2), 0)
    y /= y.max()
    r = np.sqrt(x ** 2 + y ** 2)
    rx = np.clip((1 + r * slope) * nx / max(nx, ny), 1, None)
    ry = np.clip((1 + r * slope) * ny / max(nx, ny), 1, None)
    return rx, ry


def trace(nx: int, ny: int, max_attempts: int, rx_arr, ry_arr, seed: int, limit: int = 2_000_000) -> dict:
    """float oracle of the model (see module docstring).  Returns
    {"mask": 2-D int array, "draws": [...], "trig": [(t, cos t, sin t)…], "halt": None | "IndexError" | "Timeout",
     "stats": [pos, att, iters, accepts, removals, stale, maxna]}"""
    import numpy as np

    f32 = np.float32
    L = libc()
    L.srand(int(seed) & 0xFFFFFFFF)
    draws: list[int] = []

    def uni() -> float:
        r = L.rand()
        draws.append(r)
        return float(r) / float(RAND_MAX)

    def randint(u: int) -> int:
        return int(uni() * u)

    mask = np.zeros((nx, ny), dtype=np.int64)
    cap = nx * ny
    pxs, pys = [0] * max(cap, 1), [0] * max(cap, 1)
    pxs[0] = randint(nx)
    pys[0] = randint(ny)
    na = 1
    trig = []
    stale = iters = accepts = removals = 0
    maxna = 1
    halt = None
    while na > 0:
        if len(draws) > limit:
            halt = "Timeout"
            break
        i = randint(na)
        px, py = pxs[i], pys[i]
        rx = f32(rx_arr[px, py])
        ry = f32(ry_arr[px, py])
        done = False
        k = 0
        qx = qy = f32(0)
        while not done and k < max_attempts:
            v = f32(uni() + 1.0)
            t = f32((2.0 * math.pi) * uni())
            c = math.cos(float(t))
            s = math.sin(float(t))
            trig.append((float(t), c, s))
            qx = f32(float(px) + float(f32(v * rx)) * c)
            qy = f32(float(py) + float(f32(v * ry)) * s)
            if qx >= 0 and qx < nx and qy >= 0 and qy < ny:
                startx = max(int(f32(qx - rx)), 0)
                endx = min(int(float(f32(qx + rx)) + 1.0), nx)
                starty = max(int(f32(qy - ry)), 0)
                endy = min(int(float(f32(qy + ry)) + 1.0), ny)
                done = True
                for x in range(startx, endx):
                    for y in range(starty, endy):
                        a = float(f32(qx - f32(x))) / float(rx_arr[x, y])
                        b = float(f32(qy - f32(y))) / float(ry_arr[x, y])
                        d = f32(a * a + b * b)
                        if mask[x, y] == 1 and d < 1:
                            done = False
                            break
            k += 1
        iters += 1
        if done:
            if na >= cap:
                halt = "IndexError"
                iters -= 1
                break
            cx, cy = int(qx), int(qy)
            pxs[na], pys[na] = cx, cy
            if mask[cx, cy] == 1:
                stale += 1
            mask[cx, cy] = 1
            na += 1
            accepts += 1
            maxna = max(maxna, na)
        else:
            na -= 1
            removals += 1
            pxs[i], pys[i] = pxs[na], pys[na]
    return {"mask": mask, "draws": draws, "trig": trig, "halt": halt,
            "stats": [len(draws), len(trig), iters, accepts, removals, stale, maxna]}


def pack_rows(mask2d) -> list[int]:
    return [sum(1 << j for j, b in enumerate(row) if b) for row in mask2d.tolist()]


def flat_dy(arr) -> list[int]:
    out: list[int] = []
    for v in arr.reshape(-1).tolist():
        out.extend(dy(v))
    return out


def kernel_line(nx, ny, max_attempts, rx_arr, ry_arr, tr: dict, fuel: int | None = None) -> str:
    """protocol line of one kernel call from the tracer's recorded data"""
    from core import line

    trig: list[int] = []
    for t, c, s in tr["trig"]:
        trig.extend(dy(t) + dy(c) + dy(s))
    fuel = fuel if fuel is not None else len(tr["draws"]) + 2
    return line("poisson_kernel", [nx, ny, max_attempts, fuel], tr["draws"], flat_dy(rx_arr), flat_dy(ry_arr), trig)


def consumed_by_real(seed: int, next_value: int, expected: int, slack: int = 4096) -> int:
    """number of `rand()` calls the real kernel made: position of the value that followed the call in the
    reconstructed stream (searched around the expected position; -1 when not found)"""
    s = stream(seed, expected + slack + 1)
    if expected < len(s) and s[expected] == next_value:
        return expected
    for j, v in enumerate(s):
        if v == next_value:
            return j
    return -1


def run_kernel(spec: dict) -> dict:
    """worker entry point: ONE real call of `_poisson.poisson` on explicit radius tables.
    spec: {"nx", "ny", "max_attempts", "slope" | ("rx", "ry" as nested lists), "seed"}"""
    import boot  # noqa: F401
    import numpy as np

    from direct.common import _poisson

    nx, ny = spec["nx"], spec["ny"]
    if "rx" in spec:
        rx = np.array(spec["rx"], dtype=np.float64).reshape(nx, ny)
        ry = np.array(spec["ry"], dtype=np.float64).reshape(nx, ny)
    else:
        rx, ry = radii(nx, ny, spec["slope"])
    mask = np.zeros((nx, ny), dtype=np.int64)
    try:
        _poisson.poisson(nx, ny, spec["max_attempts"], mask, np.ascontiguousarray(rx), np.ascontiguousarray(ry), spec["seed"])
    except BaseException as e:  # noqa: BLE001
        if isinstance(e, (KeyboardInterrupt, SystemExit)):
            raise
        return {"ok": False, "err": type(e).__name__, "msg": str(e)[:200]}
    nxt = libc().rand()
    return {"ok": True, "rows": pack_rows(mask), "next": int(nxt), "values": sorted(set(int(v) for v in np.unique(mask))),
            "kernel": boot.ext_info.get("direct.common._poisson", "?")}


def run_gen(spec: dict) -> dict:
    """worker entry point: ONE real `VariableDensityPoisson` generator call (spec as in maskgen_common.run_spec) with
    every `_poisson` kernel call recorded; per frame the arguments of the LAST kernel call (the one whose mask is
    returned) are kept: {"nx","ny","ma","seed","rx","ry" (flat dy ints),"rows","next"}.  Also "crop": packed rows of
    `r < 1` recomputed with the expressions of `poisson` (float glue)."""
    import boot  # noqa: F401
    import numpy as np
    import torch

    from props import maskgen_common as G

    S = G._S()
    out: dict = {"ok": False}
    rng = None
    frames: list[dict] = []
    calls = {"n": 0}
    real = S._poisson

    KERNEL_PARAMS = ("nx", "ny", "max_attempts", "mask", "radius_x", "radius_y", "seed")

    def rec(*args, **kwargs):
        # transparent stand-in: any positional / keyword calling convention of the kernel is forwarded unchanged
        real(*args, **kwargs)
        bound = dict(zip(KERNEL_PARAMS, args))
        bound.update(kwargs)
        nx, ny, ma, mask, rx, ry, seed = (bound[k] for k in KERNEL_PARAMS)
        nxt = int(libc().rand())
        calls["n"] += 1
        # verdict of this bisection step, with the expressions of `poisson` (float glue): 0 within tolerance, 1 below, 2 above
        fa = frames[-1].get("args")
        if fa is not None:
            m2 = np.asarray(mask)
            if getattr(f, "crop_corner", False):
                x, y = np.mgrid[:nx, :ny]
                x = np.maximum(abs(x - nx / 2), 0)
                x /= x.max()
                y = np.maximum(abs(y - ny / 2), 0)
                y /= y.max()
                m2 = m2 * (np.sqrt(x ** 2 + y ** 2) < 1)
            m2 = m2 | S.centered_disk_mask((nx, ny), fa[2])
            with np.errstate(all="ignore"):
                actual = nx * ny / m2.sum()
            frames[-1].setdefault("verdicts", []).append(0 if abs(actual - fa[3]) < f.tol else 1 if actual < fa[3] else 2)
        frames[-1].update({"nx": int(nx), "ny": int(ny), "ma": int(ma), "seed": int(seed), "rx": flat_dy(np.asarray(rx)),
                           "ry": flat_dy(np.asarray(ry)), "rows": pack_rows(np.asarray(mask)), "next": nxt,
                           "ncalls": frames[-1].get("ncalls", 0) + 1})

    try:
        f = G.make(spec["gen"], spec["mode"], spec["acc"], spec.get("cf"), via_build=bool(spec.get("via_build")),
                   **spec.get("extra", {}))
        rng = G._recording_rng()
        f.rng = rng
        orig_poisson = f.poisson

        def per_frame(*a, **k):
            import inspect

            try:
                b = inspect.signature(orig_poisson).bind(*a, **k).arguments
                fa = [int(b["num_rows"]), int(b["num_cols"]), float(b["center_fraction"]), float(b["acceleration"])]
            except (TypeError, KeyError, ValueError):
                fa = None                        # the wrapper's signature changed: no verdict trace, the call goes through
            frames.append({"args": fa, "default_slopes": f.slopes is None})
            return orig_poisson(*a, **k)

        f.poisson = per_frame
        S._poisson = rec
        seed = spec.get("seed")
        if isinstance(seed, list):
            seed = tuple(seed)
        kw = {}
        if seed is not None:
            kw["seed"] = seed
        if spec.get("return_acs"):
            kw["return_acs"] = True
        shape = tuple(spec["shape"])
        m = f(shape, **kw)
        cols = shape[-2] if len(shape) >= 2 else 1
        out = {"ok": True, "shape": list(m.shape), "dtype": str(m.dtype) if isinstance(m, torch.Tensor) else str(type(m)),
               "cols": cols, "rows": G.pack_rows(m.numpy() if isinstance(m, torch.Tensor) else np.asarray(m), cols)
               if m.numel() % max(cols, 1) == 0 else None}
        if len(shape) >= 3 and getattr(f, "crop_corner", False):
            nr, nc = shape[-3], shape[-2]
            x, y = np.mgrid[:nr, :nc]
            x = np.maximum(abs(x - nr / 2), 0)
            x /= x.max()
            y = np.maximum(abs(y - nc / 2), 0)
            y /= y.max()
            out["crop"] = pack_rows((np.sqrt(x ** 2 + y ** 2) < 1).astype(int))
    except BaseException as e:  # noqa: BLE001 - canonicalised
        if isinstance(e, (KeyboardInterrupt, SystemExit)):
            raise
        out = {"ok": False, "err": type(e).__name__, "msg": str(e)[:200]}
    finally:
        S._poisson = real
    out["draws"] = rng.log if rng is not None else []
    out["frames"] = frames
    out["kernel_calls"] = calls["n"]
    return out
