"""C14 helper: the generalised failing-input space of `reconstruct_volumes` and its callers.

A *case* is a JSON-able dict (it is the replay) that fixes, independently of one another,
  dataset   : toy marker dataset, or a REAL `H5SliceData` on temporary h5 files (optionally with the `slice_data` filter),
  slice_no  : what the items report as `slice_no` (position in the volume, or file coordinates: offset / strided / with gaps /
              reversed / shuffled / constant / global index) — the property speaks about the k-th slice *of the volume*,
  sampler   : world size (every rank is run), batch size (also larger than every volume), loader workers,
  entry     : `Engine.predict`, `reconstruct_volumes` called directly (add_target on/off, loss / regulariser dicts),
              `MRIModelEngine.evaluate`, `Engine.validation_loop` (two datasets in sequence),
  crop      : None or "header" with a per-volume reconstruction size,
  output    : real or complex model output, per-slice scaling factors, per-volume image shapes,
  history   : what the same engine object did before (another dataset predicted, a generator abandoned after its first
              yield, a second generator running interleaved, the same loader iterated a second time).
`check_case` states the property directly on what the real code returns, against a reference computed from the raw arrays."""
from __future__ import annotations

import collections
import contextlib
import json
import pathlib
import random
import tempfile

import boot  # noqa: F401
import numpy as np
import torch

SLICE_POLICIES = ("pos", "offset", "stride", "gaps", "reversed", "shuffled", "constant", "global")
ENTRIES = ("predict", "recon", "evaluate", "validation_loop", "inference")
HISTORIES = ("fresh", "after-other", "after-break", "interleaved", "second-pass", "after-error",
             "reuse-break", "reuse-close", "reuse-throw")      # reuse-*: an abandoned pass over the SAME loader / sampler objects


def fname(v: int, dirs: bool = False) -> str:
    """file name of volume v; with `dirs` the volumes live in two directories and basenames collide pairwise
    (site0/vol_00.h5, site1/vol_00.h5, site0/vol_01.h5, …) as in multi-site data listed through filenames_filter"""
    return f"site{v % 2}/vol_{v // 2:02d}.h5" if dirs else f"vol_{v:02d}.h5"


def fid(p) -> int:
    p = pathlib.Path(p)
    k = int(p.stem.split("_")[1])
    return 2 * k + int(p.parent.name[4:]) if p.parent.name.startswith("site") else k


def make_slice_nos(layout, policy: str, seed: int):
    """per item: the `slice_no` the dataset reports"""
    rng = random.Random(seed)
    out, g = [], 0
    for n in layout:
        if policy == "pos":
            s = list(range(n))
        elif policy == "offset":
            k = rng.randint(1, 5)
            s = [k + i for i in range(n)]
        elif policy == "stride":
            k, st = rng.randint(0, 3), rng.randint(2, 3)
            s = [k + st * i for i in range(n)]
        elif policy == "gaps":
            s = sorted(rng.sample(range(0, 3 * n + 2), n))
        elif policy == "reversed":
            s = list(range(n))[::-1]
        elif policy == "shuffled":
            s = list(range(n))
            rng.shuffle(s)
        elif policy == "constant":
            s = [0] * n
        elif policy == "global":
            s = [g + i for i in range(n)]
        else:
            raise ValueError(policy)
        out += s
        g += n
    return out


def make_arrays(layout, hs, ws, cplx, seed):
    """integer markers identifying (item, pixel); dyadic scale num/den per item; data multiples of den"""
    rng = random.Random(seed)
    nums, dens = [], []
    for _ in range(sum(layout)):
        den = rng.choice([1, 1, 2, 4, 8])
        nums.append(rng.choice([1, 1, 2, 3, 5, 7]) if den == 1 else rng.choice([1, 3, 5]))
        dens.append(den)
    data, i, label = [], 0, 1
    for v, n in enumerate(layout):
        h, w = hs[v], ws[v]
        for _s in range(n):
            base = torch.arange(h * w, dtype=torch.float64).reshape(h, w) + label
            label += h * w
            m = base * dens[i]
            data.append(torch.stack([3 * m, 4 * m], dim=-1) if cplx else m.float())   # |.| = 5 m exactly
            i += 1
    return data, nums, dens


def magnitude(m: torch.Tensor, cplx: bool) -> torch.Tensor:
    m = m.double()
    return (m ** 2).sum(-1).sqrt() if cplx else m


def target_of(m: torch.Tensor, cplx: bool) -> torch.Tensor:
    """the item's `target`: an image different from the model output (so that the two cannot be confused)"""
    return (2 * magnitude(m, cplx)).float()


class MarkerDataset(torch.utils.data.Dataset):
    """toy dataset: item i carries an identifiable marker image (the model output), its own scaling factor, a target, the
    volume's file name, a `slice_no` and optionally the volume's header `reconstruction_size`"""

    def __init__(self, layout, data, scales, recon=None, slice_nos=None, cplx=False, text_description="toy", first_id=0,
                 delay_seed=None, dirs=False):
        self.ndim = 2
        self.dirs = dirs
        self.delay_seed = delay_seed      # items take a random time to load (only matters with loader workers)
        self.fail_at = None               # index of an unreadable item (history "after-error")
        self.text_description = text_description
        self.volume_indices = collections.OrderedDict()
        self.items = []
        off = 0
        for v, n in enumerate(layout):
            self.volume_indices[pathlib.Path(fname(first_id + v, dirs))] = range(off, off + n)
            self.items += [(v, s) for s in range(n)]
            off += n
        self.first_id = first_id
        self.data, self.scales, self.recon, self.cplx = data, scales, recon, cplx
        self.slice_nos = slice_nos if slice_nos is not None else [s for _, s in self.items]

    def __len__(self):
        return len(self.items)

    def __getitem__(self, i):
        if self.delay_seed is not None:
            import time
            time.sleep(random.Random(self.delay_seed * 1000 + i).choice([0, 0, 0.002, 0.005]))
        if self.fail_at is not None and i == self.fail_at:
            raise OSError("unreadable slice")
        v, _s = self.items[i]
        m = self.data[i]
        h, w = m.shape[0], m.shape[1]
        item = {"filename": fname(self.first_id + v, self.dirs), "slice_no": int(self.slice_nos[i]),
                "scaling_factor": torch.tensor(self.scales[i], dtype=torch.float32),
                "marker": m.clone(), "target": target_of(m, self.cplx), "sensitivity_map": torch.ones(1, h, w, 2),
                "sampling_mask": torch.ones(1, h, w, 1)}
        if self.recon is not None:
            item["reconstruction_size"] = (self.recon[v][0], self.recon[v][1], 1)
        return item


def build_h5_dataset(root: pathlib.Path, layout, data, scales, recon, cplx, slice_filter, text_description="h5"):
    """REAL `H5SliceData` over h5 files written to `root` (k-space of file v, slice s = the marker of that file slice, one
    coil); `slice_filter` = (start, stop, step) of the `slice_data` option or None.  Items are turned into what the marker
    engine needs by a thin subclass (the sample dict of H5SliceData itself is untouched: filename, slice_no, kspace)."""
    import h5py
    from direct.data.h5_data import H5SliceData

    off, files = 0, []
    table = {}
    for v, n in enumerate(layout):
        p = root / fname(v)
        h, w = data[off].shape[0], data[off].shape[1]
        ks = np.zeros((n, 1, h, w), dtype=np.complex64)
        for s in range(n):
            m = data[off + s]
            ks[s, 0] = (m[..., 0].numpy() + 1j * m[..., 1].numpy()) if cplx else m.numpy()
            table[(p.name, s)] = (scales[off + s], v)
        with h5py.File(p, "w") as f:
            f.create_dataset("kspace", data=ks)
        files.append(p)
        off += n

    class H5Marker(H5SliceData):
        def __getitem__(self, idx):
            smp = super().__getitem__(idx)
            ksp = np.asarray(smp.pop("kspace"))[0]
            name = pathlib.Path(smp["filename"]).name
            scale, v = table[(name, int(smp["slice_no"]))]
            m = torch.from_numpy(np.stack([ksp.real, ksp.imag], -1).astype(np.float64)) if cplx \
                else torch.from_numpy(ksp.real.astype(np.float32))
            h, w = m.shape[0], m.shape[1]
            smp.update({"marker": m, "scaling_factor": torch.tensor(scale, dtype=torch.float32), "target": target_of(m, cplx),
                        "sensitivity_map": torch.ones(1, h, w, 2), "sampling_mask": torch.ones(1, h, w, 1)})
            if recon is not None:
                smp["reconstruction_size"] = (recon[v][0], recon[v][1], 1)
            return smp

    sd = None if slice_filter is None else slice(*slice_filter)
    return H5Marker(root, filenames_filter=files, slice_data=sd, text_description=text_description)


def kept_slices(n: int, slice_filter):
    """file slices of an n-slice file that the `slice_data` option keeps (Python slice semantics)"""
    return list(range(n)) if slice_filter is None else list(range(n))[slice(*slice_filter)]


# --------------------------------------------------------------------------------------------------
_ENGINE = None


def engine():
    global _ENGINE
    if _ENGINE is None:
        from direct.config.defaults import DefaultConfig
        from direct.nn.mri_models import MRIModelEngine
        from omegaconf import OmegaConf

        class ToyEngine(MRIModelEngine):
            marker_metrics = None

            out_layout = "plain"

            def forward_function(self, data):
                m = data["marker"]
                if self.out_layout == "noncontig":        # same values, strides of a transposed tensor
                    m = m.transpose(1, 2).contiguous().transpose(1, 2)
                elif self.out_layout == "f64":
                    m = m.double()
                elif self.out_layout == "batch-view":     # a view into a larger buffer (storage offset, shared storage)
                    big = torch.cat([torch.full_like(m[:1], -3.0), m, torch.full_like(m[:1], -4.0)])
                    m = big[1:-1]
                return m, None

            def build_metrics(self, metrics_list):
                if self.marker_metrics is not None:
                    return self.marker_metrics
                return super().build_metrics(metrics_list)

        _ENGINE = ToyEngine(OmegaConf.structured(DefaultConfig), torch.nn.Linear(1, 1), "cpu")
        _ENGINE.ndim = 2
        # reconstruct_volumes calls gc.collect() for every batch; with torch & co. imported a full collection costs
        # ~50 ms.  Freezing the objects that exist now keeps those calls cheap (no effect on what the code computes).
        import gc
        gc.collect()
        gc.freeze()
    return _ENGINE


@contextlib.contextmanager
def patched_comm(rank: int, world: int):
    import direct.utils.communication as comm

    old = comm.get_rank, comm.get_world_size
    comm.get_rank, comm.get_world_size = (lambda: rank), (lambda: world)
    try:
        yield
    finally:
        comm.get_rank, comm.get_world_size = old


def marker_loss(source, target, reduction="mean", reconstruction_size=None):
    """identifies the batch: first pixel of the first element of the model output"""
    return source.reshape(source.shape[0], -1)[0, 0].double().reshape(1).float()


def build_loader(ds, world, rank, bs, workers):
    from direct.engine import Engine

    with patched_comm(rank, world):
        bsamp = Engine.build_batch_sampler(ds, batch_size=bs, sampler_type="sequential", limit_number_of_volumes=None)
    return Engine.build_loader(ds, batch_sampler=bsamp, num_workers=workers)


def other_dataset(case, seed_shift=17):
    """a different dataset that REUSES the file names of the case's dataset with other sizes and contents"""
    rng = random.Random(case["seed"] + seed_shift)
    layout = [rng.randint(1, 5) for _ in range(rng.randint(2, 4))]
    hs = [rng.randint(3, 5) for _ in layout]
    ws = [rng.randint(3, 5) for _ in layout]
    data, nums, dens = make_arrays(layout, hs, ws, False, case["seed"] + seed_shift)
    data = [d + 5000 for d in data]
    recon = [(hs[v], ws[v]) for v in range(len(layout))] if case.get("crop") == "header" else None
    return MarkerDataset(layout, data, [1.0] * len(data), recon=recon, text_description="other"), layout


class _Boom(Exception):
    pass


def abandon_pass(eng, loader, how: str, after: int):
    """Start reconstruct_volumes over `loader`, take `after` volumes, then abandon the pass (the loader and its
    BatchVolumeSampler object live on and are used again): by `break`, by generator.close(), or by an exception
    raised inside the model in the middle of the next volume."""
    if how == "reuse-throw":
        old, n = eng.forward_function, [0]

        def failing(data):
            n[0] += 1
            if n[0] > after + 1:
                raise _Boom("model failed")
            return old(data)
        eng.forward_function = failing
        try:
            for _ in eng.reconstruct_volumes(loader, add_target=True, crop=None):
                pass
        except _Boom:
            pass
        finally:
            del eng.forward_function
        return
    gen = eng.reconstruct_volumes(loader, add_target=False, crop=None)
    for k, _ in enumerate(gen):
        if k + 1 >= after:
            break
    if how == "reuse-close":
        gen.close()
    del gen


def run_entry(case, ds, rank, tmp: pathlib.Path):
    """Run the case's entry point of the REAL code on rank `rank`; returns [(filename, volume, target or None)]."""
    eng = engine()
    entry, crop, bs, workers, world = case["entry"], case["crop"], case["bs"], case["workers"], case["world"]
    hist = case.get("history", "fresh")
    loss_fns = {"marker_loss": marker_loss} if case.get("losses") else None
    reg_fns = {"marker_reg": marker_loss} if case.get("losses") and case.get("add_target", True) else None

    if hist == "after-other":
        other, _ = other_dataset(case)
        with patched_comm(0, 1):
            eng.predict(other, tmp, checkpoint=None, num_workers=0, batch_size=max(1, bs - 1), crop=None)
    elif hist == "after-break":
        other, _ = other_dataset(case)
        gen = eng.reconstruct_volumes(build_loader(other, 1, 0, 1, 0), add_target=True, crop=None)
        next(gen)                       # first volume of `other` yielded, its second volume not started: abandon
        del gen

    elif hist == "after-error":
        # an earlier reconstruction on this engine died in the middle of a volume (an unreadable slice)
        other, _ = other_dataset(case)
        n0 = len(next(iter(other.volume_indices.values())))
        other.fail_at = n0 - 1 if n0 >= 2 else n0          # last slice of the first volume (or first of the second)
        try:
            list(eng.reconstruct_volumes(build_loader(other, 1, 0, 1, 0), add_target=True, crop=None))
        except OSError:
            pass

    if entry == "predict":
        if hist == "second-pass":
            with patched_comm(rank, world):
                eng.predict(ds, tmp, checkpoint=None, num_workers=workers, batch_size=bs, crop=crop)
        with patched_comm(rank, world):
            out = eng.predict(ds, tmp, checkpoint=None, num_workers=workers, batch_size=bs, crop=crop)
        return [(o[-1], o[0], None) for o in out], None
    if entry == "inference":
        # direct/inference.py: inference_on_environment -> engine.predict, then (as setup_inference_save_to_h5 does)
        # write_output_to_h5(output, output_directory, output_key="reconstruction"); what is on disk is what counts
        import types

        import direct.inference as inf
        import h5py

        old = inf.build_dataset_from_input
        inf.build_dataset_from_input = lambda **kw: ds
        try:
            with patched_comm(rank, world):
                out = inf.inference_on_environment(types.SimpleNamespace(engine=eng), None, None, None, tmp, None,
                                                   num_workers=workers, filenames_filter=None, batch_size=bs, crop=crop)
        finally:
            inf.build_dataset_from_input = old
        out_dir = tmp / f"recons_rank{rank}"
        if hist == "second-pass":           # an earlier run left other reconstructions under the same names
            stale = [(torch.full((1, 1, 2, 2), -1.0), {}, o[-1]) for o in out]
            inf.write_output_to_h5(stale, out_dir, output_key="reconstruction")
        inf.write_output_to_h5(out, out_dir, output_key="reconstruction")
        res = []
        for o in out:
            with h5py.File(out_dir / pathlib.Path(o[-1]).name, "r") as f:
                res.append((o[-1], torch.from_numpy(f["reconstruction"][()]).unsqueeze(1), None))
        if sorted(p.name for p in out_dir.glob("*.h5")) != sorted(pathlib.Path(o[-1]).name for o in out):
            raise RuntimeError("files written do not correspond to the volumes predicted")
        return res, None
    loader = build_loader(ds, world, rank, bs, workers)
    if hist.startswith("reuse-"):
        abandon_pass(eng, loader, hist, case.get("abandon_after", 1))
    if entry == "recon":
        add_target = case.get("add_target", True)
        if hist == "second-pass":
            list(eng.reconstruct_volumes(loader, loss_fns=loss_fns, regularizer_fns=reg_fns, add_target=add_target, crop=crop))
        gen = eng.reconstruct_volumes(loader, loss_fns=loss_fns, regularizer_fns=reg_fns, add_target=add_target, crop=crop)
        if hist == "interleaved":
            other, _ = other_dataset(case)
            g2 = eng.reconstruct_volumes(build_loader(other, 1, 0, 2, 0), add_target=not add_target, crop=None)
            out = []
            for o in gen:
                out.append(o)
                next(g2, None)
            list(g2)
        else:
            out = list(gen)
        return [(o[-1], o[0], o[1] if add_target else None) for o in out], None
    if entry == "evaluate":
        calls = []

        def rec(target, volume):
            calls.append((target.clone(), volume.clone()))
            return torch.tensor(float(len(calls)))

        eng.marker_metrics = {"marker_metric": rec}
        old_crop, old_n = eng.cfg.validation.crop, eng.cfg.logging.tensorboard.num_images
        eng.cfg.validation.crop = crop
        eng.cfg.logging.tensorboard.num_images = case.get("num_images", 8)
        try:
            if hist == "second-pass":
                eng.evaluate(loader, loss_fns)
                calls.clear()
            _loss, metrics, vis, vis_t = eng.evaluate(loader, loss_fns)
        finally:
            eng.marker_metrics = None
            eng.cfg.validation.crop = old_crop
            eng.cfg.logging.tensorboard.num_images = old_n
        names = list(metrics.keys())
        extra_n_img = case.get("num_images", 8)
        extra = {"metric_values": [float(metrics[k]["marker_metric"]) for k in names], "n_calls": len(calls),
                 "n_vis": len(vis), "vis": vis, "vis_target": vis_t, "num_images": extra_n_img}
        return [(pathlib.Path(nm), v, t) for nm, (t, v) in zip(names, calls)], extra
    if entry == "validation_loop":
        from direct.utils.events import EventStorage

        calls = []

        def rec(target, volume):
            calls.append((target.clone(), volume.clone()))
            return torch.tensor(float(len(calls)))

        other, other_layout = other_dataset(case)
        order = case.get("vl_order", 0)
        dss = [ds, other] if order == 0 else [other, ds]
        eng.marker_metrics = {"marker_metric": rec}
        old = eng.cfg.validation.crop, eng.cfg.validation.batch_size
        old_n = eng.cfg.logging.tensorboard.num_images
        eng.cfg.validation.crop, eng.cfg.validation.batch_size = crop, bs
        eng.cfg.logging.tensorboard.num_images = case.get("num_images", 8)
        training = eng.model.training
        try:
            with patched_comm(0, 1), EventStorage(0):
                eng.validation_loop(dss, loss_fns or {}, tmp, 7, num_workers=workers)
        finally:
            eng.marker_metrics = None
            eng.cfg.validation.crop, eng.cfg.validation.batch_size = old
            eng.cfg.logging.tensorboard.num_images = old_n
            eng.model.train(training)
        js = json.loads((tmp / f"metrics_val_{ds.text_description}_7.json").read_text())
        n_other = len(other_layout)
        mine = calls[:len(calls) - n_other] if order == 0 else calls[n_other:]
        base = 0 if order == 0 else n_other
        names = list(js.keys())
        extra = {"metric_values": [float(js[k]["marker_metric"]) - base for k in names], "n_calls": len(mine)}
        return [(pathlib.Path(nm), v, t) for nm, (t, v) in zip(names, mine)], extra
    raise ValueError(entry)


def reference(case):
    """independent reference from the raw arrays: {volume id: (outputs (n,1,h',w'), targets (n,1,h',w'))} for the volumes the
    dataset holds, and the effective (filtered) layout / per-item arrays"""
    layout, hs, ws, cplx = case["layout"], case["hs"], case["ws"], case["cplx"]
    data, nums, dens = make_arrays(layout, hs, ws, cplx, case["seed"])
    recon = case.get("recon")
    flt = case.get("slice_filter") if case["ds"] == "h5" else None
    exp, off = {}, 0
    for v, n in enumerate(layout):
        outs, tgts = [], []
        for s in kept_slices(n, flt):
            i = off + s
            scale = nums[i] / dens[i]
            o = magnitude(data[i], cplx) * scale
            t = target_of(data[i], cplx).double() * scale
            if case["crop"] == "header":
                H, W = o.shape
                rh, rw = recon[v]
                y, x = (H - rh) // 2, (W - rw) // 2
                o, t = o[y:y + rh, x:x + rw], t[y:y + rh, x:x + rw]
            outs.append(o)
            tgts.append(t)
        exp[v] = (torch.stack(outs).unsqueeze(1), torch.stack(tgts).unsqueeze(1))
        off += n
    return exp, data, nums, dens


def build_dataset(case, root: pathlib.Path, data, nums, dens):
    scales = [n / d for n, d in zip(nums, dens)]
    recon = case.get("recon")
    if case["ds"] == "h5":
        d = root / "h5data"
        d.mkdir(exist_ok=True)
        return build_h5_dataset(d, case["layout"], data, scales, recon, case["cplx"], case.get("slice_filter"), "case")
    sn = make_slice_nos(case["layout"], case.get("slice_policy", "pos"), case["seed"])
    return MarkerDataset(case["layout"], data, scales, recon=recon, slice_nos=sn, cplx=case["cplx"], text_description="case",
                         delay_seed=case["seed"] if case.get("workers") else None, dirs=bool(case.get("dirs")))


def check_case(case):
    """The property on the real code for one case, every rank.  Yields (key, what, observed)."""
    eng = engine()
    eng.out_layout = case.get("out_layout", "plain")
    try:
        yield from _check_case(case)
    finally:
        eng.out_layout = "plain"


def _check_case(case):
    from core import err_name

    exp, data, nums, dens = reference(case)
    nvol = len(case["layout"])
    world = case["world"]
    seen = []
    with tempfile.TemporaryDirectory() as d:
        root = pathlib.Path(d)
        ds = build_dataset(case, root, data, nums, dens)
        for rank in range(world):
            try:
                out, extra = run_entry(case, ds, rank, root)
            except Exception as e:  # noqa: BLE001
                yield (f"{case['entry']}-raises", f"{case['entry']} raises {err_name(e)} on rank {rank} of {world}: {str(e)[:160]}",
                       {"rank": rank, "err": repr(e)[:300]})
                continue
            for fn, vol, tgt in out:
                f = fid(fn)
                seen.append(f)
                e = exp.get(f)
                for what, got, want in (("volume", vol, None if e is None else e[0]), ("target", tgt, None if e is None else e[1])):
                    if got is None:
                        continue
                    if want is None or tuple(got.shape) != tuple(want.shape):
                        yield (f"{what}-shape", f"{what} {f}: shape {tuple(got.shape)}, expected "
                               f"{None if want is None else tuple(want.shape)}", {"rank": rank, "volume": f})
                    elif not torch.equal(got.double(), want):
                        bad = [k for k in range(want.shape[0]) if not torch.equal(got[k].double(), want[k])]
                        yield (f"{what}-slice-wrong",
                               f"{what} {f}: slices {bad} are not the model output of the k-th slice of the volume x its own "
                               f"scaling factor (cropped)",
                               {"rank": rank, "volume": f, "bad_slices": bad, "observed": got[:, 0, 0, 0].tolist(),
                                "expected": want[:, 0, 0, 0].tolist()})
            if extra is not None:
                if extra["n_calls"] != len(out) or extra["metric_values"] != [float(k + 1) for k in range(len(out))]:
                    yield ("metrics-per-volume", f"metrics: {extra['n_calls']} metric calls for {len(out)} volumes, values "
                           f"{extra['metric_values']}", {"rank": rank})
                if "vis" in extra:
                    n_img = min(len(out), int(extra["num_images"]))
                    ok = extra["n_vis"] == n_img and all(
                        torch.equal(extra["vis"][k], out[k][1][out[k][1].shape[0] // 2]) and
                        torch.equal(extra["vis_target"][k], out[k][2][out[k][2].shape[0] // 2]) for k in range(min(n_img, extra["n_vis"])))
                    if not ok:
                        yield ("visualize-centre-slice", "evaluate: the slices kept for visualisation are not the centre slices "
                               "of the first volumes", {"rank": rank})
        if seen != list(range(nvol)):
            missing = [v for v in range(nvol) if v not in seen]
            dup = sorted({v for v in seen if seen.count(v) > 1})
            key = "volume-missing" if missing else "volume-duplicated" if dup else "volume-order"
            yield (key, f"volumes yielded over all ranks: {seen} (expected each of 0..{nvol - 1} once, in order)", {"seen": seen})


def random_case(rng: random.Random, focus: str | None = None):
    """one case; every component is drawn independently.  `focus` biases towards one region of the space."""
    nv = rng.randint(1, 5)
    ds = "h5" if rng.random() < 0.35 else "marker"
    if ds == "h5":
        layout = [rng.randint(3, 9) for _ in range(nv)]      # filters below keep >= 1 slice of a >= 3-slice file
        flt = rng.choice([None, (1, None, None), (2, None, None), (1, -1, None), (0, None, 2), (1, None, 2), (0, 2, None),
                          (-2, None, None), (2, -1, None) if min(layout) >= 4 else (1, -1, None)])
        policy = None
    else:
        layout = [rng.randint(1, 9) for _ in range(nv)]
        if rng.random() < 0.3:
            layout[rng.randrange(nv)] = 1
        flt = None
        policy = rng.choice(SLICE_POLICIES)
    if focus == "slice_no":
        if ds == "h5":
            flt = rng.choice([(1, None, None), (2, None, None), (1, -1, None), (1, None, 2)])
        else:
            policy = rng.choice(("offset", "stride", "gaps", "reversed", "shuffled", "global"))
    hs = [rng.randint(3, 5) for _ in layout]
    ws = [rng.randint(3, 5) for _ in layout]
    crop = "header" if rng.random() < 0.4 else None
    entry = rng.choice(("predict", "predict", "recon", "recon", "evaluate", "validation_loop", "inference"))
    world = 1 if entry == "validation_loop" else rng.randint(1, 4)
    bs = rng.choice([1, 2, 3, 4, 5, 6, 7, 8, 16])
    hist = "fresh" if rng.random() < 0.55 else rng.choice(HISTORIES[1:])
    if hist.startswith("reuse-") and entry not in ("recon", "evaluate"):
        entry, world = rng.choice(("recon", "evaluate")), rng.randint(1, 2)
    if hist == "interleaved" and entry != "recon":
        hist = "after-break"
    if hist == "interleaved" and entry == "inference":
        hist = "second-pass"
    if hist == "second-pass" and entry == "validation_loop":
        hist = "after-other"
    case = {"op": "case", "ds": ds, "layout": layout, "slice_filter": flt, "slice_policy": policy, "hs": hs, "ws": ws,
            "cplx": rng.random() < 0.3, "crop": crop, "recon": None, "world": world, "bs": bs, "workers": 0, "entry": entry,
            "add_target": rng.random() < 0.5, "losses": rng.random() < 0.4, "history": hist, "vl_order": rng.randrange(2),
            "out_layout": rng.choice(("plain", "plain", "noncontig", "f64", "batch-view")), "seed": rng.randrange(2 ** 30)}
    case["abandon_after"] = rng.randint(1, 2)
    if hist.startswith("reuse-"):
        case["bs"] = bs = rng.randint(2, 4)          # the history matters when early volumes are not multiples of bs
        if ds == "marker" and all(n % bs == 0 for n in layout[:2]):
            layout[0] = bs + 1
    case["num_images"] = rng.choice([1, 2, 3, 8])
    case["dirs"] = ds == "marker" and entry in ("predict", "recon") and rng.random() < 0.3     # colliding basenames
    if crop == "header" or rng.random() < 0.2:
        case["recon"] = [(rng.randint(1, hs[v]), rng.randint(1, ws[v])) for v in range(nv)]
    return case


def bucket_of(case) -> str:
    sn = ("filter=" + ("none" if case["slice_filter"] is None else ":".join("" if x is None else str(x) for x in case["slice_filter"]))
          if case["ds"] == "h5" else "slice_no=" + str(case["slice_policy"]))
    return f"oracle/{case['entry']}/{case['ds']}/{sn}/{case['history']}"
