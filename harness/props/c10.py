"""C10 — cropping and zero-padding are exact, centred and mutually inverse.

Helpers: props/c10_modules.py (k-space modules: histories, options, key plumbing, exact module correspondence),
props/c10_prims.py (remaining options / argument forms / dtypes / layouts of the primitives)."""
from __future__ import annotations

import itertools

import boot  # noqa: F401
import numpy as np
import torch

from core import Ctx, Violation, err_name, line, ok_tensor, tensor_groups
from props.c10_prims import NP_LAYOUTS, _layout, _np_layout

PROP = "C10"
EXTRA_LEAN_MODULES = ["DirectVerif.Lemmas.TensorLiftC10",   # n-D corollaries (lifting laws of alongAxis)
                      "DirectVerif.Props.C10PadCoil",      # PadCoilDimensionModule: zeros in front, values kept, count, idempotent, keys
                      "DirectVerif.Lemmas.C10Modules",     # key plumbing, call histories, crop-shape forms of the k-space modules
                      "DirectVerif.Lemmas.C10Kspace",      # k-space crop/pad == image crop/pad over the C01 plans (abstract backend, 1-D, 2 axes)
                      "DirectVerif.Lemmas.C10KspaceDft"]   # … instantiated with the concrete DFT of C01 (Mathlib ZMod.dft)
PENDING_FINDINGS: list[str] = []
# repaired in /repo (fix: commits f148874, ab63bde, 40ede8a, 7c09337, e6b69a8); the oracle keys stay and are quiet now:
#   cropkspace-crop-form-5d, random-crop-sigma-singleton-list, crop-to-largest-centring-ceil, bbox-dtype-bool,
#   bbox-utils-twin-unrepaired
MANIFEST = {
    "text": "Lean 4 theorems over all sizes/parities: centre crop = central window at offset floor((n-s)/2); pad places data at "
            "floor((N-n)/2); pad followed by centre crop is the identity (1-D, one axis and two axes of n-D tensors); F.pad pair "
            "order for any number of axes; bbox window specification for every box; crop_to_largest = pad_tensor placement and "
            "crop_to_largest followed by a centre crop is the identity for every difference; the padded patch of crop_to_bbox keeps "
            "the element type. The k-space transforms are plans regenerated from the source and interpreted "
            "over the C01 fft2/ifft2 plans: CropKspace = fft2 . crop . ifft2 and PadKspace = fft2 . view_as_real . pad . "
            "view_as_complex . ifft2 are proved equivalent to cropping/padding the backprojected image for every lawful backend and "
            "all 8 flag combinations, CropKspace(PadKspace k) = k on the k-space itself, and all of it without hypotheses for the "
            "concrete DFT (Mathlib ZMod.dft) on one axis. Key plumbing (which sample key is read/written, helper functions "
            "followed through call-site bindings and defaults), absence of instance/class/module state writes, absence of in-place "
            "operations on inputs, resolution of every primitive reference to the modelled module, and the crop-shape rule for the "
            "three argument forms of CropKspace (string = tuple for every rank and length) and the patch allocation of crop_to_bbox are "
            "translated tables/kernels with decided predicates; history independence of "
            "stateless modules and the frame property (other k-space key untouched) are proved for the definitions the driver "
            "runs. PadCoilDimensionModule has an executable model (Props/C10PadCoil.lean): for every requested coil count and "
            "every fibre the result is num-n exact zeros IN FRONT of the unchanged data (values, zeros, output count = num, raises "
            "iff num != 0 and n > num, identity for None/0/equal, idempotent, dropping the added coils restores the tensor n-D), a "
            "missing key returns the sample unchanged, the other key is untouched, histories are independent; its guard chain + "
            "zero-coil count are a translated integer kernel (bridge pad_coil_forward_eq) and the torch.cat operand order a "
            "translated table (pad_coil_cat_eq); exact correspondence through the `padcoil` op. "
            "Tied to the code by translated arithmetic (bridge lemmas closed by omega/decide) and exact differential "
            "correspondence on labelled tensors, including the module ops with an exact operator pair (flip).",
    "note": "Trusted: Lean kernel (+propext, Classical.choice, Quot.sound), the AST translator and table extractors, torch slicing/"
            "F.pad/flip semantics as encoded by slice/fPad/reverse (the row-major per-axis lifting is proved, Lemmas/TensorLift.lean). "
            "torch.fft enters only through C01's Lawful backend hypotheses (inverse pair; discharged for the concrete 1-D DFT); the "
            "n-D k-space statements with FFT operators are additionally checked on the implementation under tolerance. The "
            "view_as_complex/view_as_real pair is modelled as a regrouping of the trailing axis (pad acts on the axes before it). "
            "RescaleKspace's interpolation is covered by tables and history/key oracles only. "
            "Pinned-tree defects are kept as `_pinned_violates` witnesses (pad order, string crop on 5-D data, crop_to_largest "
            "centring, bool patch dtype, cached crop shape, default-key helper). Oracle-only: the one-element sigma list of "
            "complex_random_crop, dtype preservation beyond the allocation table, the copy direct/utils/bbox.py.",
    "technique": "Lean 4 proof (omega/list induction/plan interpretation over abstract operators) + AST translation bridge and "
                 "decided structural tables + differential correspondence + history/option oracles on the real modules",
}
TRUSTED = [
    "Lean 4.33 kernel; axioms ⊆ {propext, Classical.choice, Quot.sound}",
    "harness/translate (Python AST -> Lean): arithmetic kernels of center_crop / complex_center_crop / pad_tensor / crop_to_bbox / "
    "crop_to_largest; recipes/c10_tables.py: k-space data-flow plans with key plumbing (nested functions and private helpers "
    "followed through call-site bindings and parameter defaults), state-write / sample-access / in-place / caller tables, "
    "CropKspace crop-shape rule; PadCoilDimensionModule.forward guard chain / zero-coil count / torch.cat operand order "
    "(`not self.num_coils` is read as num == 0 with None passed as 0; `self.key not in sample` as a presence flag)",
    "Tensor.alongAxis (row-major lifting of 1-D list functions to one axis) is proved functorial (Lemmas/TensorLift.lean: "
    "alongAxis_comp/_id_of/_cancel/_fibre, commutation of gathers) for the very definition the driver runs; the n-D corollaries "
    "(one and two axes) are obligations of this check",
    "torch indexing / F.pad / flip index semantics as encoded by slice / fPad / List.reverse",
    "C01's model of fft2 / ifft2 (plans regenerated by C01's translator, imported read-only) and its Lawful-backend laws; "
    "Mathlib's ZMod.dft for the hypothesis-free 1-D statements",
    "view_as_complex / view_as_real modelled as identity on tensors with a trailing axis of size 2 (pad_tensor then acts on the "
    "axes before it); validated by the exact correspondence of the `padk` op",
    "numpy's RandomState stream is reproduced (not modelled) to predict the corner a seeded complex_random_crop draws",
]
ASSUMPTIONS = [
    "tensors hold integer (or half-/quarter-integer) labels so equality is exact in every float dtype used",
    "module correspondence uses the exact operator pair flip/flip (an involution) as forward/backward operator; with the FFT "
    "pairs (default, uncentered, ortho) the reference semantics are compared under 1e-4 relative tolerance (FFT rounding), "
    "persistent-vs-fresh instance comparisons are bit-identical for every operator pair",
    "PadCoilDimensionModule correspondence: float32 data, coil_dim in {0, 1} (in range), pad_coils in {None, 0, -1, 1..7}; "
    "dtype/device of the zeros block are checked only as 'result stays float32'",
    "a (z, x, y) pad target / 3-element crop applied to 2-D data and one gaussian sigma per *resolved* crop entry are outside "
    "the pinned-down semantics (only history independence, key plumbing and aliasing are checked there)",
]
RULE = ("arange-labelled tensors; every axis length from {1..9}; ranks 1..6; crop/pad targets smaller/equal/larger with odd and even "
        "differences; bboxes with coordinates -5..+15; memory layouts contiguous/transposed/strided/sliced/permuted; targets as "
        "tuple/list/torch.Size/ndarray/tensor; dtypes float16/32/64, int16/64, uint8, complex64, bool; module histories of 1..5 "
        "samples of mixed rank (4-D/5-D), slice counts, shapes and key sets on persistent instances, every constructor option. "
        "non-trivial = some axis of length >= 2 and (for pad/crop) an odd size difference on at least one axis or a bbox leaving "
        "the tensor, (for module histories) at least two calls on the same instance; distinct = distinct protocol line / spec")


def _arange(shape):
    n = int(np.prod(shape)) if len(shape) else 1
    return torch.arange(n, dtype=torch.float32).reshape(shape) + 1


def _half(x):
    """half-integer labels (exact in every float dtype): a silent cast to an integer dtype changes them"""
    return x / 2 if isinstance(x, torch.Tensor) else x / 2.0


def _impl(fn, dtype=None, scale=1):
    """canonical answer of the real code; `scale` undoes `_half` so the protocol stays integral; a result whose
    dtype differs from the input's is an error of its own (the model is dtype-agnostic)"""
    def run():
        try:
            res = fn()
            if dtype is not None and getattr(res, "dtype", None) != dtype:
                return f"err DtypeChanged({getattr(res, 'dtype', None)})"
            if scale != 1:
                res = res * scale
                if isinstance(res, torch.Tensor) and not torch.equal(res, res.round()):
                    return "err NonIntegralAfterRescale"
            return ok_tensor(res)
        except (ValueError, TypeError, IndexError, RuntimeError, AssertionError) as e:
            n = err_name(e)
            return "err " + ("ShapeError" if n == "RuntimeError" else n)
    return run


def correspondence(ctx: Ctx):
    import direct.data.transforms as T
    from direct.data.bbox import crop_to_bbox

    rng = ctx.rng
    sizes = [1, 2, 3, 4, 5, 6, 7, 9]
    # ---- center_crop
    n_cc = ctx.budget(150, 2500)
    for _ in range(n_cc):
        rank = rng.choice([2, 3, 4, 4, 5, 6])
        shape = [rng.choice([1, 2, 3] if rank <= 4 else [1, 2]) for _ in range(rank - 2)] + [rng.choice(sizes), rng.choice(sizes)]
        x = _arange(shape)
        if rng.random() < 0.15:
            s = [rng.choice([0, shape[-2] + 1, shape[-2]]), rng.choice([shape[-1] + 2, 0, 1])]
        else:
            s = [rng.randint(1, shape[-2]), rng.randint(1, shape[-1])]
        sh, d = tensor_groups(x)
        odd = (shape[-2] - s[0]) % 2 == 1 or (shape[-1] - s[1]) % 2 == 1
        lay = rng.choice(["contiguous", "contiguous", "transposed", "strided", "sliced", "permuted"])
        xh = _layout(_half(x), lay)          # same values, another memory layout
        sform = rng.choice([tuple, list, torch.Size])(s)
        yield {"line": line("center_crop", sh, d, s),
               "impl": _impl(lambda x=xh, s=sform: T.center_crop(x, s), dtype=torch.float32, scale=2),
               "nontrivial": max(shape) >= 2 and odd,
               "bucket": "center_crop/" + ("odd" if odd else "even") + ("" if lay == "contiguous" else "/noncontiguous")}
    # ---- crop_to_bbox
    n_bb = ctx.budget(200, 4000)
    for _ in range(n_bb):
        rank = rng.choice([1, 2, 3])
        shape = [rng.choice(sizes) for _ in range(rank)]
        x = _arange(shape)
        mode = rng.random()
        if mode < 0.5:      # overlapping
            coords = [rng.randint(-3, n - 1) for n in shape]
            size = [rng.randint(1, n + 3) for n in shape]
        elif mode < 0.8:    # inside
            coords = [rng.randint(0, n - 1) for n in shape]
            size = [rng.randint(1, n - c) for n, c in zip(shape, coords)]
        else:               # anything, including far outside
            coords = [rng.randint(-5, 15) for n in shape]
            size = [rng.randint(0, 6) for n in shape]
        fill = rng.choice([0, 0, -7])
        leaves = any(c < 0 or c + s > n for c, s, n in zip(coords, size, shape))
        far = any(c + s < 0 or c > n for c, s, n in zip(coords, size, shape))
        sh, d = tensor_groups(x)
        dt = rng.choice([torch.float32, torch.float32, torch.float64])
        xh = _half(x).to(dt)       # half-integer data: a cast to an integer dtype would be visible
        yield {"line": line("bbox", sh, d, coords + size, [2 * fill]),
               "impl": _impl(lambda x=xh, b=coords + size, f=fill: crop_to_bbox(x, b, pad_value=f), dtype=dt, scale=2),
               "nontrivial": leaves, "bucket": "bbox/" + ("far" if far else "leaves" if leaves else "inside")}
    # numpy path of crop_to_bbox
    for _ in range(ctx.budget(40, 500)):
        rank = rng.choice([1, 2])
        shape = [rng.choice(sizes) for _ in range(rank)]
        x = _arange(shape).numpy().astype(np.int64)
        coords = [rng.randint(-3, n - 1) for n in shape]
        size = [rng.randint(1, n + 3) for n in shape]
        sh, d = tensor_groups(x)
        lay = rng.choice(NP_LAYOUTS)
        xl = _np_layout(x, lay)              # same logical array: negative strides, Fortran order, byte-swapped, read-only, …
        yield {"line": line("bbox", sh, d, coords + size, [0]),
               "impl": _impl(lambda x=xl, b=coords + size: np.ascontiguousarray(crop_to_bbox(x, b)).astype(np.int64)),
               "nontrivial": True, "bucket": "bbox/numpy" + ("" if lay == "plain" else "/" + lay)}
    # ---- pad_tensor
    for _ in range(ctx.budget(150, 2500)):
        k = rng.choice([2, 2, 3])
        rank = rng.choice([k, k + 1, k + 2, k + 3, k + 4]) if k == 2 else rng.choice([3, 4, 5, 6])
        shape = [rng.choice([1, 2]) for _ in range(rank - k)] + [rng.choice(sizes[:6] if rank <= 4 else sizes[:4]) for _ in range(k)]
        x = _arange(shape)
        target = [n + rng.choice([-1, 0, 0, 1, 2, 3, 4, 5]) for n in shape[-k:]]
        target = [max(t, 1) for t in target]
        if rng.random() < 0.05:
            target = target[:1]
        fill = rng.choice([0, 0, 3, -2, 2.5])        # 2 * fill stays integral
        odd = any((t - n) % 2 == 1 and t > n for t, n in zip(target, shape[-len(target):]))
        sh, d = tensor_groups(x)
        dt = rng.choice([torch.float32, torch.float32, torch.float64])
        xh = _layout(_half(x).to(dt), rng.choice(["contiguous", "contiguous", "transposed", "sliced"]))
        tform = rng.choice([tuple, list, torch.Size, np.asarray])(target)
        yield {"line": line("pad", sh, d, target, [2 * fill]),
               "impl": _impl(lambda x=xh, t=tform, f=fill: T.pad_tensor(x, t, value=f), dtype=dt, scale=2),
               "nontrivial": odd, "bucket": f"pad{k}d/" + ("odd" if odd else "even") + (f"/rank{rank}" if rank > 4 else "")
               + ("/value" if fill else "")}
    # ---- crop_to_largest: every item of the list is one `largest` line (bbox start = -(max - n) // 2 per axis)
    from direct.data.bbox import crop_to_largest
    for _ in range(ctx.budget(25, 400)):
        rank = rng.choice([1, 2, 2, 3])
        shapes = [[rng.choice(sizes[:6]) for _ in range(rank)] for _ in range(rng.randint(1, 4))]
        mx = [max(s[j] for s in shapes) for j in range(rank)]
        fill = rng.choice([0, 0, 7])
        use_np = rng.random() < 0.4
        items = [_half(_arange(s)) + 50 * j for j, s in enumerate(shapes)]
        data = [t.numpy() for t in items] if use_np else items
        for j, (t, shp) in enumerate(zip(items, shapes)):
            sh, d = tensor_groups(t * 2)
            odd = any((m - n) % 2 == 1 for m, n in zip(mx, shp))
            yield {"line": line("largest", sh, d, mx, [2 * fill]),
                   "impl": _impl(lambda data=data, j=j, f=fill: torch.as_tensor(crop_to_largest(data, pad_value=f)[j]),
                                 dtype=torch.float32, scale=2),
                   "nontrivial": odd, "bucket": "crop_to_largest/" + ("numpy" if use_np else "torch") + ("/odd" if odd else "/even")}
    # ---- complex_center_crop (bbox building + crop)
    for _ in range(ctx.budget(100, 1500)):
        rank = rng.choice([3, 4, 5])
        offset = rng.choice([0, 1])
        ncrop = rng.choice([2, 3]) if rank - offset >= 4 else 2
        shape = [rng.choice(sizes[:6]) for _ in range(rank - 1)] + [2]
        x = _arange(shape)
        crop = []
        for j in range(ncrop):
            n = shape[offset + j]
            r = rng.random()
            crop.append(0 if r < 0.1 else n + 1 if r < 0.15 else rng.randint(1, n))
        sh, d = tensor_groups(x)
        odd = any(c and (shape[offset + j] - c) % 2 == 1 for j, c in enumerate(crop))
        yield {"line": line("ccc", sh, d, crop, [offset]),
               "impl": _impl(lambda x=x, c=tuple(crop), o=offset: T.complex_center_crop(x, c, offset=o)),
               "nontrivial": odd, "bucket": "ccc/" + ("odd" if odd else "even")}


    # ---- complex_random_crop: the drawn corner is reproduced from the seed (global numpy stream seeded by the code)
    for _ in range(ctx.budget(80, 1200)):
        rank = rng.choice([3, 4, 5])
        offset = rng.choice([0, 1])
        ncrop = rng.choice([2, 3]) if rank - offset >= 4 else 2
        shape = [rng.choice(sizes[:6]) for _ in range(rank - 1)] + [2]
        x = _arange(shape)
        crop = []
        for j in range(ncrop):
            n = shape[offset + j]
            r = rng.random()
            crop.append(0 if r < 0.1 else n + 1 if r < 0.12 else rng.randint(1, n))
        seed = rng.randrange(2 ** 31)
        sampler = rng.choice(["uniform", "uniform", "gaussian"])
        eff = [c if c else shape[offset + j] for j, c in enumerate(crop)]
        limits = [shape[offset + j] - e for j, e in enumerate(eff)]
        lower = [0] * ncrop
        if all(l >= 0 for l in limits):
            rs = np.random.RandomState(seed)
            if sampler == "uniform":
                lower = rs.randint(0, np.asarray(limits) + 1).tolist()
            else:
                ds = np.asarray(shape[offset:offset + ncrop])
                lp = (rs.normal(loc=ds / 2, scale=ds / 6, size=len(ds)) - np.asarray(eff) / 2).astype(int)
                lower = np.clip(lp, 0, limits).tolist()
        sh, d = tensor_groups(x)
        st = np.random.get_state()

        def impl(x=x, c=tuple(crop), o=offset, sm=sampler, sd=seed):
            try:
                return ok_tensor(T.complex_random_crop(x, c, offset=o, sampler=sm, seed=sd))
            except (ValueError, TypeError, IndexError, RuntimeError, AssertionError) as e:
                n = err_name(e)
                return "err " + ("ShapeError" if n == "RuntimeError" else n)
            finally:
                np.random.set_state(st)
        yield {"line": line("rcrop", sh, d, crop, [offset], lower), "impl": impl,
               "nontrivial": any(l > 0 for l in limits), "bucket": f"random_crop/{sampler}"}
    # ---- the k-space modules (PadKspace / CropKspace) with exact operators: plan + key plumbing + crop-shape forms
    from props.c10_modules import correspondence_modules
    yield from correspondence_modules(ctx)
    from props.c10_modules import correspondence_padcoil
    yield from correspondence_padcoil(ctx)


# --------------------------------------------------------------------------------------------------
def _bbox_ref(x: np.ndarray, bbox, fill):
    nd = len(bbox) // 2
    coords, size = bbox[:nd], bbox[nd:]
    out = np.full(size, fill, dtype=x.dtype)
    for idx in itertools.product(*[range(s) for s in size]):
        src = tuple(c + i for c, i in zip(coords, idx))
        if all(0 <= s < n for s, n in zip(src, x.shape)):
            out[idx] = x[src]
    return out


def oracle(ctx: Ctx, deep: bool = False):
    """The property stated directly on the implementation."""
    import direct.data.transforms as T
    from direct.data.bbox import crop_to_bbox

    rng = ctx.rng
    lim = 13 if (deep or ctx.thorough) else 8
    # (1) centre crop = central window; (2) pad then centre crop = identity — exhaustive small scope
    for n2 in range(1, lim):
        for n1 in range(1, lim):
            x = _arange([2, n2, n1])
            for s2 in range(1, n2 + 1):
                for s1 in ((1, n1, max(1, n1 - 1), max(1, n1 // 2)) if not (deep or ctx.thorough) else range(1, n1 + 1)):
                    ctx.count(("cc", n2, n1, s2, s1), (n2 - s2) % 2 == 1 or (n1 - s1) % 2 == 1, bucket="oracle/center_crop")
                    try:
                        got = T.center_crop(x, (s2, s1))
                    except Exception as e:  # noqa: BLE001
                        yield Violation(f"center_crop-raises", f"center_crop raises {err_name(e)} for valid crop",
                                        {"op": "center_crop", "shape": [2, n2, n1], "crop": [s2, s1], "observed": repr(e)})
                        continue
                    l2, l1 = (n2 - s2) // 2, (n1 - s1) // 2
                    exp = x[:, l2:l2 + s2, l1:l1 + s1]
                    if got.shape != exp.shape or not torch.equal(got, exp):
                        yield Violation("center_crop-window", "center_crop does not return the central window",
                                        {"op": "center_crop", "shape": [2, n2, n1], "crop": [s2, s1],
                                         "expected": exp.tolist(), "observed": got.tolist()})
    for n2 in range(1, lim - 2):
        for n1 in range(1, lim - 2):
            x = _arange([n2, n1])
            for N2 in range(n2, n2 + 5):
                for N1 in range(n1, n1 + 5):
                    odd = (N2 - n2) % 2 == 1 or (N1 - n1) % 2 == 1
                    ctx.count(("padcrop", n2, n1, N2, N1), odd, bucket="oracle/pad_crop2d")
                    p = T.pad_tensor(x, (N2, N1))
                    back = T.center_crop(p, (n2, n1)) if tuple(p.shape) == (N2, N1) else None
                    if back is None or not torch.equal(back, x):
                        yield Violation("pad-crop-identity" + ("-odd" if odd else "-even"),
                                        "center_crop(pad_tensor(x, N), x.shape) != x",
                                        {"op": "pad_then_center_crop", "shape": [n2, n1], "target": [N2, N1],
                                         "expected": x.tolist(), "observed": None if back is None else back.tolist(),
                                         "padded": p.tolist()})
                    # placement: data starts at floor(diff/2)
                    b2, b1 = (N2 - n2) // 2, (N1 - n1) // 2
                    if tuple(p.shape) == (N2, N1):
                        ref = torch.zeros(N2, N1)
                        ref[b2:b2 + n2, b1:b1 + n1] = x
                        if not torch.equal(ref, p):
                            yield Violation("pad-placement" + ("-odd" if odd else "-even"),
                                            "pad_tensor does not place the data at floor(diff/2)",
                                            {"op": "pad_tensor", "shape": [n2, n1], "target": [N2, N1],
                                             "expected": ref.tolist(), "observed": p.tolist()})
    # 3-D pad + complex_center_crop back
    for _ in range(ctx.budget(60, 600)):
        shp = [rng.randint(1, 5) for _ in range(3)]
        tgt = [n + rng.randint(0, 4) for n in shp]
        x = _arange([2] + shp + [2])[..., 0]
        p = T.pad_tensor(x, tuple(tgt))
        odd = any((t - n) % 2 for t, n in zip(tgt, shp))
        ctx.count(("pad3", tuple(shp), tuple(tgt)), odd, bucket="oracle/pad_crop3d")
        ref = torch.zeros([2] + tgt)
        b = [(t - n) // 2 for t, n in zip(tgt, shp)]
        ref[:, b[0]:b[0] + shp[0], b[1]:b[1] + shp[1], b[2]:b[2] + shp[2]] = x
        if tuple(p.shape) != tuple(ref.shape) or not torch.equal(p, ref):
            yield Violation("pad-placement" + ("-odd" if odd else "-even"), "3-D pad_tensor misplaces the data",
                            {"op": "pad_tensor", "shape": [2] + shp, "target": tgt, "expected": ref.tolist(),
                             "observed": p.tolist()})
    # (3) bounding boxes against the pointwise reference
    for _ in range(ctx.budget(300, 5000)):
        rank = rng.choice([1, 2, 3])
        shape = [rng.randint(1, 7) for _ in range(rank)]
        coords = [rng.randint(-5, 15) for _ in shape]
        size = [rng.randint(1, 6) for _ in shape]
        fill = rng.choice([0, -7])
        x = _arange(shape)
        far = any(c + s < 0 or c > n for c, s, n in zip(coords, size, shape))
        touching = any(c + s == 0 or c == n for c, s, n in zip(coords, size, shape))
        ctx.count(("bbox", tuple(shape), tuple(coords), tuple(size)), True, bucket="oracle/bbox" + ("-far" if far else ""))
        dt = rng.choice([torch.float32, torch.float64, torch.int64, torch.complex64])
        x = (x * 0.25).to(dt) if dt != torch.int64 else x.to(dt)     # fractional values where the dtype has them
        exp = _bbox_ref(x.numpy(), coords + size, fill)
        try:
            res = crop_to_bbox(x, coords + size, pad_value=fill)
            got = res.numpy()
            ok = got.shape == exp.shape and np.array_equal(got, exp) and res.dtype == dt
            obs = {"dtype": str(res.dtype), "values": got.tolist() if dt != torch.complex64 else str(got.tolist())}
        except Exception as e:  # noqa: BLE001
            ok, obs = False, f"raises {err_name(e)}: {e}"
        if not ok:
            yield Violation("bbox-" + ("disjoint" if far else "touching" if touching else "overlapping"),
                            "crop_to_bbox differs from the addressed window with pad fill",
                            {"op": "crop_to_bbox", "shape": shape, "bbox": coords + size, "pad_value": fill,
                             "dtype": str(dt), "expected": str(exp.tolist()), "observed": obs})
    # (4) k-space crop/pad == image-space crop/pad under the backward operator
    from direct.data.mri_transforms import CropKspace, PadKspace

    for _ in range(ctx.budget(40, 300)):
        c, h, w = rng.randint(1, 3), rng.randint(2, 9), rng.randint(2, 9)
        g = torch.Generator().manual_seed(rng.randrange(2 ** 31))
        ksp = torch.randint(-4, 5, (c, h, w, 2), generator=g).float()
        ch, cw = rng.randint(1, h), rng.randint(1, w)
        ctx.count(("cropk", c, h, w, ch, cw), (h - ch) % 2 == 1 or (w - cw) % 2 == 1, bucket="oracle/CropKspace")
        out = CropKspace((ch, cw), image_space_center_crop=True)({"kspace": ksp.clone(), "filename": "f"})["kspace"]
        ref = T.fft2(T.complex_center_crop(T.ifft2(ksp, dim=(1, 2)), (ch, cw)), dim=(1, 2))
        img_ref = T.ifft2(ksp, dim=(1, 2))[:, (h - ch) // 2:(h - ch) // 2 + ch, (w - cw) // 2:(w - cw) // 2 + cw]
        if out.shape != ref.shape or not torch.allclose(T.ifft2(out, dim=(1, 2)), img_ref, atol=1e-4):
            yield Violation("cropkspace-image-equivalence", "CropKspace != fft(center window of ifft(kspace))",
                            {"op": "CropKspace", "shape": [c, h, w, 2], "crop": [ch, cw], "seed": ctx.seed})
        # targets smaller / equal / larger per axis, independently (an axis that is already large enough is left alone)
        ph, pw = max(1, h + rng.choice([-2, -1, 0, 1, 2, 3, 4])), max(1, w + rng.choice([-2, -1, 0, 1, 2, 3, 4]))
        ctx.count(("padk", c, h, w, ph, pw), (ph - h) % 2 == 1 or (pw - w) % 2 == 1,
                  bucket="oracle/PadKspace" + ("-mixed" if (ph < h) != (pw < w) else ""))
        smp = {"kspace": ksp.clone(), "filename": "f", "padding": None}
        try:
            out = PadKspace((ph, pw))(smp)["kspace"]
        except Exception as e:  # noqa: BLE001
            yield Violation("padkspace-raises", f"PadKspace raises {err_name(e)}", {"op": "PadKspace", "shape": [c, h, w, 2],
                                                                                   "pad": [ph, pw], "observed": repr(e)})
            continue
        img = T.ifft2(ksp, dim=(1, 2))
        oh, ow = max(h, ph), max(w, pw)          # pad_tensor never crops
        ref_img = torch.zeros(c, oh, ow, 2)
        ref_img[:, (oh - h) // 2:(oh - h) // 2 + h, (ow - w) // 2:(ow - w) // 2 + w] = img
        if tuple(out.shape) != (c, oh, ow, 2) or not torch.allclose(T.ifft2(out, dim=(1, 2)), ref_img, atol=1e-4):
            yield Violation("padkspace-image-equivalence" + ("-odd" if (ph - h) % 2 or (pw - w) % 2 else "-even"),
                            "PadKspace != fft(zero-pad centred image)",
                            {"op": "PadKspace", "shape": [c, h, w, 2], "pad": [ph, pw], "seed": ctx.seed})
    # (5) the k-space modules as persistent instances: histories, every constructor option, key plumbing, aliasing
    from props.c10_modules import oracle_modules
    yield from oracle_modules(ctx, deep)
    # (6) the primitives' remaining options / argument forms / dtypes / layouts
    from props.c10_prims import oracle_prims
    yield from oracle_prims(ctx, deep)


def replay(rep: dict) -> bool:
    """Re-run a recorded failing case on the implementation; True when it still fails."""
    import direct.data.transforms as T
    from direct.data.bbox import crop_to_bbox

    op = rep.get("op")
    if op == "module_history":
        from props.c10_modules import replay_modules
        return replay_modules(rep)
    if op == "primitive":
        from props.c10_prims import replay_prims
        return replay_prims(rep)
    if op == "reachable_copy":
        import importlib
        f = getattr(importlib.import_module(rep["module"]), rep["function"])
        x = _arange(rep["shape"])
        try:
            return f(x, rep["bbox"]).tolist() != rep["expected"]
        except Exception:  # noqa: BLE001
            return True
    if op == "pad_then_center_crop":
        x = _arange(rep["shape"])
        back = T.center_crop(T.pad_tensor(x, tuple(rep["target"])), tuple(rep["shape"]))
        return not torch.equal(back, x)
    if op == "crop_to_bbox":
        dt = getattr(torch, rep.get("dtype", "torch.float32").split(".")[-1])
        x = _arange(rep["shape"])
        x = (x * 0.25).to(dt) if dt != torch.int64 else x.to(dt)
        try:
            res = crop_to_bbox(x, rep["bbox"], pad_value=rep["pad_value"])
            exp = _bbox_ref(x.numpy(), rep["bbox"], rep["pad_value"])
            return not (res.dtype == dt and np.array_equal(res.numpy(), exp))
        except Exception:  # noqa: BLE001
            return True
    if op == "center_crop":
        x = _arange(rep["shape"])
        try:
            got = T.center_crop(x, tuple(rep["crop"]))
            return got.tolist() != rep.get("expected")
        except Exception:  # noqa: BLE001
            return True
    if op == "pad_tensor":
        x = _arange(rep["shape"])
        return T.pad_tensor(x, tuple(rep["target"])).tolist() != rep["expected"]
    return True


def search(ctx: Ctx, dis, lean):
    """Failing-input search for obligations that no oracle case explains: when a reference to a primitive no longer
    resolves to the modelled module (`primitive_callers_ok`), exercise the function *as the caller reaches it*."""
    import importlib

    from direct.data import bbox as home

    for modname in ("direct.data.transforms", "direct.engine", "direct.data.mri_transforms", "direct.nn.mri_models"):
        try:
            mod = importlib.import_module(modname)
        except Exception:  # noqa: BLE001 - engines need optional packages; not this property's concern
            continue
        for fname in ("crop_to_bbox", "crop_to_largest"):
            f = getattr(mod, fname, None)
            if f is None or f is getattr(home, fname):
                continue
            for shape, bbox in (([5, 2], [13, 3, 2, 5]), ([4], [-6, 3]), ([3, 3], [1, 5, 2, 2]), ([4, 4], [-1, -1, 3, 3])):
                x = _arange(shape)
                ctx.count(("reach", modname, fname, tuple(bbox)), True, bucket="search/reachable-copy")
                exp = _bbox_ref(x.numpy(), bbox, 0)
                try:
                    got = f(x, bbox) if fname == "crop_to_bbox" else None
                    ok = got is None or (tuple(got.shape) == exp.shape and np.array_equal(got.numpy(), exp))
                    obs = None if got is None else got.tolist()
                except Exception as e:  # noqa: BLE001
                    ok, obs = False, f"raises {err_name(e)}: {e}"[:200]
                if not ok:
                    yield Violation("caller-reaches-unmodelled-copy",
                                    f"{modname}.{fname} is {f.__module__}.{fname}, not the modelled {home.__name__}.{fname}, and "
                                    f"violates the bounding-box contract",
                                    {"op": "reachable_copy", "module": modname, "function": fname, "shape": shape, "bbox": bbox,
                                     "expected": exp.tolist(), "observed": obs})
                    break
