"""C06 — the autocalibration region is fully sampled, centred and of the requested size."""
from __future__ import annotations

import json

import boot  # noqa: F401
import numpy as np

from core import Ctx, Violation, ints, line
from props import maskgen_common as G
from props import c06_hist as H
from props.c04 import (_guard, acs_lines, answer, circus_thresholds, frames_of, gen_lines, gid, hang_violations, mid,
                       pack_bits, run, worker, TIMEOUT)

PROP = "C06"
MANIFEST = {
    "text": "Lean 4 theorems, all widths/heights/parities, all histories, all seeds. Geometry: center_mask_func (pad = (N-L+1)//2) and "
            "the repaired zero_pad_to_center give exactly L contiguous columns containing the centre column N//2, balanced within one "
            "column; Magic cap bounds; centered_disk_mask is a disc about the centre sample, point-symmetric wherever the mirror image "
            "is on the grid, contains the centre iff radius >= 1; the CIRCUS disc search returns disc ∩ mask; for each of the 14 "
            "generators, every mode/shape/interior: ACS ⊆ mask element-wise; VariableDensityPoisson with crop_corner (repaired order "
            "crop-then-disc): every disc cell is in the mask, with a witness that the pinned order (disc-then-crop) loses disc cells. "
            "Width: the float glue is modelled exactly (binary64 product/quotient fl53, Python round half-even, int): "
            "int(round(N*cf)) is within 1/2 + N*cf*2^-53 of N*cf (fl53_close, fraction_width_close, budget_close), ties go to even, the "
            "constructor guards (0 < cf < 1 / int > 1) select the glue branch; chain theorems fastmri_acs_count / cartesian_acs_count. "
            "Objects: a machine for one mask-function object (abstract RandomState, any number of pairs): every request leaves the "
            "object unchanged, its answer is the fresh-object answer after ANY history (answer_history_independent), ACS(shape, seed) "
            "after any history ⊆ mask(shape, seed) after any other history on any object (acs_subset_mask_any_history), the selected "
            "pair is the same for both requests — for every seed, falsy ones included; witnesses that `rng.seed(seed or None)` and an "
            "ACS memo keyed by the shape each break it. Tie: 29 translated kernels/tables (22 kernels, 7 tables) regenerated from /repo on every run — pad, "
            "slice bounds, zero-pad start/stop, num_low_freqs expressions incl. the float operations and comparisons, Magic budget/cap, "
            "constructor guards, disc predicates; structural tables with decided predicates: temp_seed hands the seed to rng.seed "
            "unchanged, no instance/class/module state written and no memoising decorator / mutable default in the 27 functions reachable "
            "from mask_func or __call__, __call__ = guards + forward, seed parameter never rebound and choose_acceleration before the "
            "return_acs return, crop before disc in poisson(), CreateSamplingMask passes the same shape/seed to both requests, "
            "integerize_seed returns ints unchanged, the geometry helpers build their index grids in the default 64-bit signed type and "
            "cast nothing to a narrow / unsigned integer (gridDtypes, with the witness disc_uint16_wraps_violates), "
            "BaseMaskFunc.__init__ stores the configured sequences as given; the branch conditions "
            "of the glue are translated too, `isinstance(x, T)` / `type(x) is T` as membership of a type-code parameter `ty`, and the "
            "bridge lemmas hold for EVERY `ty` (the width depends on the value only), so a value test turned into a type test breaks "
            "them; the tables select the machine the theorems are about (code_machine, "
            "poisson_crop_before_disc). Differential correspondence: exhaustive small-scope kernels, fl53 against CPython, ACS widths "
            "on and next to ties against real generators, real return_acs / mask calls, and whole call histories on persistent objects "
            "run through the Lean machine with a numpy-only seed -> choice table; argument-form ladder (17 classes incl. the unguarded bases "
            "Random/Equispaced/Magic): every centre fraction / acceleration as int, float, float-valued int, np.int64/int32, "
            "np.float64/float32, 0-d array, torch scalar; containers list/tuple/ndarray/tensor; shape tuple/list/torch.Size/ndarray; "
            "mode enum/lower/upper string — an accepted form must give the canonical ACS (oracle) and the model's value-based width "
            "(num_low_value correspondence); forms the code rejects with an exception are counted, not judged; large-size ladder "
            "(368x368, 512x246, 640x368, 1024x64, 512x512, 372x640): center_mask_func rows and centered_disk_mask probe cells "
            "(corners, rim, every would-be wrap-around cell modulo 2^8/2^15/2^16/2^31) against the Lean model, whole grids and the "
            "CIRCUS disc search against exact int64 arithmetic in the oracle.",
    "note": "Trusted: Lean kernel (+propext, Classical.choice, Quot.sound; decide +kernel for three 192/256-cell witnesses), AST "
            "translator (incl. the reused C05 walker), recording RandomState, worker subprocesses. Still computed by the harness: "
            "int(sqrt(rows*cols*cf/pi)) and the CIRCUS radii 1, 1.1, … (floor of float32 radius²); the older generator-level lines "
            "also still receive round(N*cf) from Python (the new num_low_exact / acs_hist lines do not). The seed -> pair-index table "
            "of the history correspondence is RandomState(seed).randint(0, k) evaluated by numpy (MT19937 is not modelled; theorems "
            "quantify over every stream). For CIRCUS without centre fraction the ACS is disc ∩ mask by design; only the subset claim "
            "and 'sampled part of a disc' (oracle) are made there. The state-write table follows simple local aliases (`m = self.memo`, "
            "`m = vars(self).setdefault(…)`) but not state reached through arguments, containers or C extensions; the history "
            "oracle covers those dynamically. numpy-integer seeds are rejected (ValueError) by the three "
            "generators that call integerize_seed (Gaussian1D/2D, VariableDensityPoisson): reported in the histogram, not judged. "
            "Observed on the clean tree, not judged (rejections): torch scalars/tensors as centre fractions raise TypeError (round on a "
            "tensor) for every line generator; the base MagicMaskFunc raises TypeError for float-valued counts (8.0); Cartesian* "
            "constructors reject everything but Python ints by design.",
    "technique": "Lean 4 proof (omega, nlinarith, interval counting, list induction, state-machine induction) + AST translation bridge "
                 "(kernels + structural tables) + differential correspondence incl. call histories",
}
TRUSTED = [
    "Lean 4.33 kernel; axioms ⊆ {propext, Classical.choice, Quot.sound}",
    "harness/translate recipes c06/c04 and the C05 site walker reused by import (AST -> Lean kernels and tables for subsample.py, "
    "mri_transforms.py)",
    "recording np.random.RandomState subclass; watchdog worker subprocesses (props.maskgen_common.Worker, props.c06_hist)",
    "numpy slice-assignment semantics as encoded by sliceMask / normIdx (validated by correspondence incl. negative bounds)",
    "numpy's RandomState(seed).randint(0, k) as the seed -> pair-index table of the model-side history check",
]
ASSUMPTIONS = [
    "CPython float multiplication / int-int true division are correctly rounded binary64 and round() is half-even on the exact "
    "double (the Lean model fl53 / roundHalfEven is compared with CPython on every run, key kernel/fl53/*)",
    "int(sqrt(rows*cols*cf/pi)) and floor(radius²) of the CIRCUS radii are evaluated in Python by the harness and passed to the "
    "model as integers",
    "feasible centre fractions: 1 <= L < N/R (line), radius >= 1 and disc inside the budget (2-D); admissible seeds: ints in "
    "[0, 2**32), bools, non-empty tuples/lists of such ints, numpy integers for the generators that do not call integerize_seed",
    "the object machine reflects the code when the decided tables hold (seed unchanged, nothing written, __call__ forwards); "
    "state kept through aliases or C extensions is outside the tables",
]
RULE = ("kernel cases: every (N, L) with N <= 40 (quick) / 80 (thorough) incl. L > N and negative L; discs for rows/cols 1..24 "
        "(quick) and sampled up to 80; fl53: products N*cf, quotients N/R, ties and their neighbours, random 70-bit fractions; "
        "num_low_exact: 9 line generators x fractions on/next to ties, rejected constructor arguments; generator cases: return_acs and "
        "mask with the same seed, every generator x mode, edge seeds (0, 2**32-1, (0,), file-name tuples), several pairs; history "
        "cases: one persistent object, 2-3 pairs, ~24 interleaved mask/ACS requests, two shapes, seed forms int/bool/tuple/list/"
        "numpy/file name, falsy seeds repeated (oracle: 2 per generator quick, checked against fresh-object references; model: 1 per "
        "generator through the Lean object machine); site cases: CreateSamplingMask(return_acs=True) on 5 samples, explicit mask "
        "shapes incl. None entries; form cases: one canonical configuration (1-2 pairs, products kept clear of float32 rounding ties) "
        "per class x ~27 forms, quick 17 (oracle) + 12 (model) ladders; large cases: 48 center_mask rows (N up to 1024), 12 disc probe "
        "lines (~900 cells each) and 18 whole-grid discs + 2 CIRCUS searches per quick run; non-trivial = 1 <= L < N (kernels) / a returned ACS with at least one sample (generators) / "
        ">= 2 answered ACS requests (histories); distinct = distinct protocol line / spec")
PENDING_FINDINGS: list[str] = []
EXTRA_LEAN_MODULES = ['DirectVerif.Lemmas.C04List', 'DirectVerif.Lemmas.C06Assemble', 'DirectVerif.Lemmas.C06Seed',
                      'DirectVerif.Lemmas.C06Round', 'DirectVerif.Lemmas.C06Crop']


# --------------------------------------------------------------------------------------------------
def correspondence(ctx: Ctx):
    from direct.common import subsample as S

    rng = ctx.rng
    # ---- center_mask_func: exhaustive small scope (+ malformed L)
    top = 80 if ctx.thorough else 40
    for n in range(1, top + 1):
        ls = range(-2, n + 4) if (ctx.thorough or n <= 16) else sorted({0, 1, 2, 3, n // 4, n // 3, n // 2, n - 2, n - 1, n, n + 1,
                                                                          rng.randint(1, n), rng.randint(1, n)})
        for l in ls:
            def impl(n=n, l=l):
                return "ok " + ints(S.CartesianVerticalMaskFunc.center_mask_func(n, l).astype(int).tolist())
            yield {"line": line("center_mask", [n, l]), "impl": _guard(impl), "nontrivial": 1 <= l < n,
                   "bucket": "kernel/center_mask/" + ("malformed" if l < 0 or l > n else ("odd" if (n - l) % 2 else "even") + "-diff")}
    # ---- zero_pad_to_center on the all-ones block the Kt generators build
    for n in range(1, (40 if ctx.thorough else 24) + 1):
        for l in range(0, n + 3):
            if not ctx.thorough and n > 12 and l not in (0, 1, 2, 3, n // 2, n - 1, n, n + 1):
                continue
            nt, rows = rng.choice([1, 2, 3]), rng.choice([1, 2, 3])

            def impl(n=n, l=l, nt=nt, rows=rows):
                a = S.KtBaseMaskFunc.zero_pad_to_center(np.ones((nt, rows, l)), [nt, rows, n])
                assert a.shape == (nt, rows, n) and (a == a[:1, :1, :]).all()
                return "ok " + ints(a[0, 0].astype(int).tolist())
            yield {"line": line("zero_pad_row", [n, l]), "impl": _guard(impl), "nontrivial": 1 <= l < n,
                   "bucket": "kernel/zero_pad_row/" + ("too-wide" if l > n else ("odd" if (n - l) % 2 else "even") + "-diff")}
    # ---- zero_pad_to_center, general 1-D labelled data
    for _ in range(ctx.budget(40, 400)):
        k, t = rng.randint(0, 9), rng.randint(1, 12)
        data = list(range(1, k + 1))

        def impl(data=data, t=t):
            return "ok " + ints(S.KtBaseMaskFunc.zero_pad_to_center(np.array(data, dtype=np.int64), [t]).tolist())
        yield {"line": line("zero_pad_1d", [t], data), "impl": _guard(impl), "nontrivial": 0 < k < t, "bucket": "kernel/zero_pad_1d"}
    # ---- num_low_freqs glue of the Magic generators: cap and adjusted acceleration, read off the real ACS
    for _ in range(ctx.budget(60, 600)):
        cols = rng.choice(G.SIZES)
        acc = rng.choice(G.ACCELERATIONS)
        name = rng.choice(["FastMRIMagic", "CartesianMagic"])
        cf = rng.randint(2, cols) if G.takes_count(name) else rng.choice(G.FRACTIONS + [0.5, 0.9])
        l_raw, target = G.num_low_freqs(name, cols, cf), G.py_round(cols / acc)
        res = run({"gen": name, "mode": "static", "shape": [8, cols, 2], "acc": acc, "cf": cf, "seed": 3, "return_acs": True})
        full = run({"gen": name, "mode": "static", "shape": [8, cols, 2], "acc": acc, "cf": cf, "seed": 3, "return_acs": False})
        if not res.get("ok"):
            continue
        l_real = bin(res["rows"][0]).count("1")
        # adjusted acceleration observable as the `high` of the offset draw (0 -> the draw raises)
        highs = [d[2] for d in full.get("draws", [])[1:] if d[0] == "randint"]
        adj_real = int(highs[0]) if highs else 0
        if not full.get("ok") and full.get("err") != "ValueError":
            adj_real = -1
        a = "ok " + ints([l_real, adj_real])
        yield {"line": line("magic", [cols, l_raw, target]), "impl": (lambda a=a: a), "nontrivial": l_raw != l_real or adj_real > 0,
               "bucket": "kernel/magic_cap/" + ("capped" if l_real != l_raw else "uncapped") + ("/no-budget" if adj_real == 0 else "")}
    # ---- centered_disk_mask
    sizes = list(range(1, 25)) if not ctx.thorough else list(range(1, 41))
    for _ in range(ctx.budget(120, 1500)):
        rows, cols = rng.choice(sizes + G.SIZES), rng.choice(sizes + G.SIZES)
        scale = rng.choice(G.FRACTIONS + [0.01, 0.5, 0.8, 1.0])
        radius = G.disc_radius(rows, cols, scale)

        def impl(rows=rows, cols=cols, scale=scale):
            m = S.centered_disk_mask((rows, cols), scale)
            assert m.shape == (rows, cols)
            return "ok " + ints(G.pack_rows(m, cols))
        yield {"line": line("disc", [rows, cols, radius]), "impl": _guard(impl), "nontrivial": radius >= 1,
               "bucket": "kernel/disc/" + ("o" if rows % 2 else "e") + ("o" if cols % 2 else "e") + ("/r0" if radius == 0 else "")}
    # ---- CIRCUS largest-sampled-disc search (watchdogged: it spins on a fully sampled grid)
    for _ in range(ctx.budget(40, 400)):
        rows, cols = rng.choice(G.SIZES[:14]), rng.choice(G.SIZES[:14])
        dens = rng.choice([0.2, 0.4, 0.6, 0.8])
        m = np.array([[rng.random() < dens for _ in range(cols)] for _ in range(rows)])
        # fully sampled core of random radius, as real CIRCUS masks have
        rad = rng.choice([0, 1, 2, 3, 4])
        xx, yy = np.ogrid[:rows, :cols]
        m |= (xx - rows // 2) ** 2 + (yy - cols // 2) ** 2 <= rad ** 2
        # the search only returns when more than 1/11 of some disc is unsampled (theorem circus_disc_none_iff); on
        # (nearly) fully sampled grids the real loop spins, which no generator reaches for accelerations >= 1.2:
        # keep the grid at most 85 % sampled by clearing border cells
        border = [(x, y) for x in range(rows) for y in range(cols) if (x - rows // 2) ** 2 + (y - cols // 2) ** 2 > rad ** 2]
        rng.shuffle(border)
        while 100 * int(m.sum()) > 85 * m.size and border:
            x, y = border.pop()
            m[x, y] = False
        if 100 * int(m.sum()) > 85 * m.size:
            continue
        packed = G.pack_rows(m, cols)
        res = run({"op": "circus_disc", "rows": rows, "cols": cols, "mask": packed})
        a = ("ok " + ints(res["rows"])) if res.get("ok") else answer(res)
        yield {"line": line("circus", [rows, cols], circus_thresholds(rows, cols), packed), "impl": (lambda a=a: a),
               "nontrivial": res.get("ok", False) and any(res.get("rows") or []), "bucket": f"kernel/circus_disc/core{rad}"}
    # ---- generators: return_acs and the mask with the same seed
    from props.c04 import generator_cases

    for c in generator_cases(ctx, ctx.budget(6, 150), acs=True):
        if c["line"].startswith("gen"):       # only the generator-level lines (C04 owns the other ops of this stream)
            yield c
    yield from float_glue_cases(ctx)
    yield from history_cases(ctx)
    yield from poisson_crop_cases(ctx)
    yield from form_cases(ctx)
    yield from large_size_cases(ctx)


# --------------------------------------------------------------------------------------------------
def ratio(x) -> tuple[int, int]:
    """exact value of a Python number as a fraction (ints stay ints)"""
    if isinstance(x, int):
        return x, 1
    n, d = float(x).as_integer_ratio()
    return n, d


def float_glue_cases(ctx: Ctx):
    """(a) the binary64 model `fl53` against CPython's correctly rounded int / int division, `round` and `int`;
    (b) the ACS width `numLow` computes from (cols, centre fraction, acceleration) against the width of the block the
    real generator returns — fractions chosen so that `cols * cf` falls on and next to ties"""
    from math import gcd

    rng = ctx.rng
    for k in range(ctx.budget(120, 2000)):
        kind = k % 4
        if kind == 0:          # cols * cf with cf a double
            n = rng.choice(G.SIZES + [96, 128, 218, 320, 368, 640])
            cn, cd = ratio(rng.choice(G.FRACTIONS + [0.06, 0.12, 0.16, 1 / 3, 0.7, (rng.randint(0, n) + 0.5) / n, rng.random()]))
            num, den = n * cn, cd
        elif kind == 1:        # cols / acceleration
            num, den = rng.choice(G.SIZES + [218, 320, 640]), rng.choice(G.ACCELERATIONS + [7, 9, 12, 16])
        elif kind == 2:        # ties and their neighbours
            q, den = rng.randint(0, 400), rng.choice([2, 4, 6, 10, 2 ** 40])
            num = (2 * q + 1) * (den // 2) + rng.choice([0, 0, 1, -1])
            num = max(num, 1)
        else:
            num, den = rng.randrange(1, 2 ** rng.randint(1, 70)), rng.randrange(1, 2 ** rng.randint(1, 70))

        def impl(num=num, den=den):
            x = num / den                      # CPython: correctly rounded true division of ints
            a, b = x.as_integer_ratio()
            return "ok " + ints([a, b]) + " | " + ints([round(x), int(x)])
        yield {"line": line("fl53", [num, den]), "impl": impl, "nontrivial": num % den != 0,
               "bucket": "kernel/fl53/" + ["cols*cf", "cols/acc", "tie", "random"][kind]}
    names = [g for g in G.GENERATORS if G.FAMILY[g] in ("line", "ktline")]
    for k in range(ctx.budget(90, 900)):
        name = names[k % len(names)]
        cols = rng.choice(G.SIZES)
        acc = rng.choice(G.ACCELERATIONS)
        if G.takes_count(name):       # accepted: Python ints > 1; rejected by the constructor: 1, floats
            cf = rng.choice([rng.randint(2, cols), rng.randint(2, cols), rng.randint(2, cols), float(rng.randint(2, cols)), 1, 1.0])
        else:
            cf = rng.choice(G.FRACTIONS + [0.06, 0.12, 0.16, 0.5, (rng.randint(0, cols // 2) + 0.5) / cols,
                                           (rng.randint(0, cols // 2) + 0.5) / cols, rng.random() * 0.6])
            if name.startswith("FastMRI") and rng.random() < 0.08:
                cf = rng.choice([1.0, 1, 1.5, 2])      # rejected by the constructor
        mode = "dynamic" if G.is_kt(name) else "static"
        spec = {"gen": name, "mode": mode, "shape": ([2] if mode != "static" else []) + [3, cols, 2], "acc": acc, "cf": cf,
                "seed": 5, "return_acs": True}
        res = run(spec)
        a = ("ok " + str(bin(res["rows"][0]).count("1"))) if res.get("ok") and res.get("rows") else answer(res)
        cn, cd = ratio(cf)
        an, ad = ratio(acc)
        tie = (2 * cols * cn) % cd == 0 and (cols * cn) % cd != 0
        yield {"line": line("num_low_exact", [gid(name), cols], [cn, cd, an, ad, 1 if isinstance(cf, int) else 0]), "impl": (lambda a=a: a),
               "nontrivial": res.get("ok", False),
               "bucket": f"kernel/num_low_exact/{name}" + ("/tie" if tie else "") + ("" if res.get("ok") else "/rejected")}


LARGE_SHAPES = [(368, 368), (512, 246), (640, 368), (1024, 64), (512, 512), (372, 640), (320, 320), (218, 170)]


def _d2(rows: int, cols: int):
    """exact squared distances from the centre sample, in 64-bit signed integers built explicitly"""
    x = np.arange(rows, dtype=np.int64)[:, None] - rows // 2
    y = np.arange(cols, dtype=np.int64)[None, :] - cols // 2
    return x * x + y * y


def large_size_cases(ctx: Ctx):
    """the cheap geometric helpers on realistic LARGE k-space sizes (helper level, a few ms each): `center_mask_func`
    whole rows; `centered_disk_mask` at probe cells — the corners, the rim of the disc, every cell whose squared distance
    would fall inside the disc after wrapping modulo 2^8 / 2^15 / 2^16 / 2^31, and random cells — against the integer model"""
    from direct.common import subsample as S

    rng = ctx.rng
    for n in (246, 320, 368, 512, 640, 1024):
        for l in sorted({1, 2, rng.randint(3, 40), rng.randint(3, 40), n // 12, n // 8 + 1, n - 1, n}):
            def impl(n=n, l=l):
                return "ok " + ints(S.CartesianVerticalMaskFunc.center_mask_func(n, l).astype(int).tolist())
            yield {"line": line("center_mask", [n, l]), "impl": _guard(impl), "nontrivial": 1 <= l < n,
                   "bucket": "kernel/large/center_mask/" + ("odd" if (n - l) % 2 else "even") + "-diff"}
    shapes = LARGE_SHAPES if ctx.thorough else LARGE_SHAPES[:6]
    for rows, cols in shapes:
        for scale in ([0.04, 0.1, 0.3] if ctx.thorough else [rng.choice([0.04, 0.08]), rng.choice([0.15, 0.3])]):
            radius = G.disc_radius(rows, cols, scale)
            d2 = _d2(rows, cols)
            cells = {(0, 0), (0, cols - 1), (rows - 1, 0), (rows - 1, cols - 1), (rows // 2, cols // 2), (0, cols // 2), (rows // 2, 0)}
            rim = np.argwhere(np.abs(d2 - radius * radius) <= 2 * radius + 1)
            for mod in (2 ** 8, 2 ** 15, 2 ** 16, 2 ** 31):
                wrap = np.argwhere((d2 >= mod) & ((d2 % mod) < radius * radius))
                for i in rng.sample(range(len(wrap)), min(len(wrap), 150)):
                    cells.add((int(wrap[i][0]), int(wrap[i][1])))
            for i in rng.sample(range(len(rim)), min(len(rim), 300)):
                cells.add((int(rim[i][0]), int(rim[i][1])))
            for _ in range(300):
                cells.add((rng.randrange(rows), rng.randrange(cols)))
            cells = sorted(cells)

            def impl(rows=rows, cols=cols, scale=scale, cells=cells):
                m = S.centered_disk_mask((rows, cols), scale)
                assert m.shape == (rows, cols)
                return "ok " + ints(int(bool(m[x, y])) for x, y in cells)
            yield {"line": line("disc_probe", [rows, cols, radius], [v for c in cells for v in c]), "impl": _guard(impl),
                   "nontrivial": radius >= 1, "bucket": f"kernel/large/disc_probe/{rows}x{cols}"}


def large_oracle(ctx: Ctx, seen: set, deep: bool):
    """the disc helpers on large k-space, whole grids, against exact integer arithmetic: the ACS disc is
    {d² < radius²} about the centre sample (count and point symmetry follow), the CIRCUS search returns the sampled
    part of the first disc of which more than 1/11 is unsampled"""
    from direct.common import subsample as S

    rng = ctx.rng
    for rows, cols in (LARGE_SHAPES if (deep or ctx.thorough) else LARGE_SHAPES[:6]):
        d2 = _d2(rows, cols)
        for scale in [0.04, 0.1, 0.3]:
            radius = G.disc_radius(rows, cols, scale)
            exp = d2 < radius * radius
            got = np.asarray(S.centered_disk_mask((rows, cols), scale)).astype(bool)
            ctx.count(("large-disc", rows, cols, scale), radius >= 1, bucket=f"oracle/large/disc/{rows}x{cols}")
            if got.shape != exp.shape or (got != exp).any():
                key = "kernel-centered_disk_mask-large"
                if key not in seen:
                    seen.add(key)
                    bad = np.argwhere(got != exp) if got.shape == exp.shape else []
                    yield Violation(key, f"centered_disk_mask(({rows}, {cols}), {scale}): {len(bad)} cell(s) differ from the disc of radius {radius} "
                                    f"about ({rows // 2}, {cols // 2}) — {int(got.sum())} cells instead of {int(exp.sum())}; e.g. {[tuple(map(int, b)) for b in bad[:3]]}",
                                    {"op": "large-disc", "rows": rows, "cols": cols, "scale": scale, "expected_count": int(exp.sum()),
                                     "observed_count": int(got.sum())})
    circus = (((368, 368), 50), ((512, 246), 6)) + ((((640, 368), 70),) if (deep or ctx.thorough) else ())
    for (rows, cols), core in circus:
        d2 = _d2(rows, cols)
        m = (np.random.RandomState(rng.randrange(2 ** 31)).random_sample((rows, cols)) < 0.3) | (d2 <= core * core)
        packed = G.pack_rows(m, cols)
        res = run({"op": "circus_disc", "rows": rows, "cols": cols, "mask": packed})
        ctx.count(("large-circus", rows, cols, core), True, bucket=f"oracle/large/circus/{rows}x{cols}")
        exp = None
        for thr in circus_thresholds(rows, cols):
            disk = d2 <= thr
            inter = disk & m
            if 10 * int(disk.sum()) > 11 * int(inter.sum()):
                exp = inter
                break
        ok = res.get("ok") and exp is not None and res.get("rows") == G.pack_rows(exp, cols)
        if not ok:
            key = "hang-circus_disc" if res.get("hang") else "kernel-circular_centered_mask-large"
            if key not in seen:
                seen.add(key)
                yield Violation(key, f"circular_centered_mask on a {rows} x {cols} mask with a fully sampled core of radius {core}: "
                                + ("no return within the watchdog" if res.get("hang") else res.get("err") or
                                   "the result is not the sampled part of the first disc with more than 1/11 unsampled"),
                                {"op": "large-circus", "rows": rows, "cols": cols, "core": core, "mask": packed})


def form_cases(ctx: Ctx):
    """the width of the ACS block a line generator returns when its numbers arrive as numpy / 0-d / torch scalars,
    float-valued counts, in tuples / arrays — against the model's VALUE-based `numLow` (forms the code rejects with an
    exception are counted, not compared)"""
    rng = ctx.rng
    classes = [c for c in FORM_CLASSES if G.FAMILY[BASES.get(c, c)] in ("line", "ktline")]
    for cls in classes:
        for _ in range(ctx.budget(1, 5)):
            spec = forms_spec(rng, cls)
            if spec is None:
                continue
            spec = dict(spec, masks=False)
            res = hist_worker(BASES.get(cls, cls)).run(spec, 90.0)
            forms = res.get("forms") or {}
            cols = spec["shape"][-2]
            twin = BASES.get(cls, cls)
            for key, r in sorted(forms.items()):
                arg, _, form = key.partition("=")
                if not r["acs"].get("ok") or not r["acs"].get("rows"):
                    ctx.hist[f"kernel/num_low_value/{key or 'canonical'}/rejected"] = ctx.hist.get(f"kernel/num_low_value/{key}/rejected", 0) + 1
                    continue
                idx = np_choice(twin, spec["seed"], len(spec["acc"]))      # the pair this seed selects (numpy alone)
                cf, acc = spec["cf"][idx], spec["acc"][idx]
                # the value the form carries (float32 forms carry the float32 value)
                if arg == "cf" and form in ("np.float32", "torch32"):
                    cf = float(np.float32(cf))
                if arg == "acc" and form in ("np.float32", "torch32"):
                    acc = float(np.float32(acc))
                a = "ok " + str(bin(r["acs"]["rows"][0]).count("1"))
                yield {"line": line("num_low_value", [gid(twin), cols], list(ratio(cf)) + list(ratio(acc))), "impl": (lambda a=a: a),
                       "key": (cls, key, cols, str(cf), str(acc)), "nontrivial": True, "bucket": f"kernel/num_low_value/{key or 'canonical'}"}


VDP_CROP_WITNESS = {"gen": "VariableDensityPoisson", "mode": "static", "shape": [24, 8, 2], "acc": 2, "cf": 0.5, "seed": 1,
                    "return_acs": False, "extra": {"crop_corner": True, "max_attempts": 5}}
VDP_CROP_KEY = "acs-not-subset-VariableDensityPoisson/crop_corner"


def poisson_crop_cases(ctx: Ctx):
    """one VariableDensityPoisson frame as the code assembles it — `(raster & (r < 1)) | disc` when `crop_corner` —
    against the model (`Model/C06Crop.lean`); the real mask itself stands for the raster; the model also says whether
    the ACS disc is a subset of the frame"""
    rng = ctx.rng
    shapes = [(24, 8), (8, 24), (16, 16), (12, 12), (13, 12), (15, 15), (32, 8), (20, 10), (9, 16), (16, 9)]
    cases = [dict(VDP_CROP_WITNESS)]
    for _ in range(ctx.budget(10, 80)):
        rows, cols = rng.choice(shapes)
        cases.append({"gen": "VariableDensityPoisson", "mode": "static", "shape": [rows, cols, 2], "acc": rng.choice([2, 3, 4]),
                      "cf": rng.choice([0.1, 0.2, 0.3, 0.5]), "seed": rng.randrange(1000), "return_acs": False,
                      "extra": {"crop_corner": rng.random() < 0.7, "max_attempts": 5}})
    for spec in cases:
        rows, cols = spec["shape"][-3], spec["shape"][-2]
        mask, acs = run(spec), run(dict(spec, return_acs=True))
        radius = G.disc_radius(rows, cols, spec["cf"])
        if not (mask.get("ok") and acs.get("ok") and mask.get("rows") and len(mask["rows"]) == rows):
            ctx.hist["kernel/poisson_crop/raised"] = ctx.hist.get("kernel/poisson_crop/raised", 0) + 1
            continue
        sub = not any(a & ~m for a, m in zip(acs["rows"], mask["rows"]))
        a = "ok " + ints(mask["rows"]) + " | " + ("1" if sub else "0")
        crop = bool(spec["extra"].get("crop_corner"))
        yield {"line": line("poisson_crop", [rows, cols, radius, 1 if crop else 0], mask["rows"]), "impl": (lambda a=a: a),
               "nontrivial": radius >= 1, "bucket": "kernel/poisson_crop/" + ("crop" if crop else "plain") + ("" if sub else "/acs-not-subset")}


_ERR_CODE = {"ValueError": 1, "RuntimeError": 2, "IndexError": 3}


def history_cases(ctx: Ctx):
    """persistent-object histories through the model's object machine: the model's stream is the table
    seed -> `RandomState(seed).randint(0, npairs)` computed with numpy alone, never the draws of the call itself"""
    rng = ctx.rng
    per_gen = ctx.budget(1, 8)
    for name in G.GENERATORS:
        modes = G.modes_of(name)
        for k in range(per_gen):
            spec = history_spec(rng, name, modes[(k + 1 + gid(name)) % len(modes)])
            if spec is None or spec["cf"] is None:
                continue
            spec = dict(spec, record=False, refs=False)
            res = hist_worker(name).run(spec, 90.0)
            if not res.get("ok") or len(res.get("calls", [])) != len(spec["calls"]):
                a = answer(res)
                calls = []
            else:
                calls = res["calls"]
                out = []
                for c, r in zip(spec["calls"], calls):
                    if c["return_acs"]:
                        out += ([r["shape"], r["rows"]] if r.get("ok") and r.get("rows") is not None
                                else [[-1], [_ERR_CODE.get(r.get("err"), 9)]])
                a = "ok " + " | ".join(ints(g) for g in out)
            seeds: list = []
            for c in spec["calls"]:
                if c["seed"] not in seeds:
                    seeds.append(c["seed"])
            npairs = len(spec["acc"])
            choices = [np_choice(name, e, npairs) for e in seeds]
            shapes = {(c["shape"][-3], c["shape"][-2]) for c in spec["calls"]}
            pairs = []
            for acc, cf in zip(spec["acc"], spec["cf"]):
                radii = [v for (r, c2) in sorted(shapes) for v in (r, c2, G.disc_radius(r, c2, cf))] if G.FAMILY[name] == "disc" else []
                pairs.append(list(ratio(cf)) + list(ratio(acc)) + radii)
            groups = [[gid(name), mid(spec["mode"]), npairs], choices] + pairs + \
                     [[seeds.index(c["seed"]), 1 if c["return_acs"] else 0] + list(c["shape"]) for c in spec["calls"]]
            yield {"line": line("acs_hist", *groups), "impl": (lambda a=a: a),
                   "nontrivial": sum(1 for c, r in zip(spec["calls"], calls) if c["return_acs"] and r.get("ok")) >= 2,
                   "bucket": f"history/{name}/pairs{npairs}"}


# --------------------------------------------------------------------------------------------------
def check_acs(spec: dict, acs: dict, mask: dict, pair=None):
    """C06 stated on one real (ACS, mask) pair produced with the same arguments; yields (key, what).
    `pair`: the (acceleration, centre fraction) the seeded stream selects, when it is known from another recorded
    call with the same arguments (default: read off the draws recorded for `mask`)"""
    name, mode, shape = spec["gen"], spec["mode"], spec["shape"]
    if not (acs.get("ok") and mask.get("ok")):
        return
    acc, cf = pair if pair is not None else G.chosen(spec, mask)     # the pair the seeded stream selects for the sampling mask
    rows, cols = shape[-3], shape[-2]
    F = frames_of(mode, shape)
    A, M = acs["rows"], mask["rows"]
    if acs["shape"] != mask["shape"] or A is None or M is None or len(A) != F * rows or len(M) != F * rows:
        yield f"acs-shape-{name}", f"{name}: ACS shape {acs['shape']} differs from mask shape {mask['shape']}"
        return
    if any(a & ~m for a, m in zip(A, M)):
        lost = sum(bin(a & ~m).count("1") for a, m in zip(A, M))
        if name == "VariableDensityPoisson" and spec.get("extra", {}).get("crop_corner"):
            # the pinned tree's defect (repaired in 2480376): `poisson` cropped the corners AFTER OR-ing the disc
            yield VDP_CROP_KEY, (f"{name} crop_corner=True, shape {shape}, centre fraction {cf}: {lost} cell(s) of the ACS disc lie outside "
                                 f"the inscribed ellipse and are cropped out of the sampling mask (same seed), not out of the ACS")
        else:
            yield f"acs-not-subset-{name}", f"{name} ({mode}): the ACS mask is not a subset of the sampling mask (same seed): {lost} cell(s)"
    fam = G.FAMILY[name]
    if fam in ("line", "ktline"):
        want = acs_lines(name, cols, acc, cf)
        c = cols // 2
        for f in range(F):
            fr = A[f * rows:(f + 1) * rows]
            if any(r != fr[0] for r in fr):
                yield f"acs-rows-differ-{name}", f"{name}: rows of the ACS differ in frame {f}"
                break
            bits = [(fr[0] >> j) & 1 for j in range(cols)]
            idx = [j for j, b in enumerate(bits) if b]
            if len(idx) != want:
                yield f"acs-count-{name}", f"{name}: {len(idx)} ACS columns, requested {want} (N={cols})"
            elif idx and idx != list(range(idx[0], idx[0] + len(idx))):
                yield f"acs-not-contiguous-{name}", f"{name}: ACS columns {idx} are not contiguous"
            elif idx and c not in idx:
                yield f"acs-misses-centre-{name}", f"{name}: ACS columns {idx[0]}..{idx[-1]} do not contain the centre column {c} (N={cols})"
            elif idx and abs((c - idx[0]) - (idx[-1] - c)) > 1:
                yield f"acs-unbalanced-{name}", (f"{name}: ACS columns {idx[0]}..{idx[-1]} unbalanced about the centre column {c} "
                                                 f"(N={cols}, L={want})")
    elif cf:
        radius = G.disc_radius(rows, cols, cf)
        cx, cy = rows // 2, cols // 2
        for f in range(F):
            fr = A[f * rows:(f + 1) * rows]
            grid = [[(fr[x] >> y) & 1 for y in range(cols)] for x in range(rows)]
            exp = [[int((x - cx) ** 2 + (y - cy) ** 2 < radius ** 2) for y in range(cols)] for x in range(rows)]
            if grid != exp:
                yield f"acs-not-disc-{name}", f"{name}: ACS is not the disc of radius {radius} about the centre sample ({cx},{cy})"
                break
            if radius >= 1 and not grid[cx][cy]:
                yield f"acs-misses-centre-{name}", f"{name}: the disc does not contain the centre sample"
            bad = [(x, y) for x in range(rows) for y in range(cols) if grid[x][y]
                   and 0 <= 2 * cx - x < rows and 0 <= 2 * cy - y < cols and not grid[2 * cx - x][2 * cy - y]]
            if bad:
                yield f"acs-not-symmetric-{name}", f"{name}: disc not point-symmetric about ({cx},{cy}): {bad[:3]}"
    elif name in ("Radial", "Spiral"):
        # CIRCUS without centre fraction: the ACS is the sampled part of a disc about the centre sample — every sampled
        # cell at most as far from the centre as the farthest ACS cell belongs to it (frame by frame)
        cx, cy = rows // 2, cols // 2
        for f in range(F):
            fa, fm = A[f * rows:(f + 1) * rows], M[f * rows:(f + 1) * rows]
            cells = [(x, y) for x in range(rows) for y in range(cols) if (fa[x] >> y) & 1]
            if not cells:
                continue
            far = max((x - cx) ** 2 + (y - cy) ** 2 for x, y in cells)
            miss = [(x, y) for x in range(rows) for y in range(cols)
                    if (fm[x] >> y) & 1 and not (fa[x] >> y) & 1 and (x - cx) ** 2 + (y - cy) ** 2 <= far]
            if miss:
                yield f"acs-not-disc-{name}", (f"{name} (no centre fraction): the ACS is not the sampled part of a disc about ({cx},{cy}): "
                                               f"sampled cells {miss[:3]} lie inside its radius² {far} but are left out (frame {f})")
                break


# --------------------------------------------------------------------------------------------------
# call histories on ONE persistent mask-function object with several (acceleration, centre fraction) pairs, and the
# seed forms callers really use (0 and other falsy values, 2**32 - 1, one-element tuples, numpy integers, file names)
RESEEDING = ("Gaussian1D", "Gaussian2D", "VariableDensityPoisson")      # `self.rng.seed(integerize_seed(seed))`
EDGE_SEEDS = [{"k": "int", "v": 0}, {"k": "int", "v": 1}, {"k": "int", "v": 2 ** 32 - 1}, {"k": "tuple", "v": [0]},
              {"k": "list", "v": [0, 0]}, {"k": "bool", "v": False}, {"k": "tuple", "v": [2 ** 32 - 1]},
              {"k": "fname", "v": "file_0001.h5"}, {"k": "fname", "v": "a"}]
NP_SEEDS = [{"k": "np", "t": "int64", "v": 0}, {"k": "np", "t": "uint32", "v": 7}, {"k": "np", "t": "int32", "v": 123}]
_hist_workers: dict[str, G.Worker] = {}


def hist_worker(name: str) -> G.Worker:
    """histories that run the compiled `_poisson` kernel get a process of their own (cf. maskgen_common.isolated)"""
    import atexit

    k = "vdp" if name == "VariableDensityPoisson" else "main"
    if k not in _hist_workers:
        _hist_workers[k] = G.Worker("props.c06_hist", "run")
        atexit.register(_hist_workers[k].close)
    return _hist_workers[k]


def np_choice(name: str, enc: dict, k: int) -> int:
    """index `choose_acceleration` must pick for this seed according to numpy alone (`RandomState.seed(s)` then
    `randint(0, k)`; the three re-seeding generators first map a tuple/list to `RandomState(s).randint(0, 1e6)`).
    Used to steer the generator towards seeds selecting different pairs and as the seed -> choice table of the
    model-side history check; the oracle itself reads the choice off a recorded call on a fresh object."""
    seed = H.dec_seed(enc)
    r = np.random.RandomState()
    if name in RESEEDING and not isinstance(seed, int):
        r.seed(seed)
        seed = r.randint(0, 1e6)
    r.seed(seed)
    return int(r.randint(0, k))


def acs_size(name: str, rows: int, cols: int, acc, cf):
    return acs_lines(name, cols, acc, cf) if G.FAMILY[name] in ("line", "ktline") else G.disc_radius(rows, cols, cf)


def multi_config(rng, name: str, shapes, npairs: int):
    """`npairs` (acceleration, centre fraction) pairs, feasible for every shape, with pairwise different ACS sizes"""
    rows, cols = shapes[0][-3], shapes[0][-2]
    for _ in range(40):
        prs: list = []
        for _ in range(300):
            acc = rng.choice(G.ACCELERATIONS)
            cf = rng.randint(2, max(2, cols // 3)) if G.takes_count(name) else rng.choice(G.FRACTIONS + [0.06, 0.16, 0.12])
            if (acc, cf) in prs or not all(G.feasible(name, s[-3], s[-2], acc, cf) for s in shapes):
                continue
            if acs_size(name, rows, cols, acc, cf) in [acs_size(name, rows, cols, a, c) for a, c in prs]:
                continue
            prs.append((acc, cf))
            if len(prs) == npairs:
                return [p[0] for p in prs], [p[1] for p in prs]
    return None


def history_spec(rng, name: str, mode: str, quick_masks: bool = True):
    """one persistent-object history: ACS requests with seeds selecting different pairs directly after one another,
    masks in between, a second shape, falsy / edge seeds repeated"""
    small = name in ("VariableDensityPoisson", "KtRadial", "Gaussian2D", "Radial", "Spiral")
    for _ in range(30):
        sh = G.sample_shape(rng, name, mode, small=small)
        if name == "VariableDensityPoisson":
            sh[-3], sh[-2] = rng.choice([(12, 12), (13, 12), (16, 16), (12, 16), (15, 15)])
        other = list(sh)
        if rng.random() < 0.5:
            other[-2] = rng.choice([c for c in (G.SIZES[:12] if small else G.SIZES) if c != sh[-2]])
        else:
            other[0] = sh[0] + 1          # same rows / cols, another leading dimension
        if name == "VariableDensityPoisson":
            other = list(sh)
            other[0] = sh[0] + 1
        shapes = [sh, other]
        npairs = rng.choice([2, 2, 3])
        circus_search = name in ("Radial", "Spiral") and rng.random() < 0.35
        if circus_search:
            accs = rng.sample([3, 4, 5, 6, 8], npairs)
            cfg = (accs, None)
        else:
            cfg = multi_config(rng, name, shapes, npairs)
        if cfg is None:
            continue
        accs, cfs = cfg
        k = len(accs)
        pool = list(EDGE_SEEDS) + ([] if name in RESEEDING else list(NP_SEEDS))
        pool += [{"k": "int", "v": rng.randrange(2 ** 31)} for _ in range(6)]
        pool += [{"k": "tuple", "v": [rng.randrange(256) for _ in range(rng.randint(1, 8))]} for _ in range(3)]
        rng.shuffle(pool)
        zero = {"k": "int", "v": 0}
        seeds = [zero]
        # seeds that select every pair at least once (as numpy defines the choice), falsy/edge forms preferred
        for want in range(k):
            s = next((e for e in pool if e not in seeds and np_choice(name, e, k) == want), None)
            if s is not None:
                seeds.append(s)
        seeds += [e for e in pool if e not in seeds][:1]
        prim, sec = shapes

        def c(s, shape, racs):
            return {"shape": list(shape), "seed": s, "return_acs": racs}

        order = list(seeds)
        rng.shuffle(order)
        calls = [c(s, prim, True) for s in order]                      # ACS, ACS, ACS … with different choices
        heavy = name in ("VariableDensityPoisson", "KtRadial")
        for i, s in enumerate(reversed(order)):
            if not heavy or i < 2:
                calls.append(c(s, prim, False))
            calls.append(c(s, prim, True))
        for s in order[:2]:
            calls += [c(s, sec, True)] + ([c(s, sec, False)] if not heavy else []) + [c(s, prim, True)]
        for _ in range(2):                                             # the falsy seed again, mask and ACS
            calls += [c(zero, prim, False)] if not heavy else []
            calls += [c(zero, prim, True), c(zero, sec, True)]
        spec = {"gen": name, "mode": mode, "acc": accs, "cf": cfs, "record": rng.random() < 0.5, "refs": True, "calls": calls}
        if name == "VariableDensityPoisson":
            spec["extra"] = {"max_attempts": 5}
        elif rng.random() < 0.25:
            o = G.sample_options(rng, name, sh[-3], sh[-2])
            if o:
                spec["extra"] = o
        return spec
    return None


def check_history(spec: dict, res: dict):
    """C06 on every call of a persistent-object history; yields (key, what, call index)"""
    name = spec["gen"]
    if not res.get("ok"):
        return
    refs = res.get("refs", {})
    for i, (c, r) in enumerate(zip(spec["calls"], res["calls"])):
        one = {"gen": name, "mode": spec["mode"], "shape": c["shape"], "acc": spec["acc"], "cf": spec["cf"], "extra": spec.get("extra", {})}
        ref_m = refs.get(H._key(dict(c, return_acs=False)))
        ref_a = refs.get(H._key(dict(c, return_acs=True)))
        known = next((x for x in (ref_m, ref_a) if x and x.get("draws")), None)
        if known is None:
            continue
        pair = G.chosen(one, known)           # the pair this seed selects on a fresh object
        tag = f" [call {i} of a history on one object: seed={H.seed_text(c['seed'])}, shape={c['shape']}]"
        if c["return_acs"]:
            if r.get("ok") is not True:
                # the pairs are feasible by construction: the autocalibration request has nothing to refuse
                how = "on a used object, not on a fresh one" if ref_a and ref_a.get("ok") else "(also on a fresh object)"
                yield f"history/acs-raises-{name}", f"{name}: the ACS request raises {r.get('err')}: {r.get('msg')} {how}" + tag, i
                continue
            masks = [m for m in [ref_m] + [r2 for c2, r2 in zip(spec["calls"], res["calls"])
                                           if not c2["return_acs"] and c2["shape"] == c["shape"] and c2["seed"] == c["seed"]]
                     if m and m.get("ok")]
            if not masks and ref_a and ref_a.get("ok"):
                masks = [ref_a]               # no mask with these arguments was made: geometry / count only
            for m in masks[:3]:
                hit = False
                for key, what in check_acs(one, r, m, pair=pair):
                    hit = True
                    yield "history/" + key, what + tag, i
                if hit:
                    break
        elif r.get("ok") and ref_a and ref_a.get("ok"):
            for key, what in check_acs(one, ref_a, r, pair=pair):
                if key.startswith("acs-not-subset"):
                    yield "history/" + key, what + " (mask made on a used object, ACS of a fresh one)" + tag, i


def shrink_history(spec: dict, idx: int, key: str) -> tuple[dict, int]:
    """drop calls that are not needed for call `idx` to violate (greedy; a candidate must fail twice)"""
    def fails(s, j):
        for _ in range(2):
            res = hist_worker(s["gen"]).run(s, 90.0)
            if not any(k == key and i == j for k, _w, i in check_history(s, res)):
                return False
        return True

    cur = dict(spec, calls=spec["calls"][:idx + 1])
    j = idx
    if not fails(cur, j):
        return spec, idx
    n = 0
    pos = 0
    while pos < j and n < 14:
        cand = dict(cur, calls=cur["calls"][:pos] + cur["calls"][pos + 1:])
        n += 1
        if fails(cand, j - 1):
            cur, j = cand, j - 1
        else:
            pos += 1
    return cur, j


def history_oracle(ctx: Ctx, seen: set, deep: bool):
    rng = ctx.rng
    per_gen = ctx.budget(2, 12) * (3 if deep else 1)
    for name in G.GENERATORS:
        modes = G.modes_of(name)
        for k in range(per_gen if name != "VariableDensityPoisson" else max(1, per_gen // 2)):
            spec = history_spec(rng, name, modes[(k + G.GENERATORS.index(name)) % len(modes)])
            if spec is None:
                continue
            res = hist_worker(name).run(spec, 90.0)
            if res.get("hang") or res.get("died"):
                key = f"hang-{name}" if res.get("hang") else f"generator-crashes/{name}"
                if key not in seen:
                    seen.add(key)
                    yield Violation(key, f"{name}: a {len(spec['calls'])}-call history on one object "
                                    + ("did not return within 90 s" if res.get("hang") else "killed the process running it"),
                                    {"op": "acs-history", "spec": spec, "observed": "hang" if res.get("hang") else "died"})
                continue
            n_acs = sum(1 for c, r in zip(spec["calls"], res.get("calls", [])) if c["return_acs"] and r.get("ok"))
            kinds = sorted({c["seed"]["k"] for c in spec["calls"]})
            ctx.count(("hist", json.dumps(spec, sort_keys=True)), n_acs >= 2,
                      bucket=f"oracle/history/{name}/" + ("pairs" + str(len(spec["acc"]))) + ("/search" if spec["cf"] is None else "")
                             + ("/rec" if spec["record"] else "/own-rng"))
            ctx.hist["oracle/history/calls"] = ctx.hist.get("oracle/history/calls", 0) + len(spec["calls"])
            for kd in kinds:
                ctx.hist[f"oracle/history/seed-form/{kd}"] = ctx.hist.get(f"oracle/history/seed-form/{kd}", 0) + 1
            for key, what, i in check_history(spec, res):
                if key in seen:
                    continue
                seen.add(key)
                small, j = shrink_history(spec, i, key)
                yield Violation(key, what if small is spec else what.split(" [call ")[0] + f" [call {j} of the replay's {len(small['calls'])}-call history on one object: "
                                f"seed={H.seed_text(small['calls'][j]['seed'])}, shape={small['calls'][j]['shape']}]",
                                {"op": "acs-history", "spec": small, "call": j, "key": key,
                                 "accelerations": spec["acc"], "center_fractions": spec["cf"],
                                 "calls": [f"{'ACS ' if c['return_acs'] else 'mask'}(shape={c['shape']}, seed={H.seed_text(c['seed'])})"
                                           for c in small["calls"]],
                                 "instance_attributes": {"before": res.get("attrs_before"), "after": res.get("attrs_after")}})


def check_site(spec: dict, res: dict):
    """C06 on what `CreateSamplingMask(..., return_acs=True)` stores for a sequence of samples; yields (key, what, i)"""
    name = spec["gen"]
    if not res.get("ok"):
        return
    for i, rec in enumerate(res["samples"]):
        one = {"gen": name, "mode": spec["mode"], "shape": rec["eff_shape"], "acc": spec["acc"], "cf": spec["cf"], "extra": spec.get("extra", {})}
        ref = rec.get("ref_mask") or {}
        tag = f" [CreateSamplingMask(shape={spec.get('crop')}, return_acs=True), sample {i} '{rec['filename']}', k-space {spec['shape']}]"
        if "err" in rec:
            if ref.get("ok"):
                yield f"site/raises-{name}", f"{name}: the transform raises {rec['err'].get('err')}: {rec['err'].get('msg')}" + tag, i
            continue
        if not ref.get("draws"):
            continue
        pair = G.chosen(one, ref)
        for key, what in check_acs(one, rec["acs_mask"], rec["sampling_mask"], pair=pair):
            yield "site/" + key, what + tag, i
        if ref.get("ok"):
            for key, what in check_acs(one, rec["acs_mask"], ref, pair=pair):
                if key.startswith(("acs-not-subset", "acs-shape")):
                    yield "site/" + key, what + " (mask: direct call with the file-name seed on the effective shape)" + tag, i


def site_oracle(ctx: Ctx, seen: set, deep: bool):
    """call sites outside subsample.py: the transform that produces both masks for every sample of a dataset"""
    rng = ctx.rng
    names = [n for n in G.GENERATORS if n != "VariableDensityPoisson"] + (["VariableDensityPoisson"] if (deep or ctx.thorough) else [])
    per = ctx.budget(1, 4) * (2 if deep else 1)
    for name in names:
        for k in range(per):
            modes = G.modes_of(name)
            mode = modes[(k + gid(name)) % len(modes)]
            small = name in ("VariableDensityPoisson", "KtRadial", "Gaussian2D", "Radial", "Spiral")
            sh = G.sample_shape(rng, name, mode, rank=4 if mode != "static" else rng.choice([3, 4]), small=small)
            crop = None
            pick = rng.random()
            sizes = [c for c in (G.SIZES[:10] if small else G.SIZES[:16])]
            if pick < 0.6:         # explicit mask shape (rarely used option), smaller than the k-space, None entries allowed
                lead = list(sh[:-3])
                crop = lead + [rng.choice([c for c in sizes if c <= sh[-3]] or [sh[-3]]), rng.choice([c for c in sizes if c <= sh[-2]] or [sh[-2]])]
                if pick < 0.25:
                    crop[rng.randrange(len(crop))] = None
            eff = sh if crop is None else [c if c else sh[:-1][i] for i, c in enumerate(crop)] + [2]
            cfg = multi_config(rng, name, [eff], rng.choice([2, 3])) or multi_config(rng, name, [eff], 2)
            if cfg is None:
                crop, eff = None, sh
                cfg = multi_config(rng, name, [eff], 2)
            if cfg is None:
                continue
            fnames = ["file_%04d.h5" % rng.randrange(10000) for _ in range(3)] + ["a", "0"]
            spec = {"kind": "site", "gen": name, "mode": mode, "acc": cfg[0], "cf": cfg[1], "shape": sh, "crop": crop, "filenames": fnames}
            if name == "VariableDensityPoisson":
                spec["extra"] = {"max_attempts": 5}
            res = hist_worker(name).run(spec, 90.0)
            if res.get("hang") or res.get("died"):
                key = f"hang-{name}" if res.get("hang") else f"generator-crashes/{name}"
                if key not in seen:
                    seen.add(key)
                    yield Violation(key, f"{name}: CreateSamplingMask on {len(fnames)} samples " + ("hung" if res.get("hang") else "killed its process"),
                                    {"op": "acs-site", "spec": spec})
                continue
            okc = sum(1 for r in res.get("samples", []) if "err" not in r)
            ctx.count(("site", json.dumps(spec, sort_keys=True)), okc >= 2,
                      bucket=f"oracle/site/{name}/" + ("kspace-shape" if crop is None else "crop" + ("+None" if None in crop else "")))
            for key, what, i in check_site(spec, res):
                if key not in seen:
                    seen.add(key)
                    yield Violation(key, what, {"op": "acs-site", "spec": dict(spec, filenames=fnames[:i + 1]), "sample": i, "key": key})


# --------------------------------------------------------------------------------------------------
# argument-form ladder: the ACS depends on the VALUES configured, not on the Python types that carry them
BASES = {"Random": "FastMRIRandom", "Equispaced": "FastMRIEquispaced", "Magic": "FastMRIMagic"}     # unguarded base classes
FORM_CLASSES = list(G.GENERATORS) + list(BASES)


def _far_from_tie(x: float, margin: float = 0.02) -> bool:
    return abs((x % 1.0) - 0.5) > margin


def forms_spec(rng, cls: str):
    """canonical configuration (Python ints / floats, lists, enum, tuple) whose ACS is insensitive to float32 rounding of
    the configured numbers: products / square roots stay clear of rounding ties"""
    twin = BASES.get(cls, cls)
    mode = rng.choice(G.modes_of(twin))
    small = twin in ("VariableDensityPoisson", "KtRadial", "Gaussian2D", "Radial", "Spiral")
    for _ in range(60):
        shape = G.sample_shape(rng, twin, mode, small=small)
        rows, cols = shape[-3], shape[-2]
        count = cls in BASES and rng.random() < 0.6 or G.takes_count(twin)
        ref = ("Cartesian" + twin[len("FastMRI"):]) if (count and twin.startswith("FastMRI")) else twin
        if rng.random() < 0.5:        # two pairs: containers and element forms must keep the pairing
            cfg = multi_config(rng, ref, [shape], 2)
            if cfg is None:
                continue
            accs, cfs = cfg
        else:
            pr = G.sample_params(rng, ref, rows, cols, True)
            if pr is None:
                continue
            accs, cfs = [pr[0]], [pr[1]]
        clear = True
        for acc, cf in zip(accs, cfs):
            if G.FAMILY[twin] in ("line", "ktline"):
                if not count and not all(_far_from_tie(cols * float(v)) for v in (cf, np.float32(cf))):
                    clear = False
                if not _far_from_tie(cols / acc):
                    clear = False
            else:
                r = [float(np.sqrt(rows * cols * float(v) / np.pi)) for v in (cf, np.float32(cf))]
                if any(abs(x - round(x)) < 0.02 for x in r):
                    clear = False
        if not clear:
            continue
        spec = {"kind": "forms", "gen": cls, "mode": mode, "acc": accs, "cf": cfs, "shape": shape,
                "seed": rng.choice([{"k": "int", "v": rng.randrange(2 ** 31)}, {"k": "int", "v": 0}, {"k": "fname", "v": "file_0001.h5"}]),
                "masks": twin != "VariableDensityPoisson"}
        if twin == "VariableDensityPoisson":
            spec["extra"] = {"max_attempts": 5}
        return spec
    return None


def check_forms(spec: dict, res: dict):
    """yields (key, what, form): a form that is accepted must give the ACS of the canonical form, inside its own mask"""
    name = spec["gen"]
    forms = (res or {}).get("forms") or {}
    can = forms.get("canonical")
    if not can:
        return
    if not can["acs"].get("ok"):
        yield f"acs-raises-{name}", (f"{name}(accelerations={spec['acc']}, center_fractions={spec['cf']}, mode={spec['mode']}) shape {spec['shape']}: "
                                    f"the ACS request raises {can['acs'].get('err')}: {can['acs'].get('msg')}"), "canonical"
        return
    for key, r in forms.items():
        if key == "canonical" or not r["acs"].get("ok"):
            continue
        arg = key.split("=")[0]
        if r["acs"].get("rows") != can["acs"].get("rows") or r["acs"].get("shape") != can["acs"].get("shape"):
            n_can = sum(bin(v).count("1") for v in can["acs"]["rows"] or [])
            n_got = sum(bin(v).count("1") for v in r["acs"]["rows"] or [])
            yield f"forms/acs-depends-on-type-{name}/{arg}", (
                f"{name}: the same configuration (accelerations={spec['acc']}, center_fractions={spec['cf']}, shape {spec['shape']}) with "
                f"`{key}` gives another ACS than with Python numbers in lists: {n_got} cells (shape {r['acs'].get('shape')}) "
                f"instead of {n_can} (shape {can['acs'].get('shape')})"), key
        m = r.get("mask")
        if m and m.get("ok") and m.get("rows") and r["acs"].get("rows") and len(m["rows"]) == len(r["acs"]["rows"]) \
                and any(a & ~b for a, b in zip(r["acs"]["rows"], m["rows"])):
            yield f"forms/acs-not-subset-{name}/{arg}", f"{name} with `{key}`: the ACS is not a subset of the mask made with the same arguments", key


def forms_oracle(ctx: Ctx, seen: set, deep: bool):
    rng = ctx.rng
    per = ctx.budget(1, 6) * (2 if deep else 1)
    for cls in FORM_CLASSES:
        for _ in range(per):
            spec = forms_spec(rng, cls)
            if spec is None:
                continue
            res = hist_worker(BASES.get(cls, cls)).run(spec, 90.0)
            if res.get("hang") or res.get("died"):
                key = f"hang-{cls}" if res.get("hang") else f"generator-crashes/{cls}"
                if key not in seen:
                    seen.add(key)
                    yield Violation(key, f"{cls}: the argument-form ladder " + ("hung" if res.get("hang") else "killed its process"),
                                    {"op": "acs-forms", "spec": spec})
                continue
            forms = res.get("forms", {})
            acc = sum(1 for k, r in forms.items() if k != "canonical" and r["acs"].get("ok"))
            ctx.count(("forms", json.dumps(spec, sort_keys=True)), acc >= 3, bucket=f"oracle/forms/{cls}")
            for k, r in forms.items():
                b = f"oracle/forms/{k}/" + ("accepted" if r["acs"].get("ok") else "rejected:" + str(r["acs"].get("err")))
                ctx.hist[b] = ctx.hist.get(b, 0) + 1
            for key, what, form in check_forms(spec, res):
                if key not in seen:
                    seen.add(key)
                    yield Violation(key, what, {"op": "acs-forms", "spec": spec, "form": form, "key": key,
                                                "canonical_acs": forms["canonical"]["acs"], "form_acs": forms.get(form, {}).get("acs")})


def oracle(ctx: Ctx, deep: bool = False):
    """The property stated directly on the implementation (independent of the model)."""
    from direct.common import subsample as S

    rng = ctx.rng
    seen = set()
    # (1) centre block kernels, exhaustive small scope
    top = 80 if (deep or ctx.thorough) else 48
    for n in range(1, top + 1):
        for l in range(0, n + 1):
            ctx.count(("cm", n, l), 1 <= l < n, bucket="oracle/center_mask")
            for tag, fn in (("center_mask_func", lambda: S.CartesianVerticalMaskFunc.center_mask_func(n, l)),
                            ("zero_pad_to_center", lambda: S.KtBaseMaskFunc.zero_pad_to_center(np.ones((1, 1, l)), [1, 1, n])[0, 0])):
                m = np.asarray(fn()).astype(bool)
                idx = np.flatnonzero(m).tolist()
                c = n // 2
                what = None
                if m.shape != (n,) or len(idx) != l:
                    what = f"{len(idx)} columns instead of {l}"
                elif idx and idx != list(range(idx[0], idx[0] + l)):
                    what = "not contiguous"
                elif idx and c not in idx:
                    what = f"columns {idx[0]}..{idx[-1]} miss the centre column {c}"
                elif idx and abs((c - idx[0]) - (idx[-1] - c)) > 1:
                    what = f"columns {idx[0]}..{idx[-1]} unbalanced about the centre column {c}"
                if what:
                    key = f"kernel-{tag}-" + what.split(" ")[0 if what[0].isalpha() else 1]
                    if key not in seen:
                        seen.add(key)
                        yield Violation(key, f"{tag}(N={n}, L={l}): {what}", {"op": tag, "n": n, "l": l, "observed": idx})
    # (1b) Magic generators: the requested ACS width is capped by the sampling budget round(N / R)
    for _ in range(ctx.budget(40, 300) * (3 if deep else 1)):
        name = rng.choice(["FastMRIMagic", "CartesianMagic"])
        mode = rng.choice(G.MODES)
        cols, acc = rng.choice(G.SIZES), rng.choice(G.ACCELERATIONS)
        target = G.py_round(cols / acc)
        cf = rng.randint(max(2, target), cols) if G.takes_count(name) else rng.choice([0.3, 0.4, 0.5, 0.7, 0.9])
        want = max(min(G.num_low_freqs(name, cols, cf), target), 1)
        spec = {"gen": name, "mode": mode, "shape": ([2] if mode != "static" else []) + [8, cols, 2], "acc": acc, "cf": cf,
                "seed": rng.randrange(1000), "return_acs": True}
        res = run(spec)
        capped = G.num_low_freqs(name, cols, cf) > target
        ctx.count(("magic-cap", json.dumps(spec, sort_keys=True)), capped, bucket="oracle/magic-cap/" + ("capped" if capped else "uncapped"))
        got = None
        if res.get("ok") and res.get("rows"):
            got = bin(res["rows"][0]).count("1")
        if got != want:
            key = f"acs-count-{name}"
            if key not in seen:
                seen.add(key)
                yield Violation(key, f"{name}: {got} ACS columns, requested {G.num_low_freqs(name, cols, cf)} capped by the budget "
                                f"round({cols}/{acc}) = {target} -> expected {want}",
                                {"op": "magic-cap", "spec": spec, "expected": want, "observed": got})
    # (1c) the repaired crop_corner defect on its minimal configuration (regression test on every run, not by chance)
    acs, mask = run(dict(VDP_CROP_WITNESS, return_acs=True)), run(VDP_CROP_WITNESS)
    ctx.count(("vdp-crop-witness",), True, bucket="oracle/VariableDensityPoisson/crop-corner-witness")
    for key, what in check_acs(VDP_CROP_WITNESS, acs, mask):
        if key not in seen:
            seen.add(key)
            yield Violation(key, what, {"op": "acs-pair", "spec": VDP_CROP_WITNESS, "acs_rows": acs.get("rows"), "mask_rows": mask.get("rows")})
    # (2) generators: ACS vs mask with the same arguments
    per_gen = ctx.budget(12, 300) * (3 if deep else 1)
    for name in G.GENERATORS:
        modes = G.modes_of(name)
        for k in range(per_gen):
            spec = G.sample_case(rng, name, mode=modes[k % len(modes)], multi=0.4, options=0.4)
            if spec is None:
                continue
            if G.risky(spec):         # the `_poisson` active-list overrun is C04/C07's finding, not an ACS matter
                spec["extra"]["max_attempts"] = 5
            if name in ("Radial", "Spiral") and rng.random() < 0.3:
                spec["cf"] = None         # largest-sampled-disc search, also with several accelerations
            edge = rng.random() < 0.35
            if edge:                      # falsy / boundary seeds, one-element and file-name tuples (fresh object per call)
                spec["seed"] = rng.choice([0, 0, 0, 1, 2 ** 32 - 1, [0], [0, 0], [2 ** 32 - 1], list(map(ord, "file_0001.h5"))])
            acs, mask = run(dict(spec, return_acs=True)), run(dict(spec, return_acs=False))
            both = bool(acs.get("ok") and mask.get("ok"))
            ctx.count(("acs", json.dumps(spec, sort_keys=True)), both and any(acs.get("rows") or []),
                      bucket=f"oracle/{name}/" + ("pair" if both else "raised" if not (acs.get("hang") or mask.get("hang")) else "hang")
                             + ("/edge-seed" if edge else "") + ("/multi" if isinstance(spec["acc"], list) else ""))
            found = list(check_acs(spec, acs, mask))
            if not acs.get("ok") and not acs.get("hang") and not acs.get("harness_exception"):
                # feasible pair, admissible seed: the autocalibration request has nothing to refuse
                found.append((f"acs-raises-{name}", f"{name} ({spec['mode']}, shape {spec['shape']}, seed {spec['seed']}): the ACS request raises "
                              f"{acs.get('err')}: {acs.get('msg')}"))
            for key, what in found:
                if key not in seen:
                    seen.add(key)
                    yield Violation(key, what, {"op": "acs-pair", "spec": spec,
                                                "acs_rows": (acs.get("rows") or [])[:4], "mask_rows": (mask.get("rows") or [])[:4]})
    # (3) persistent objects, several pairs, interleaved mask / ACS requests, edge seeds
    yield from history_oracle(ctx, seen, deep)
    # (4) the transform that hands both masks to the pipeline, explicit mask shapes included
    yield from site_oracle(ctx, seen, deep)
    # (5) every constructor / call argument in every form that can carry its value
    yield from forms_oracle(ctx, seen, deep)
    # (6) the geometric helpers on realistic large k-space sizes, whole grids, exact integers
    yield from large_oracle(ctx, seen, deep)
    yield from hang_violations(seen)


def replay(rep: dict) -> bool:
    from direct.common import subsample as S

    op = rep.get("op")
    if op == "hang":
        return bool(worker().run(rep["spec"], TIMEOUT).get("hang"))
    if op == "acs-pair":
        spec = rep["spec"]
        w = worker()
        acs, mask = w.run(dict(spec, return_acs=True), TIMEOUT), w.run(dict(spec, return_acs=False), TIMEOUT)
        return bool(list(check_acs(spec, acs, mask))) or bool(acs.get("hang") or mask.get("hang")) or not acs.get("ok")
    if op == "acs-history":
        spec = rep["spec"]
        for _ in range(3):               # seeds replaced by OS entropy make single runs probabilistic
            res = hist_worker(spec["gen"]).run(spec, 90.0)
            if res.get("hang") or res.get("died") or any(True for _k in check_history(spec, res)):
                return True
        return False
    if op == "large-disc":
        rows, cols, scale = rep["rows"], rep["cols"], rep["scale"]
        radius = G.disc_radius(rows, cols, scale)
        got = np.asarray(S.centered_disk_mask((rows, cols), scale)).astype(bool)
        return bool(got.shape != (rows, cols) or (got != (_d2(rows, cols) < radius * radius)).any())
    if op == "large-circus":
        rows, cols = rep["rows"], rep["cols"]
        res = worker().run({"op": "circus_disc", "rows": rows, "cols": cols, "mask": rep["mask"]}, 60.0)
        m = G.unpack_rows(rep["mask"], cols)
        d2 = _d2(rows, cols)
        for thr in circus_thresholds(rows, cols):
            inter = (d2 <= thr) & m
            if 10 * int((d2 <= thr).sum()) > 11 * int(inter.sum()):
                return not (res.get("ok") and res.get("rows") == G.pack_rows(inter, cols))
        return True
    if op == "acs-forms":
        spec = rep["spec"]
        res = hist_worker(BASES.get(spec["gen"], spec["gen"])).run(spec, 90.0)
        return bool(res.get("hang") or res.get("died") or any(True for _k in check_forms(spec, res)))
    if op == "acs-site":
        spec = rep["spec"]
        res = hist_worker(spec["gen"]).run(spec, 90.0)
        return bool(res.get("hang") or res.get("died") or any(True for _k in check_site(spec, res)))
    if op == "magic-cap":
        res = worker().run(rep["spec"], TIMEOUT)
        got = bin(res["rows"][0]).count("1") if res.get("ok") and res.get("rows") else None
        return got != rep["expected"]
    if op in ("center_mask_func", "zero_pad_to_center"):
        n, l = rep["n"], rep["l"]
        m = (S.CartesianVerticalMaskFunc.center_mask_func(n, l) if op == "center_mask_func"
             else S.KtBaseMaskFunc.zero_pad_to_center(np.ones((1, 1, l)), [1, 1, n])[0, 0])
        idx = np.flatnonzero(np.asarray(m)).tolist()
        c = n // 2
        return not (len(idx) == l and (not idx or (idx == list(range(idx[0], idx[0] + l)) and c in idx
                                                    and abs((c - idx[0]) - (idx[-1] - c)) <= 1)))
    return True
