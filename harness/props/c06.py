"""C06 — the autocalibration region is fully sampled, centred and of the requested size."""
from __future__ import annotations

import json

import boot  # noqa: F401
import numpy as np

from core import Ctx, Violation, ints, line
from props import maskgen_common as G
from props.c04 import (_guard, acs_lines, answer, circus_thresholds, frames_of, gen_lines, gid, hang_violations, mid,
                       pack_bits, run, worker, TIMEOUT)

PROP = "C06"
MANIFEST = {
    "text": "Lean 4 theorems for all widths/heights and parities: center_mask_func (pad = (N-L+1)//2) and the repaired "
            "zero_pad_to_center give exactly L contiguous columns containing the centre column N//2, balanced within one column "
            "(left/right counts explicit); Magic cap max(min(L, budget), 1) bounds; centered_disk_mask is a disc about the centre "
            "sample (rows//2, cols//2), point-symmetric about it wherever the mirror image is on the grid (always, when the "
            "radius does not reach row/column 0), contains the centre iff radius >= 1; the CIRCUS disc search returns disc ∩ mask; "
            "for each of the 14 generators, every mode/shape/interior: ACS ⊆ mask element-wise. Witnesses (decide) that the pinned "
            "(N-L)//2 start violates centring/balance. Tied to the code by translated kernels (pad, slice bounds, zero-pad "
            "start/stop, num_low_freqs glue, Magic cap, disc predicates; bridge lemmas) and differential correspondence "
            "(exhaustive small-scope kernels + real return_acs / mask calls with the same seed).",
    "note": "Trusted: Lean kernel (+propext, Classical.choice, Quot.sound), AST translator, recording RandomState. Float glue "
            "(round(N*cf) half-even, round(N/R), int(sqrt(rows*cols*cf/pi)), CIRCUS radii 1,1.1,…) is computed by the harness and "
            "enters the model as integers. For CIRCUS without centre fraction the ACS is disc ∩ mask (not a full disc) by design of "
            "the code; only the subset claim is made there. A centre fraction below pi/(rows*cols) gives radius 0 and an empty "
            "ACS (outside 'feasible').",
    "technique": "Lean 4 proof (omega, interval counting, list induction) + AST translation bridge + differential correspondence",
}
TRUSTED = [
    "Lean 4.33 kernel; axioms ⊆ {propext, Classical.choice, Quot.sound}",
    "harness/translate recipes c06/c04 (AST -> Lean kernels for subsample.py)",
    "recording np.random.RandomState subclass; watchdog worker subprocess",
    "numpy slice-assignment semantics as encoded by sliceMask / normIdx (validated by correspondence incl. negative bounds)",
]
ASSUMPTIONS = [
    "round(N*cf), round(N/R), int(sqrt(rows*cols*cf/pi)) and floor(radius²) of the CIRCUS radii are evaluated in Python by "
    "the harness and passed to the model as integers",
    "feasible centre fractions: 1 <= L < N/R (line), radius >= 1 and disc inside the budget (2-D)",
]
RULE = ("kernel cases: every (N, L) with N <= 40 (quick) / 80 (thorough) incl. L > N and negative L; discs for rows/cols 1..24 "
        "(quick) and sampled up to 80; generator cases: return_acs and mask with the same seed, every generator x mode; "
        "non-trivial = 1 <= L < N (kernels) / a returned ACS with at least one sample (generators); distinct = distinct protocol line")
PENDING_FINDINGS: list[str] = []
EXTRA_LEAN_MODULES = ['DirectVerif.Lemmas.C04List', 'DirectVerif.Lemmas.C06Assemble']


# --------------------------------------------------------------------------------------------------
def correspondence(ctx: Ctx):
    from direct.common import subsample as S

    rng = ctx.rng
    # ---- center_mask_func: exhaustive small scope (+ malformed L)
    top = 80 if ctx.thorough else 40
    for n in range(1, top + 1):
        ls = range(-2, n + 4) if (ctx.thorough or n <= 16) else sorted({0, 1, 2, 3, n // 4, n // 3, n // 2, n - 2, n - 1, n, n + 1,
                                                                          rng.randint(1, n), rng.randint(1, n)})
        for l in ls:
            def impl(n=n, l=l):
                return "ok " + ints(S.CartesianVerticalMaskFunc.center_mask_func(n, l).astype(int).tolist())
            yield {"line": line("center_mask", [n, l]), "impl": _guard(impl), "nontrivial": 1 <= l < n,
                   "bucket": "kernel/center_mask/" + ("malformed" if l < 0 or l > n else ("odd" if (n - l) % 2 else "even") + "-diff")}
    # ---- zero_pad_to_center on the all-ones block the Kt generators build
    for n in range(1, (40 if ctx.thorough else 24) + 1):
        for l in range(0, n + 3):
            if not ctx.thorough and n > 12 and l not in (0, 1, 2, 3, n // 2, n - 1, n, n + 1):
                continue
            nt, rows = rng.choice([1, 2, 3]), rng.choice([1, 2, 3])

            def impl(n=n, l=l, nt=nt, rows=rows):
                a = S.KtBaseMaskFunc.zero_pad_to_center(np.ones((nt, rows, l)), [nt, rows, n])
                assert a.shape == (nt, rows, n) and (a == a[:1, :1, :]).all()
                return "ok " + ints(a[0, 0].astype(int).tolist())
            yield {"line": line("zero_pad_row", [n, l]), "impl": _guard(impl), "nontrivial": 1 <= l < n,
                   "bucket": "kernel/zero_pad_row/" + ("too-wide" if l > n else ("odd" if (n - l) % 2 else "even") + "-diff")}
    # ---- zero_pad_to_center, general 1-D labelled data
    for _ in range(ctx.budget(40, 400)):
        k, t = rng.randint(0, 9), rng.randint(1, 12)
        data = list(range(1, k + 1))

        def impl(data=data, t=t):
            return "ok " + ints(S.KtBaseMaskFunc.zero_pad_to_center(np.array(data, dtype=np.int64), [t]).tolist())
        yield {"line": line("zero_pad_1d", [t], data), "impl": _guard(impl), "nontrivial": 0 < k < t, "bucket": "kernel/zero_pad_1d"}
    # ---- num_low_freqs glue of the Magic generators: cap and adjusted acceleration, read off the real ACS
    for _ in range(ctx.budget(60, 600)):
        cols = rng.choice(G.SIZES)
        acc = rng.choice(G.ACCELERATIONS)
        name = rng.choice(["FastMRIMagic", "CartesianMagic"])
        cf = rng.randint(2, cols) if G.takes_count(name) else rng.choice(G.FRACTIONS + [0.5, 0.9])
        l_raw, target = G.num_low_freqs(name, cols, cf), G.py_round(cols / acc)
        res = run({"gen": name, "mode": "static", "shape": [8, cols, 2], "acc": acc, "cf": cf, "seed": 3, "return_acs": True})
        full = run({"gen": name, "mode": "static", "shape": [8, cols, 2], "acc": acc, "cf": cf, "seed": 3, "return_acs": False})
        if not res.get("ok"):
            continue
        l_real = bin(res["rows"][0]).count("1")
        # adjusted acceleration observable as the `high` of the offset draw (0 -> the draw raises)
        highs = [d[2] for d in full.get("draws", [])[1:] if d[0] == "randint"]
        adj_real = int(highs[0]) if highs else 0
        if not full.get("ok") and full.get("err") != "ValueError":
            adj_real = -1
        a = "ok " + ints([l_real, adj_real])
        yield {"line": line("magic", [cols, l_raw, target]), "impl": (lambda a=a: a), "nontrivial": l_raw != l_real or adj_real > 0,
               "bucket": "kernel/magic_cap/" + ("capped" if l_real != l_raw else "uncapped") + ("/no-budget" if adj_real == 0 else "")}
    # ---- centered_disk_mask
    sizes = list(range(1, 25)) if not ctx.thorough else list(range(1, 41))
    for _ in range(ctx.budget(120, 1500)):
        rows, cols = rng.choice(sizes + G.SIZES), rng.choice(sizes + G.SIZES)
        scale = rng.choice(G.FRACTIONS + [0.01, 0.5, 0.8, 1.0])
        radius = G.disc_radius(rows, cols, scale)

        def impl(rows=rows, cols=cols, scale=scale):
            m = S.centered_disk_mask((rows, cols), scale)
            assert m.shape == (rows, cols)
            return "ok " + ints(G.pack_rows(m, cols))
        yield {"line": line("disc", [rows, cols, radius]), "impl": _guard(impl), "nontrivial": radius >= 1,
               "bucket": "kernel/disc/" + ("o" if rows % 2 else "e") + ("o" if cols % 2 else "e") + ("/r0" if radius == 0 else "")}
    # ---- CIRCUS largest-sampled-disc search (watchdogged: it spins on a fully sampled grid)
    for _ in range(ctx.budget(40, 400)):
        rows, cols = rng.choice(G.SIZES[:14]), rng.choice(G.SIZES[:14])
        dens = rng.choice([0.2, 0.4, 0.6, 0.8])
        m = np.array([[rng.random() < dens for _ in range(cols)] for _ in range(rows)])
        # fully sampled core of random radius, as real CIRCUS masks have
        rad = rng.choice([0, 1, 2, 3, 4])
        xx, yy = np.ogrid[:rows, :cols]
        m |= (xx - rows // 2) ** 2 + (yy - cols // 2) ** 2 <= rad ** 2
        # the search only returns when more than 1/11 of some disc is unsampled (theorem circus_disc_none_iff); on
        # (nearly) fully sampled grids the real loop spins, which no generator reaches for accelerations >= 1.2:
        # keep the grid at most 85 % sampled by clearing border cells
        border = [(x, y) for x in range(rows) for y in range(cols) if (x - rows // 2) ** 2 + (y - cols // 2) ** 2 > rad ** 2]
        rng.shuffle(border)
        while 100 * int(m.sum()) > 85 * m.size and border:
            x, y = border.pop()
            m[x, y] = False
        if 100 * int(m.sum()) > 85 * m.size:
            continue
        packed = G.pack_rows(m, cols)
        res = run({"op": "circus_disc", "rows": rows, "cols": cols, "mask": packed})
        a = ("ok " + ints(res["rows"])) if res.get("ok") else answer(res)
        yield {"line": line("circus", [rows, cols], circus_thresholds(rows, cols), packed), "impl": (lambda a=a: a),
               "nontrivial": res.get("ok", False) and any(res.get("rows") or []), "bucket": f"kernel/circus_disc/core{rad}"}
    # ---- generators: return_acs and the mask with the same seed
    from props.c04 import generator_cases

    yield from generator_cases(ctx, ctx.budget(6, 150), acs=True)


# --------------------------------------------------------------------------------------------------
def check_acs(spec: dict, acs: dict, mask: dict):
    """C06 stated on one real (ACS, mask) pair produced with the same arguments; yields (key, what)"""
    name, mode, shape = spec["gen"], spec["mode"], spec["shape"]
    if not (acs.get("ok") and mask.get("ok")):
        return
    acc, cf = G.chosen(spec, mask)     # the pair the seeded stream selects for the sampling mask
    rows, cols = shape[-3], shape[-2]
    F = frames_of(mode, shape)
    A, M = acs["rows"], mask["rows"]
    if acs["shape"] != mask["shape"] or A is None or M is None or len(A) != F * rows or len(M) != F * rows:
        yield f"acs-shape-{name}", f"{name}: ACS shape {acs['shape']} differs from mask shape {mask['shape']}"
        return
    if any(a & ~m for a, m in zip(A, M)):
        yield f"acs-not-subset-{name}", f"{name} ({mode}): the ACS mask is not a subset of the sampling mask (same seed)"
    fam = G.FAMILY[name]
    if fam in ("line", "ktline"):
        want = acs_lines(name, cols, acc, cf)
        c = cols // 2
        for f in range(F):
            fr = A[f * rows:(f + 1) * rows]
            if any(r != fr[0] for r in fr):
                yield f"acs-rows-differ-{name}", f"{name}: rows of the ACS differ in frame {f}"
                break
            bits = [(fr[0] >> j) & 1 for j in range(cols)]
            idx = [j for j, b in enumerate(bits) if b]
            if len(idx) != want:
                yield f"acs-count-{name}", f"{name}: {len(idx)} ACS columns, requested {want} (N={cols})"
            elif idx and idx != list(range(idx[0], idx[0] + len(idx))):
                yield f"acs-not-contiguous-{name}", f"{name}: ACS columns {idx} are not contiguous"
            elif idx and c not in idx:
                yield f"acs-misses-centre-{name}", f"{name}: ACS columns {idx[0]}..{idx[-1]} do not contain the centre column {c} (N={cols})"
            elif idx and abs((c - idx[0]) - (idx[-1] - c)) > 1:
                yield f"acs-unbalanced-{name}", (f"{name}: ACS columns {idx[0]}..{idx[-1]} unbalanced about the centre column {c} "
                                                 f"(N={cols}, L={want})")
    elif cf:
        radius = G.disc_radius(rows, cols, cf)
        cx, cy = rows // 2, cols // 2
        for f in range(F):
            fr = A[f * rows:(f + 1) * rows]
            grid = [[(fr[x] >> y) & 1 for y in range(cols)] for x in range(rows)]
            exp = [[int((x - cx) ** 2 + (y - cy) ** 2 < radius ** 2) for y in range(cols)] for x in range(rows)]
            if grid != exp:
                yield f"acs-not-disc-{name}", f"{name}: ACS is not the disc of radius {radius} about the centre sample ({cx},{cy})"
                break
            if radius >= 1 and not grid[cx][cy]:
                yield f"acs-misses-centre-{name}", f"{name}: the disc does not contain the centre sample"
            bad = [(x, y) for x in range(rows) for y in range(cols) if grid[x][y]
                   and 0 <= 2 * cx - x < rows and 0 <= 2 * cy - y < cols and not grid[2 * cx - x][2 * cy - y]]
            if bad:
                yield f"acs-not-symmetric-{name}", f"{name}: disc not point-symmetric about ({cx},{cy}): {bad[:3]}"


def oracle(ctx: Ctx, deep: bool = False):
    """The property stated directly on the implementation (independent of the model)."""
    from direct.common import subsample as S

    rng = ctx.rng
    seen = set()
    # (1) centre block kernels, exhaustive small scope
    top = 80 if (deep or ctx.thorough) else 48
    for n in range(1, top + 1):
        for l in range(0, n + 1):
            ctx.count(("cm", n, l), 1 <= l < n, bucket="oracle/center_mask")
            for tag, fn in (("center_mask_func", lambda: S.CartesianVerticalMaskFunc.center_mask_func(n, l)),
                            ("zero_pad_to_center", lambda: S.KtBaseMaskFunc.zero_pad_to_center(np.ones((1, 1, l)), [1, 1, n])[0, 0])):
                m = np.asarray(fn()).astype(bool)
                idx = np.flatnonzero(m).tolist()
                c = n // 2
                what = None
                if m.shape != (n,) or len(idx) != l:
                    what = f"{len(idx)} columns instead of {l}"
                elif idx and idx != list(range(idx[0], idx[0] + l)):
                    what = "not contiguous"
                elif idx and c not in idx:
                    what = f"columns {idx[0]}..{idx[-1]} miss the centre column {c}"
                elif idx and abs((c - idx[0]) - (idx[-1] - c)) > 1:
                    what = f"columns {idx[0]}..{idx[-1]} unbalanced about the centre column {c}"
                if what:
                    key = f"kernel-{tag}-" + what.split(" ")[0 if what[0].isalpha() else 1]
                    if key not in seen:
                        seen.add(key)
                        yield Violation(key, f"{tag}(N={n}, L={l}): {what}", {"op": tag, "n": n, "l": l, "observed": idx})
    # (1b) Magic generators: the requested ACS width is capped by the sampling budget round(N / R)
    for _ in range(ctx.budget(40, 300) * (3 if deep else 1)):
        name = rng.choice(["FastMRIMagic", "CartesianMagic"])
        mode = rng.choice(G.MODES)
        cols, acc = rng.choice(G.SIZES), rng.choice(G.ACCELERATIONS)
        target = G.py_round(cols / acc)
        cf = rng.randint(max(2, target), cols) if G.takes_count(name) else rng.choice([0.3, 0.4, 0.5, 0.7, 0.9])
        want = max(min(G.num_low_freqs(name, cols, cf), target), 1)
        spec = {"gen": name, "mode": mode, "shape": ([2] if mode != "static" else []) + [8, cols, 2], "acc": acc, "cf": cf,
                "seed": rng.randrange(1000), "return_acs": True}
        res = run(spec)
        capped = G.num_low_freqs(name, cols, cf) > target
        ctx.count(("magic-cap", json.dumps(spec, sort_keys=True)), capped, bucket="oracle/magic-cap/" + ("capped" if capped else "uncapped"))
        got = None
        if res.get("ok") and res.get("rows"):
            got = bin(res["rows"][0]).count("1")
        if got != want:
            key = f"acs-count-{name}"
            if key not in seen:
                seen.add(key)
                yield Violation(key, f"{name}: {got} ACS columns, requested {G.num_low_freqs(name, cols, cf)} capped by the budget "
                                f"round({cols}/{acc}) = {target} -> expected {want}",
                                {"op": "magic-cap", "spec": spec, "expected": want, "observed": got})
    # (2) generators: ACS vs mask with the same arguments
    per_gen = ctx.budget(12, 300) * (3 if deep else 1)
    for name in G.GENERATORS:
        modes = G.modes_of(name)
        for k in range(per_gen):
            spec = G.sample_case(rng, name, mode=modes[k % len(modes)], multi=0.4, options=0.4)
            if spec is None:
                continue
            if G.risky(spec):         # the `_poisson` active-list overrun is C04/C07's finding, not an ACS matter
                spec["extra"]["max_attempts"] = 5
            if name in ("Radial", "Spiral") and rng.random() < 0.3 and not isinstance(spec["acc"], list):
                spec["cf"] = None
            acs, mask = run(dict(spec, return_acs=True)), run(dict(spec, return_acs=False))
            both = bool(acs.get("ok") and mask.get("ok"))
            ctx.count(("acs", json.dumps(spec, sort_keys=True)), both and any(acs.get("rows") or []),
                      bucket=f"oracle/{name}/" + ("pair" if both else "raised" if not (acs.get("hang") or mask.get("hang")) else "hang"))
            for key, what in check_acs(spec, acs, mask):
                if key not in seen:
                    seen.add(key)
                    yield Violation(key, what, {"op": "acs-pair", "spec": spec,
                                                "acs_rows": (acs.get("rows") or [])[:4], "mask_rows": (mask.get("rows") or [])[:4]})
    yield from hang_violations(seen)


def replay(rep: dict) -> bool:
    from direct.common import subsample as S

    op = rep.get("op")
    if op == "hang":
        return bool(worker().run(rep["spec"], TIMEOUT).get("hang"))
    if op == "acs-pair":
        spec = rep["spec"]
        w = worker()
        acs, mask = w.run(dict(spec, return_acs=True), TIMEOUT), w.run(dict(spec, return_acs=False), TIMEOUT)
        return bool(list(check_acs(spec, acs, mask))) or bool(acs.get("hang") or mask.get("hang"))
    if op == "magic-cap":
        res = worker().run(rep["spec"], TIMEOUT)
        got = bin(res["rows"][0]).count("1") if res.get("ok") and res.get("rows") else None
        return got != rep["expected"]
    if op in ("center_mask_func", "zero_pad_to_center"):
        n, l = rep["n"], rep["l"]
        m = (S.CartesianVerticalMaskFunc.center_mask_func(n, l) if op == "center_mask_func"
             else S.KtBaseMaskFunc.zero_pad_to_center(np.ones((1, 1, l)), [1, 1, n])[0, 0])
        idx = np.flatnonzero(np.asarray(m)).tolist()
        c = n // 2
        return not (len(idx) == l and (not idx or (idx == list(range(idx[0], idx[0] + l)) and c in idx
                                                    and abs((c - idx[0]) - (idx[-1] - c)) <= 1)))
    return True
