"""C15 — the real engine / Checkpointer around the checkpoint core: validation data and training-mode flags,
`resume` / `initialization` / `start_with_validation`, RuntimeError exit path, bookkeeping events, Checkpointer API forms
(load argument forms, DataParallel wrappers, strict model loading, save(**kwargs), save_to_disk), scheduler + optimiser state,
the trainer's milestones.  Helpers for harness/props/c15.py (reuses the toy trainer of props/c16.py)."""
from __future__ import annotations

import ast
import contextlib
import logging
import os
import pathlib
import signal
import types
from fractions import Fraction as Fr

import boot  # noqa: F401
import torch

from core import err_name, ints
from props import c16 as toy

logging.disable(logging.CRITICAL)


# ==================================================================================================
# the real engine with validation data, a mode-dependent additional model, and recorded bookkeeping events
class ModeAux(torch.nn.Module):
    """an additional model whose forward depends on its training-mode flag, deterministically:
    `2·(x·v)` in training mode, `x·v` in eval mode (stands for dropout / batch norm; keeps the arithmetic exact)"""

    def __init__(self, d):
        super().__init__()
        self.v = torch.nn.Parameter(torch.zeros(d, dtype=torch.float64))

    def forward(self, x):
        return (x @ self.v) * (2.0 if self.training else 1.0)


class ValDS(toy._ToyDS):
    """validation data: one volume of two slices (one batch per validation pass)"""

    def __init__(self, X, y):
        super().__init__(X[:2], y[:2])
        self.text_description = "val"
        self.volume_indices = {pathlib.Path("f"): range(len(self.X))}


@contextlib.contextmanager
def cheap_gc():
    """`reconstruct_volumes` calls gc.collect() for every validation batch (tens of ms each with torch loaded): a no-op here"""
    import direct.nn.mri_models as MM

    real = MM.gc
    MM.gc = types.SimpleNamespace(collect=lambda *a: 0)
    try:
        yield
    finally:
        MM.gc = real


_ENGINE_X = None


def engine_x():
    global _ENGINE_X
    if _ENGINE_X is not None:
        return _ENGINE_X
    from direct.nn.mri_models import MRIModelEngine

    class EngineX(toy._engine_class()):
        error_at = None
        cur_it = None
        events = None

        def _do_iteration(self, data, loss_fns=None, regularizer_fns=None):
            if not self.model.training:      # a validation pass: not an iteration of the training loop
                return MRIModelEngine._do_iteration(self, data, loss_fns, regularizer_fns)
            self.cur_it = self.it_counter
            if self.error_at == self.it_counter:
                self.kill_delivered = True
                raise RuntimeError("simulated failure inside _do_iteration (not an out-of-memory error)")
            return super()._do_iteration(data, loss_fns, regularizer_fns)

        def validation_loop(self, validation_datasets, loss_fns, experiment_directory, iter_idx, **kw):
            self.events.append([1, int(iter_idx)])
            return super().validation_loop(validation_datasets, loss_fns, experiment_directory, iter_idx, **kw)

        in_first_example = False

        def log_first_training_example_and_model(self, data):
            # iteration 0 only: writes the first batch to the logs — not a bookkeeping event of the model
            self.in_first_example = True
            try:
                return super().log_first_training_example_and_model(data)
            finally:
                self.in_first_example = False

        die_at = None        # (j, p): a SIGINT at statement boundary p of iteration j, outside `_do_iteration`

        def deliver(self, p):
            """called at statement boundary `p`: deliver the real SIGINT when this is the chosen point"""
            if self.die_at is not None and self.die_at == (self.cur_it, p) and not self.kill_delivered:
                self.kill_delivered = True
                os.kill(os.getpid(), signal.SIGINT)      # the engine's handler raises ProcessKilledException right here

        def write_to_logs(self):
            if not self.in_first_example:
                self.events.append([3, int(self.cur_it if self.cur_it is not None else -1)])
                self.deliver(7)
            return super().write_to_logs()

    _ENGINE_X = EngineX
    return EngineX


@contextlib.contextmanager
def record_saves(events, eng=None):
    """completed `Checkpointer.save(label)` calls are appended to `events` (outermost wrapper: a save that dies inside is
    not recorded)"""
    import direct.checkpointer as CK

    inner = CK.Checkpointer.save

    def save(self, iteration, **kw):
        if eng is not None and eng.cur_it == iteration:
            eng.deliver(6)          # at the entry of the periodic save of this iteration
        r = inner(self, iteration, **kw)
        if self.save_to_disk:
            events.append([2, int(iteration)])
        return r

    CK.Checkpointer.save = save
    try:
        yield
    finally:
        CK.Checkpointer.save = inner


def make_init_file(path, c, theta):
    """an initialization checkpoint as another run would have left it: model + additional model weights `theta`, an
    optimiser with momentum buffers and a learning rate of its own, a scheduler at last_epoch 7, a scaler state"""
    from direct.checkpointer import Checkpointer

    d = c["d"]
    model = toy._ToyModel([float(Fr(v)) for v in theta[:d]])
    aux = ModeAux(d)
    with torch.no_grad():
        aux.v.copy_(torch.tensor([float(Fr(v)) for v in theta[d:]], dtype=torch.float64))
    o = torch.optim.SGD([{"params": model.parameters()}, {"params": aux.parameters()}], lr=0.03125, momentum=0.5)
    (model(torch.ones(1, d, dtype=torch.float64)).sum() + aux(torch.ones(1, d, dtype=torch.float64)).sum()).backward()
    o.step()
    s = toy.make_scheduler(o, dict(c["sched"], milestones=[1], warmup_iters=0))
    for _ in range(7):
        s.step()
    with torch.no_grad():     # the weights the file is meant to carry (the optimiser step above moved them)
        model.w.copy_(torch.tensor([float(Fr(v)) for v in theta[:d]], dtype=torch.float64))
        aux.v.copy_(torch.tensor([float(Fr(v)) for v in theta[d:]], dtype=torch.float64))
    sc = toy.counting_scaler()
    sc.n_updates = 3
    p = pathlib.Path(path)
    p.mkdir(parents=True, exist_ok=True)
    Checkpointer(p, model=model, aux_model=aux, optimizer=o, lr_scheduler=s, scaler=sc).save(0)
    return p / "model_0.pt"


SCALER_INITIAL = {"scale": 1024.0, "growth_factor": 2.0, "backoff_factor": 0.5, "growth_interval": 3, "_growth_tracker": 1}


@contextlib.contextmanager
def amp_available():
    """a "cuda" GradScaler switches itself off when CUDA is missing; make the probe answer "available" (the scaler
    arithmetic itself works on CPU tensors), so that the engine's OWN scaler carries state with mixed_precision=True"""
    import torch.cuda.amp.common as common

    real = common.amp_definitely_not_available
    common.amp_definitely_not_available = lambda: False
    try:
        yield
    finally:
        common.amp_definitely_not_available = real


def scaler_updates(state) -> int:
    """number of `update()` calls that lead from SCALER_INITIAL to `state` (no overflow in the toy: the scale only grows)"""
    if not state:
        return -1
    import math

    g = SCALER_INITIAL["growth_interval"]
    doublings = int(round(math.log2(float(state["scale"]) / SCALER_INITIAL["scale"])))
    return g * doublings + int(state["_growth_tracker"]) - SCALER_INITIAL["_growth_tracker"]


def run_vprocess(expdir, c, *, stop=(0, 0, 0), resume=True, init_path=None, swv=False, val_steps=10 ** 6, has_val=True,
                 main_process=True, aux0=None, real_scaler=False):
    """One process of the REAL `Engine.train` with a mode-dependent additional model and (optionally) validation data.
    `stop` = (kind, j, p): 0 finish, 1 vanish after j, 2 SIGINT in j (p: 0 before / 1 after backward), 3 crash at point p of
    the periodic save of j, 4 RuntimeError inside `_do_iteration` of j, 5 SIGINT at statement boundary p of iteration j OUTSIDE
    `_do_iteration`: 2 / 3 before / after the optimiser update (step hooks), 4 / 5 before / after `lr_scheduler.step()`, 6 at
    the entry of the periodic `checkpointer.save(j)`, 7 inside `write_to_logs`."""
    kind, j, p = stop
    total = c["T"]
    model = toy._ToyModel(c["w0"])
    aux = ModeAux(c["d"])
    if aux0 is not None:
        with torch.no_grad():
            aux.v.copy_(torch.tensor([float(Fr(v)) for v in aux0], dtype=torch.float64))
    opt = c.get("opt", ("sgd", Fr(0)))
    groups = [{"params": model.parameters()}, {"params": aux.parameters()}]
    if opt[0] == "sgd":
        o = torch.optim.SGD(groups, lr=float(c["base_lr"]), momentum=float(opt[1]))
    else:
        o = torch.optim.Adam(groups, lr=float(c["base_lr"]))
    s = toy.make_scheduler(o, c["sched"])
    cfg = toy._make_cfg(total, c["k"], c["ck"], c["bs"], c.get("clip", 0))
    cfg.training.validation_steps = val_steps
    cfg.validation.batch_size = 2
    cfg.validation.crop = None
    with amp_available() if real_scaler else contextlib.nullcontext():
        eng = engine_x()(cfg, model, "cpu", mixed_precision=bool(real_scaler), aux_model=aux)
    eng.events = []
    eng.kill_at = j if kind == 2 else None
    eng.kill_where = "pre" if p == 0 else "post"
    eng.vanish_at = j + 1 if kind == 1 else None
    eng.error_at = j if kind == 4 else None
    eng.die_at = (j, p) if kind == 5 else None
    if kind == 5:
        o.register_step_pre_hook(lambda *a, **k: eng.deliver(2))
        o.register_step_post_hook(lambda *a, **k: eng.deliver(3))
    if real_scaler:
        # the scaler the engine built itself (mixed precision): a non-default start state with a short growth interval
        if eng._scaler.is_enabled():
            eng._scaler.load_state_dict(dict(SCALER_INITIAL))
    else:
        eng._scaler = toy.counting_scaler()
    records = []

    def params():
        return model.w.detach().clone().tolist() + aux.v.detach().clone().tolist()

    class Recording(type(s)):
        def step(self, *a, **kw):
            eng.deliver(4)
            r = super().step(*a, **kw)
            records.append((params(), o.param_groups[0]["lr"], aux.training, model.training))
            eng.deliver(5)
            return r

    s.__class__ = Recording
    code = None
    cm = toy.crash_in_save(j, p) if kind == 3 else contextlib.nullcontext()
    import direct.utils.communication as comm
    real_main = comm.is_main_process
    if not main_process:
        comm.is_main_process = lambda: False
    try:
        with record_saves(eng.events, eng), cm, cheap_gc():
            eng.train(o, s, [toy._ToyDS(c["X"], c["y"])], pathlib.Path(expdir),
                      validation_datasets=[ValDS(c["X"], c["y"])] if has_val else None,
                      resume=resume, initialization=init_path, start_with_validation=swv, num_workers=0)
    except SystemExit as e:
        code = e.code
    except toy.Vanish:
        code = "vanished"
    except BaseException as e:  # noqa: BLE001 - ProcessKilledException is a BaseException
        if not eng.kill_delivered or isinstance(e, (KeyboardInterrupt, GeneratorExit)):
            raise
        code = "died:" + err_name(e)
    finally:
        comm.is_main_process = real_main
        signal.signal(signal.SIGINT, signal.default_int_handler)
    lm = pathlib.Path(expdir) / "last_model.txt"
    latest = int(lm.read_text()) if lm.exists() else -1
    return {"start": eng.started_at, "records": records, "code": code, "last_epoch": s.last_epoch, "w": params(),
            "latest": latest, "opt_state": o.state_dict()["state"],
            "scaler": scaler_updates(eng._scaler.state_dict()) if real_scaler else eng._scaler.n_updates,
            "scaler_state": {k: float(v) for k, v in eng._scaler.state_dict().items()} if real_scaler else None,
            "flag": bool(aux.training), "events": eng.events, "opt_lr": o.param_groups[0]["lr"]}


def die_point(rng, c, j, val_steps, want=None):
    """a statement boundary of iteration j that the loop reaches (step hooks only in a stepping iteration, the save entry only
    when iteration j is checkpointed, write_to_logs only when it is logged)"""
    T, ck, k = c["T"], c["ck"], c["k"]
    ok = [4, 5]
    if (j + 1) % k == 0:
        ok += [2, 3, 3]
    if j >= 5 and (j % ck == 0 or j + 1 == T):
        ok.append(6)
    if j >= 5 and (j % 20 == 0 or j % val_steps == 0 or j + 1 == T):
        ok.append(7)
    return want if want in ok else rng.choice(ok)


def gen_vhistory(rng, k=1, restart=None):
    """config, processes [(kind, j, p, resume, init, swv)], (val_steps, has_val), init θ;
    `restart` = 0 / 1: force a process with resume=False (initialization = restart) over a directory holding checkpoints"""
    c = toy.gen_cfg(rng, k=k, T=rng.randint(8, 16), bs=rng.randint(1, 3))
    c["ck"] = rng.randint(1, 4)
    val_steps = rng.choice([2, 3, 4, 5, 7])
    has_val = rng.random() < 0.85
    procs = []
    for _ in range(rng.choice([1, 2, 2, 3])):
        kind = rng.choice([1, 2, 2, 3, 4, 5, 5])
        j = rng.randint(0, c["T"] - 1) if rng.random() < 0.2 else rng.randint(5, c["T"] - 1)
        if k > 1 and kind in (2, 4):       # interruptions at window starts are the aligned ones
            j = max(5, j - j % k + (k if j % k else 0)) if j - j % k + k < c["T"] else j
        p = rng.randint(0, 1) if kind == 2 else rng.randint(0, 5) if kind == 3 else 0
        if kind == 5:
            p = die_point(rng, c, j, val_steps)
        procs.append([kind, j, p, 1, int(rng.random() < 0.3), int(rng.random() < 0.35)])
    if rng.random() < 0.3:
        procs[0][3] = 0                     # the first process with resume=False (nothing to resume from anyway)
    tail = rng.random()
    if restart is not None:
        procs[0][0:2] = [1, rng.randint(6, c["T"] - 1)]      # leaves checkpoints behind
        procs.append([1, rng.randint(5, c["T"] - 1), 0, 0, restart, 0])
    elif tail < 0.25:                       # a process that resumes a finished run
        procs.append([0, 0, 0, 1, int(rng.random() < 0.5), int(rng.random() < 0.5)])
    elif tail < 0.4:                        # restart from scratch over an existing directory
        procs.append([1, rng.randint(5, c["T"] - 1), 0, 0, int(rng.random() < 0.5), 0])
    procs.append([0, 0, 0, 1, int(rng.random() < 0.3), int(rng.random() < 0.3)])
    theta = [rng.choice([Fr(1, 2), Fr(-1, 2), Fr(1), Fr(-1), Fr(1, 4)]) for _ in range(2 * c["d"])]
    return c, procs, (val_steps, has_val), theta


_API_PROBES = None


def api_probes() -> dict[str, bool]:
    """behavioural facts about the Checkpointer, probed on the REAL class (robust against any rewrite of the bodies):
    does the constructor strip DataParallel from `model` / from `*model` keys, does `save` do nothing with save_to_disk=False,
    does `_load_model` raise on missing keys, does `load_models_from_file` leave non-model objects alone.
    A probe that cannot be run is left out (the translator then keeps the model's value and reports `skipped`)."""
    global _API_PROBES
    if _API_PROBES is not None:
        return _API_PROBES
    from direct.checkpointer import Checkpointer

    from props.c15 import make_obj, read_id

    out: dict[str, bool] = {}

    def probe(name, thunk):
        try:
            out[name] = bool(thunk())
        except Exception:  # noqa: BLE001
            pass

    with toy.scratch_dir() as d:
        dp = pathlib.Path(d)

        def unwrap():
            ck = Checkpointer(dp / "u", model=_wrap(PMod([(0, 1)]), 1), sensitivity_model=_wrap(PMod([(0, 1)]), 1), optimizer=make_obj(3, 1))
            return not hasattr(ck.model, "module"), not hasattr(ck.checkpointables["sensitivity_model"], "module")
        probe("ctorUnwrapsMain", lambda: unwrap()[0])
        probe("ctorUnwrapsRegexKeys", lambda: unwrap()[1])

        def guarded():
            (dp / "g").mkdir()
            Checkpointer(dp / "g", save_to_disk=False, model=PMod([(0, 1)])).save(1)
            return not os.listdir(dp / "g")
        probe("saveGuarded", guarded)

        def missing():
            ck = Checkpointer(dp / "m", model=PMod([(0, 1)]))
            try:
                ck._load_model(PMod([(0, 1), (1, 1)]), PMod([(0, 5)]).state_dict())
            except NotImplementedError:
                return True
            return False
        probe("missingKeysRaise", missing)

        def only_models():
            (dp / "o").mkdir()
            Checkpointer(dp / "o", model=PMod([(0, 5)]), optimizer=make_obj(3, 4)).save(1)
            o = make_obj(3, 2)
            Checkpointer(dp / "o", model=PMod([(0, 1)]), optimizer=o).load_models_from_file(dp / "o" / "model_1.pt")
            return read_id(3, o) == 2
        probe("modelsFromFileOnlyModels", only_models)
    _API_PROBES = out
    return out


_TRAIN_OBJECTS = None


def train_objects() -> list[tuple[str, str]]:
    """what the REAL `Engine.train` hands to its Checkpointer, with and without mixed precision, and what becomes of each
    object in `Checkpointer.save`: 'state' (a HasStateDict: serialised), 'meta' (`__x__`: stored as is) or 'dropped' (fails the
    isinstance filter: silently left out of every checkpoint).  By introspection of a real engine whose training loop is
    replaced by a no-op."""
    from typing import get_args

    from direct.types import HasStateDict

    global _TRAIN_OBJECTS
    if _TRAIN_OBJECTS is not None:
        return _TRAIN_OBJECTS
    rows: dict[str, str] = {}
    for mixed in (False, True):
        c = toy.gen_cfg(__import__("random").Random(1), k=1, T=6, bs=1)
        model, aux = toy._ToyModel(c["w0"]), ModeAux(c["d"])
        o = torch.optim.SGD([{"params": model.parameters()}, {"params": aux.parameters()}], lr=0.5)
        s = toy.make_scheduler(o, c["sched"])
        with amp_available():
            eng = engine_x()(toy._make_cfg(6, 1, 2, 1, 0), model, "cpu", mixed_precision=mixed, aux_model=aux)
        eng.events = []
        eng.training_loop = lambda *a, **k: None
        with toy.scratch_dir() as d:
            try:
                eng.train(o, s, [toy._ToyDS(c["X"], c["y"])], pathlib.Path(d), num_workers=0)
            finally:
                signal.signal(signal.SIGINT, signal.default_int_handler)
        ck = eng.checkpointer
        for key, obj in {"model": ck.model, **ck.checkpointables}.items():
            kind = "meta" if key.startswith("__") and key.endswith("__") else \
                "state" if isinstance(obj, get_args(HasStateDict)) else "dropped"
            if rows.get(key) != "dropped":
                rows[key] = kind
    _TRAIN_OBJECTS = sorted(rows.items())
    return _TRAIN_OBJECTS


def run_vhistory(c, procs, val, theta, real_scaler=False):
    out = []
    val_steps, has_val = val
    with toy.scratch_dir() as d:
        init = make_init_file(os.path.join(d, "init"), c, theta)
        exp = os.path.join(d, "exp")
        os.mkdir(exp)
        for kind, j, p, res, ini, swv in procs:
            try:
                out.append(run_vprocess(exp, c, stop=(kind, j, p), resume=bool(res), init_path=init if ini else None,
                                        swv=bool(swv), val_steps=val_steps, has_val=has_val, real_scaler=real_scaler))
            except Exception as e:  # noqa: BLE001 - a process that cannot start
                out.append({"failed": err_name(e), "detail": repr(e)[:300]})
                break
    return out


def fmt_vhistory(procs_out) -> str:
    gs = []
    for r in procs_out:
        if "failed" in r:
            return "err LoadFailed"
        gs += [[r["start"], len(r["records"]), r["latest"], r["last_epoch"], r["scaler"]],
               [int(r["flag"])] + toy.fr_pairs(r["w"]), [v for e in r["events"] for v in e]]
    return "ok " + " | ".join(ints(g) for g in gs)


def vtrain_line(c, procs, val, theta, chain, table) -> str:
    groups = toy.toy_groups(c, [c["ck"], 0]) + [[v for p in procs for v in p], [val[0], int(val[1]), TAIL_CODE()],
                                                toy.fr_pairs(theta), chain, table]
    return toy.proto("vtrain", groups)


# ==================================================================================================
# facts read by the translator, in protocol form (empty / default = not understood: the model's own)
_FACTS = None


def facts():
    global _FACTS
    if _FACTS is None:
        from translate.recipes.c15 import engine_facts

        _FACTS = engine_facts()
    return _FACTS


def TAIL_CODE() -> int:
    return {".allModels": 0, ".mainOnly": 1, ".nothing": 2}.get(facts()["valTail"], 0)


def chain_codes() -> list[int]:
    from translate.gen import REPO as TREPO
    from translate.pyexpr import Untranslatable, find_function, parse_file
    from translate.recipes.c15 import E, init_chain

    try:
        rows = init_chain(find_function(parse_file(TREPO / E), "Engine.train"))
    except Untranslatable:
        rows = [(".resumedAndInit", False, []), (".init", True, [".loadModels", ".swvTrue"])]
    out = []
    for cond, chained, acts in rows:
        out += [0 if cond == ".resumedAndInit" else 1, int(chained), len(acts)] + \
               [{".loadModels": 0, ".swvTrue": 1}.get(a, 2) for a in acts]
    return out


def alias_codes() -> list[int]:
    v = facts()["latestAliases"]
    if v.startswith("!"):
        return [1000000, -1]
    out = []
    for tok in v.strip("[]").split(","):
        tok = tok.strip()
        if tok == "none":
            out.append(1000000)
        elif tok:
            out.append(int(tok[len("some ("):-1]))
    return out


def ctor_flags() -> tuple[int, int]:
    v = facts()["apiFacts"]
    if v.startswith("!"):
        return 1, 1
    return int("ctorUnwrapsMain := true" in v), int("ctorUnwrapsRegexKeys := true" in v)


# ==================================================================================================
# Checkpointer API around one file
class PMod(torch.nn.Module):
    """a module with named scalar parameters p<name>"""

    def __init__(self, params):
        super().__init__()
        for n, v in params:
            self.register_parameter(f"p{n}", torch.nn.Parameter(torch.tensor(float(v))))

    def values(self, names):
        return [int(round(float(getattr(self, f"p{n}").detach()))) for n in names]


OTHER = {3: "optimizer", 4: "lr_scheduler", 5: "scaler", 6: "__author__", 7: "plain", 8: "__datetime__", 9: "custom",
         10: "iteration"}


def _wrap(m, dp):
    return torch.nn.DataParallel(m) if dp else m


def real_ckapi(hdr, sm, sa, so, kw, lm, la, lo) -> str:
    """REAL Checkpointer: saver.save(label, **kwargs) into an empty directory, then the loader's request"""
    from direct.checkpointer import Checkpointer

    from props.c15 import make_obj, read_id

    std, _, _, label, rk, rn = hdr

    def build(main, aux, others):
        objs = {"model": _wrap(PMod(main[1]), main[0])}
        raw = {"model": objs["model"]}
        if aux is not None:
            raw["sensitivity_model"] = objs["sensitivity_model"] = _wrap(PMod(aux[1]), aux[0])
        for k, v in others:
            objs[OTHER[k]] = make_obj(k, v)
        return objs, raw

    with toy.scratch_dir() as d:
        sobjs, _ = build(sm, sa, so)
        kwargs = {}
        for k, v in kw:
            kwargs[OTHER[k]] = make_obj(k, v).state_dict() if k in (3, 4, 5) else (str(v) if k == 6 else int(v))
        Checkpointer(pathlib.Path(d), save_to_disk=bool(std), **sobjs).save(label, **kwargs)
        lobjs, _ = build(lm, la, lo)
        ck = Checkpointer(pathlib.Path(d), **lobjs)
        try:
            if rk == 9:
                left = _models_from_file(ck, pathlib.Path(d) / f"model_{label}.pt")
                it = -1
            else:
                arg = {0: None, 1: "latest", 2: rn, 3: "newest", 4: 2.5}[rk]
                left = ck.load(arg)
                if not left:
                    return "ok 0"
                it = left["iteration"]
        except ValueError:
            return "err ValueError"
        except FileNotFoundError:
            return "err FileNotFoundError"
        except NotImplementedError:
            return "err NotImplementedError"
        except KeyError:
            return "err KeyError"
    def unwrapped(m):
        return m.module if hasattr(m, "module") else m
    names = {v: k for k, v in OTHER.items()}
    names["sensitivity_model"] = 1
    main_vals = unwrapped(lobjs["model"]).values([n for n, _ in lm[1]])
    aux_vals = unwrapped(lobjs["sensitivity_model"]).values([n for n, _ in la[1]]) if la is not None else []
    other_vals = [read_id(k, lobjs[OTHER[k]]) for k, _ in lo]
    return "ok " + " | ".join(ints(g) for g in ([1, it], main_vals, aux_vals, other_vals,
                                                 [names[k] for k in left if k in names]))


def _models_from_file(ck, path):
    """`load_models_from_file` returns None; what it left unconsumed is read by calling it through a recording shim"""
    seen = {}
    real = ck.load_from_path

    def rec(*a, **kw):
        seen["left"] = real(*a, **kw)
        return seen["left"]

    ck.load_from_path = rec
    try:
        ck.load_models_from_file(path)
    finally:
        del ck.load_from_path
    return seen.get("left", {})


def gen_ckapi(rng):
    names = sorted(rng.sample(range(4), rng.randint(1, 3)))

    def mod(ns):
        return [int(rng.random() < 0.4), [(n, rng.randint(1, 9)) for n in ns]]
    sm = mod(names)
    r = rng.random()
    lnames = names if r < 0.6 else sorted(set(names) | {rng.randrange(4)}) if r < 0.8 else names[:-1] or names
    lm = mod(lnames)
    sa = mod(sorted(rng.sample(range(4), rng.randint(1, 2)))) if rng.random() < 0.6 else None
    la = None
    if rng.random() < 0.7:
        an = [n for n, _ in sa[1]] if sa is not None and rng.random() < 0.8 else sorted(rng.sample(range(4), rng.randint(1, 2)))
        la = mod(an)

    def others():
        return [(k, rng.randint(1, 9)) for k in sorted(rng.sample([3, 4, 5, 6, 7], rng.randint(0, 3)))]
    so, lo = others(), others()
    if rng.random() < 0.5:
        lo = [(k, rng.randint(1, 9)) for k, _ in so]
    kw = [(k, rng.randint(1, 9)) for k in sorted(rng.sample([3, 5, 6, 9], rng.randint(0, 2)))] if rng.random() < 0.5 else []
    label = rng.choice([0, 3, 12])
    rk = rng.choice([1, 1, 2, 2, 2, 9, 9, 0, 3, 4])
    rn = rng.choice([label, label, -1, label + 1]) if rk == 2 else 0
    std = int(rng.random() < 0.85)
    return [std, 0, 0, label, rk, rn], sm, sa, so, kw, lm, la, lo


def ckapi_line(case) -> str:
    hdr, sm, sa, so, kw, lm, la, lo = case
    um, ur = ctor_flags()
    hdr = [hdr[0], um, ur] + hdr[3:]

    def mg(m):
        return [] if m is None else [m[0]] + [v for nv in m[1] for v in nv]
    flat = lambda ps: [v for kv in ps for v in kv]  # noqa: E731
    return "ckapi " + " | ".join(ints(g) for g in (hdr, alias_codes(), mg(sm), mg(sa), flat(so), flat(kw), mg(lm), mg(la), flat(lo)))


# ==================================================================================================
# load argument forms on materialised directories
def real_loadreq(last_txt, files, payload, kind, n) -> str:
    from props.c15 import real_load_verdict

    with toy.scratch_dir() as d:
        if last_txt is not None:
            pathlib.Path(d, "last_model.txt").write_text(last_txt)
        for it, _, _, w in files:
            pathlib.Path(d, f"model_{it}.pt").write_bytes(payload[:w])
        arg = {0: None, 1: "latest", 2: n, 3: "newest", 4: 2.5}[kind]
        return real_load_verdict(d, arg)


# ==================================================================================================
# scheduler + optimiser state through a real save / load
def real_lrstate(sc, e, more, lr2, opt_restored, sch_restored) -> str:
    from direct.checkpointer import Checkpointer

    def fresh(lr):
        o = torch.optim.SGD([torch.nn.Parameter(torch.zeros(1))], lr=float(lr))
        return o, toy.make_scheduler(o, sc)

    o, s = fresh(sc["base"])
    for _ in range(e):
        o.step()
        s.step()
    with toy.scratch_dir() as d:
        Checkpointer(pathlib.Path(d), model=torch.nn.Linear(1, 1), optimizer=o, lr_scheduler=s).save(max(e - 1, 0))
        o, s = fresh(lr2)
        held = {}
        if opt_restored:
            held["optimizer"] = o
        if sch_restored:
            held["lr_scheduler"] = s
        Checkpointer(pathlib.Path(d), model=torch.nn.Linear(1, 1), **held).load("latest")
    seq = [o.param_groups[0]["lr"]]
    for _ in range(more):
        o.step()
        s.step()
        seq.append(o.param_groups[0]["lr"])
    return "ok " + " | ".join(ints(g) for g in ([s.last_epoch, s._step_count],
                                                 toy.fr_pairs([s.base_lrs[0], o.param_groups[0]["initial_lr"]]),
                                                 toy.fr_pairs(seq)))


SCHED_STATE_KEYS = {"multistep": {"milestones", "gamma", "warmup_factor", "warmup_iterations", "warmup_method", "base_lrs",
                                  "last_epoch", "_step_count"},
                    "cosine": {"max_iters", "warmup_factor", "warmup_iterations", "warmup_method", "base_lrs", "last_epoch",
                               "_step_count"}}


# ==================================================================================================
# the trainer's milestones: the expression of direct/train.py evaluated for given configuration values
def real_solver_steps(step, total):
    from translate.gen import REPO as TREPO
    from translate.gen import find_assign
    from translate.pyexpr import find_function, parse_file

    fn = find_function(parse_file(TREPO / "direct/train.py"), "setup_train")
    st = find_assign(fn, "solver_steps")
    env = types.SimpleNamespace(cfg=types.SimpleNamespace(training=types.SimpleNamespace(lr_step_size=step, num_iterations=total)))
    scope = {"env": env}
    exec(compile(ast.Module(body=[st], type_ignores=[]), "<solver_steps>", "exec"), scope)  # noqa: S102
    return list(scope["solver_steps"])
