"""C02 — complex algebra helpers are native complex arithmetic; coil expand / reduce are linear, adjoint, and R∘E = id."""
from __future__ import annotations

import itertools
import math
from fractions import Fraction

import boot  # noqa: F401
import numpy as np
import torch

from core import Ctx, Violation, err_name, line, tensor_groups

PROP = "C02"
EXTRA_LEAN_MODULES = ["DirectVerif.Lemmas.C02Tensor", "DirectVerif.Lemmas.C02Sums"]
MANIFEST = {
    "text": "Lean 4 theorems over R/C (Mathlib) about the same scalar-polymorphic definitions the driver executes over Rat. Scalars: "
            "complex_multiplication / conjugate / complex_division (non-zero divisor; zero divisor gives 0) / squared modulus / "
            "complex_dot_product / root-sum-of-squares equal native complex arithmetic. Matrices: the four-real-product formula of "
            "complex_mm / complex_bmm is the complex matrix product for every index type (cmm_eq_matrix_mul, cbmm_eq), and the row-list "
            "products the driver runs (rmm, cmm) are Mathlib's matrix products for every n x m by m x p incl. 1 x m, n x 1, m = 0 "
            "(rmm_eq_matrix_mul, cmm_eq_matrix_mul_rows). Coil operators, index level: expand and reduce are C-linear, "
            "<E_S x, y> = <x, R_S y> for arbitrary maps and any finite coil / pixel index types, R_S(E_S x) = x when sum_i |S_i|^2 = 1. "
            "Coil operators, TENSOR level (new): the flat row-major definitions the driver executes — torch broadcasting (bcastShape / "
            "unflatten / bcastOffset / zipBcast), unsqueeze, alongAxis sums — are proved to refine to the index-level operators for "
            "every shape pre ++ [c] ++ post (coil axis at any position, dim given as a non-negative or negative Python axis): "
            "expandOp_spec / reduceOp_spec / rssSqT_spec (shape, length, every entry), expandOp_refines / reduceOp_refines / "
            "rssSqT_refines, and hence adjoint_tensor (cdot (E x).data y.data = cdot x.data (R y).data with the model's own cdot on the "
            "flat data), reduce_expand_id_tensor (R(E x) = x as tensors when the computed rss^2 is 1 everywhere), expandOp_linear / "
            "reduceOp_linear, cdotT_singleton; view_as_complex / view_as_real are mutually inverse (viewAsComplex_viewAsReal, "
            "viewAsReal_viewAsComplex). Tied to the code by translated component formulas, safe_divide, the tensor expressions of "
            "complex_dot_product / reduce_operator / expand_operator / modulus / root_sum_of_squares (bridge lemmas, definitional), a "
            "translated table of all 61 coil-operator call sites and inline re-implementations under direct/ with a decided "
            "well-formedness predicate (coil_sites_wf; wf_site_axis / wf_inlineReduce_denotes / wf_inlineExpand_denotes hold for every "
            "well-formed table), a translated table of call-surviving state (caching decorators, global / nonlocal, module-level "
            "non-constant bindings, function attributes, mutable defaults) in the 18 functions reachable from the C02 operators, decided "
            "empty (helper_state_uses_none; history_independent / reduce_after_history: a modelled call is a function of its arguments "
            "whatever was called before), a translated table of size-dependent control flow / loops / chunking calls (narrow, split, "
            "chunk, unbind, select …) in the same functions, decided empty (helper_size_branches_none: one formula for every shape, "
            "which is what the for-all-c specs describe; grouped_reduce_drops_tail is the witness for a complete-groups-only "
            "accumulation), and by exact differential correspondence on integer-valued tensors of shape (b, c, [s], h, w, 2) with the "
            "coil axis at every position, in contiguous / permuted / strided / offset / stride-0 layouts, float32 and float64, singleton "
            "(broadcast) axes, with every argument checked to come back unmodified.",
    "note": "Trusted: Lean kernel (+propext, Classical.choice, Quot.sound), the AST translator, torch elementwise float32/float64 "
            "arithmetic being exact on the integer / dyadic probe set, torch.mm/bmm being the real matrix product (the model's rmm is "
            "proved to be it), the line-protocol glue of Driver/C02.lean (argument parsing, axis range checks, error classes: validated by "
            "correspondence). No longer trusted: the tensor plumbing of the model (now proved for equal shapes and for the coil layout; "
            "general broadcasting of unequal ranks — cmul with dropped leading axes, singleton sensitivity axes — and sums over several "
            "axes at once (cdotT with >= 2 axes) remain validated by correspondence only). Floating-point range: the theorems are "
            "over R; the float32 formulas square their operands, so on the current tree complex_division / modulus / "
            "root_sum_of_squares return nan / inf / 0 / inaccurate values for ordinary float32 operands whose exact result is an "
            "ordinary float32 number (|b| >~ 1.8e19 or <~ 1e-19). The oracle reports these with the stable keys "
            "float-range:<helper>:<class> (12 fixed, seed-independent probes; listed as known findings); complex_multiplication / "
            "complex_dot_product / complex_mm / expand / reduce show no such deviation. Inside the range where no intermediate leaves "
            "float32 every helper must agree with exact complex arithmetic (key native-mismatch:<helper> otherwise); this is now also "
            "checked BIT-EXACTLY on mixed-magnitude probes (entries m*2^e, m in -3..3, e in {0,1,24,27,30,45,60} with real and imaginary "
            "parts at different scales, plus magnitudes up to 3*2^125): a case is accepted only when for every output component the "
            "products t_k of the four-product / textbook formula satisfy sum|t_k| < 2^(q+24) (q = least 2-adic valuation) and "
            "sum|t_k| <= max float32, so every product and every partial sum in any order is a float32 number; then "
            "complex_multiplication / complex_dot_product / complex_mm / complex_bmm / expand / reduce / conjugate / complex_division "
            "(power-of-two divisors) / modulus (perfect squares) must return the exact result — oracle (own integer reference, key "
            "native-mismatch:<helper>, op mixed-exact) and correspondence against the Lean model's exact arithmetic (buckets "
            "mixed-magnitude/*). A formula that pre-adds real and imaginary parts (3-product Gauss / Karatsuba) fails these. Observation "
            "outside the quantifier: root_sum_of_squares decides `complex` by the LAST axis having length 2 whatever complex_dim says "
            "(modelled as coded, exercised by correspondence and oracle).",
    "technique": "Lean 4 proof (Mathlib complex numbers, finite sums, matrices; core-Lean index arithmetic for the tensor refinement) + AST "
                 "translation bridge + decided structural call-site table + exact differential correspondence + property oracle (exact "
                 "adjointness on integer tensors, call histories on shared buffers and on released / re-allocated / NumPy-shared / .data-written "
                 "maps checked at every step, layouts, dtypes, real inline expressions evaluated)",
}
TRUSTED = [
    "Lean 4.33 kernel; axioms ⊆ {propext, Classical.choice, Quot.sound}",
    "harness/translate (Python AST -> Lean): component formulas, conjugate sign, safe_divide, tensor expressions of "
    "complex_dot_product / reduce_operator / expand_operator / modulus / root_sum_of_squares, the coil-operator call-site table",
    "model tensor plumbing beyond what Lemmas/C02Tensor.lean proves (broadcasting of operands of unequal rank / with singleton axes "
    "other than the unsqueezed coil axis, sumAxes over >= 2 axes) and the driver's glue (parsing, axis range checks, error classes) "
    "— validated by correspondence, not proved",
    "torch float32 / float64 arithmetic exact on small integers and dyadic rationals (incl. m*2^e probes whose products and partial "
    "sums are representable); torch.mm / torch.bmm = real matrix product",
]
ASSUMPTIONS = [
    "correspondence inputs are integer-valued float32 / float64 tensors (|v| <= 20) so every product / sum is exact; divisors are either "
    "dyadic (|b|^2 a power of two: exact) or general (the quotient is mapped to the unique fraction with denominator |b|^2 "
    "within 1e-6 relative — bucket cdiv/general-tol)",
    "modulus / root_sum_of_squares are compared on squares: the root r is mapped to round(r*r) after checking |r - sqrt(round(r*r))| <= 1e-5*r",
    "float range (overflow / underflow of squares) is outside the theorems; the oracle reports the deviations of the current tree "
    "as violations with keys float-range:<helper>:<class> and requires agreement with exact arithmetic (rel. 1e-3 of the complex "
    "magnitude) for operand scales 1e-18..1e18 (common scale) / 1e-9..1e9 (mixed scales)",
    "mixed-magnitude exact probes: bit-exactness is demanded only where every term and every subset sum of the textbook formula's "
    "products is float32-representable (decided in exact integer arithmetic per output component; other draws are rejected, not "
    "loosened); torch.mm / bmm / sum may use any summation order or FMA under this criterion",
    "float16 / int64 arguments (outside the stated float32 quantifier) are exercised by the history oracle only: values must equal the "
    "native result on small integers, float dtypes must be preserved",
    "allocation histories (>= 20 fresh same-shape maps, each released before the next is drawn; torch.empty after del) rely on the CPU "
    "allocator handing the freed address out again — observed in every such case (bucket suffix /address-reused); the NumPy-shared, "
    ".data and alias-object histories do not depend on the allocator",
    "call sites inside whole-network forward methods are covered structurally (table + decided predicate) and by evaluating the written "
    "expression / axis on tensors, not by running the network",
]
RULE = ("shapes (b, c, [s], h, w, 2) with b,c,s,h,w in 1..3 (c = 1 included), plus a size ladder at small element counts: coil counts "
        "1..8, 15, 16, 17, 20, 31, 32, 33, 48, 65 (all on every run, correspondence and oracle), one long batch / spatial axis of 63..300 "
        "and matrix rows / inner / columns / batch of 15..65 with the other axes tiny (sampled in quick, all in thorough and in the deep "
        "search); coil axis at every position (positive and negative form), "
        "broadcasting pairs incl. stride-0 and singleton sensitivity / image / data axes, zero divisors, matrix shapes 1..4 incl. rows, "
        "columns, batch 1; memory layouts contiguous / permuted / strided / offset, float32 / float64; non-trivial = more than one complex "
        "element and (for expand/reduce/cdot/rss) a summed/expanded axis of length >= 2; distinct = distinct protocol line + layout class "
        "/ oracle case key")
# float-range findings of the current tree (decided by the lead to be listed as `known:`); one key per (helper, failure class),
# produced by the fixed probes FLOAT_RANGE_PROBES below, independent of VERIF_SEED
PENDING_FINDINGS: list[str] = [
    "float-range:complex_division:overflow-nan",
    "float-range:complex_division:numerator-overflow-inf",
    "float-range:complex_division:divisor-square-overflow-zero",
    "float-range:complex_division:underflow-zero",
    "float-range:complex_division:numerator-underflow-zero",
    "float-range:complex_division:underflow-inaccurate",
    "float-range:modulus:overflow-inf",
    "float-range:modulus:underflow-zero",
    "float-range:modulus:underflow-inaccurate",
    "float-range:root_sum_of_squares:overflow-inf",
    "float-range:root_sum_of_squares:underflow-zero",
    "float-range:root_sum_of_squares:underflow-inaccurate",
]


def _prod(s):
    p = 1
    for v in s:
        p *= v
    return p


def _ints(rng, shape, lo, hi):
    g = torch.Generator().manual_seed(rng.randrange(2 ** 31))
    return torch.randint(lo, hi + 1, tuple(shape), generator=g).float()


def _frac_answer(t: torch.Tensor) -> str:
    """canonical answer: `ok shape | numerators [| denominators]` (denominators only when some != 1)"""
    fr = [Fraction(float(v)) for v in t.reshape(-1).tolist()]
    return _fmt(list(t.shape), fr)


def _fmt(shape, fr):
    nums = " ".join(str(f.numerator) for f in fr)
    s = "ok " + " ".join(str(int(v)) for v in shape) + " | " + nums
    if any(f.denominator != 1 for f in fr):
        s += " | " + " ".join(str(f.denominator) for f in fr)
    return s


def _same(u: torch.Tensor, v: torch.Tensor) -> bool:
    return u.shape == v.shape and u.dtype == v.dtype and bool(torch.all((u == v) | (torch.isnan(u) & torch.isnan(v))))


def _impl(fn, post=_frac_answer, inputs=()):
    """thunk running the real code; `inputs` are the tensors handed to it: they must come back unmodified (bit-identical
    values, same dtype / shape) — an in-place update of an argument is reported as `err InputModified`"""
    def run():
        snap = [x.clone() for x in inputs]
        try:
            out = fn()
        except (ValueError, TypeError, IndexError, RuntimeError, AssertionError) as e:
            return "err " + err_name(e)
        if any(not _same(x, y) for x, y in zip(inputs, snap)):
            return "err InputModified"
        return post(out)
    return run


LAYOUTS = ("contig", "contig", "contig", "perm", "strided", "offset", "f64")


def _layout(rng, t: torch.Tensor, kinds=LAYOUTS):
    """the same values in another memory layout / dtype -> (tensor, tag): permuted storage (non-contiguous), a strided
    view of a larger buffer, a view with a storage offset, float64"""
    kind = rng.choice(kinds)
    if kind == "perm" and t.ndim >= 2:
        p = list(range(t.ndim))
        rng.shuffle(p)
        inv = [p.index(i) for i in range(t.ndim)]
        return t.permute(p).contiguous().permute(inv), "perm"
    if kind == "strided" and t.ndim >= 1:
        big = torch.zeros([2 * n for n in t.shape], dtype=t.dtype)
        v = big[tuple(slice(None, None, 2) for _ in t.shape)]
        v.copy_(t)
        return v, "strided"
    if kind == "offset":
        flat = torch.full((t.numel() + 3,), 7.0, dtype=t.dtype)
        v = flat[3:].view(t.shape)
        v.copy_(t)
        return v, "offset"
    if kind == "f64":
        return t.double(), "f64"
    return t, "contig"


def _ltag(*tags) -> str:
    tags = [t for t in tags if t != "contig"]
    return "" if not tags else "/f64" if all(t == "f64" for t in tags) else "/layout"


def _sq_answer(t: torch.Tensor) -> str:
    """a float32 root of an integer: recover the integer exactly (checked)"""
    vals = t.reshape(-1).double()
    sq = torch.round(vals * vals)
    if not torch.all((vals - sq.sqrt()).abs() <= 1e-5 * vals.clamp(min=1.0)):
        return "err InexactRoot"
    return _fmt(list(t.shape), [Fraction(int(v)) for v in sq.tolist()])


def _cshape(rng, with_slice=None):
    b, c, h, w = (rng.choice([1, 2, 3]) for _ in range(4))
    s = rng.choice([1, 2, 3])
    if with_slice is None:
        with_slice = rng.random() < 0.4
    return [b, c] + ([s] if with_slice else []) + [h, w]


# sizes around the thresholds at which an implementation might switch algorithm / chunk an axis
COIL_LADDER = [1, 2, 3, 4, 5, 6, 7, 8, 15, 16, 17, 20, 31, 32, 33, 48, 65]
LONG_LADDER = [63, 64, 65, 100, 127, 128, 129, 255, 256, 257, 300]
DYADIC = [(1, 0), (-1, 0), (0, 1), (0, -1), (1, 1), (1, -1), (-1, 1), (2, 0), (0, -2), (2, 2), (-2, 2), (0, 4), (-4, 0), (4, 4), (4, -4)]


def correspondence(ctx: Ctx):
    import direct.data.transforms as T

    rng = ctx.rng
    G = lambda t: tensor_groups(t)  # noqa: E731
    V = lambda t: _layout(rng, t)  # noqa: E731
    n = ctx.budget(3, 90)

    def case(op_line, fn, inputs, nontrivial, bucket, post=_frac_answer, tags=()):
        lt = _ltag(*tags)
        return {"line": op_line, "impl": _impl(fn, post, inputs), "nontrivial": nontrivial, "bucket": bucket + lt,
                "key": op_line + lt}

    # ---- complex_multiplication (same shapes + broadcasting pairs, expanded stride-0 operands) / conjugate
    for _ in range(60 * n):
        sa = _cshape(rng)
        mode = rng.choice(["same", "same", "bcast1", "drop-lead", "scalar", "expanded"])
        sb = list(sa)
        if mode in ("bcast1", "expanded"):
            sb[rng.randrange(len(sb))] = 1
        elif mode == "drop-lead":
            sb = sb[rng.randint(1, len(sb) - 1):]
        elif mode == "scalar":
            sb = [1]
        a, b = _ints(rng, sa + [2], -9, 9), _ints(rng, sb + [2], -9, 9)
        if mode == "expanded":                      # the implementation sees a stride-0 view of the full shape
            la, ta = V(a)
            lb, tb = b.expand(sa + [2]), "expanded"
            b = lb.contiguous()
        else:
            la, ta = V(a)
            lb, tb = V(b)
        if rng.random() < 0.5:
            a, b, la, lb = b, a, lb, la
        yield case(line("cmul", *G(a), *G(b)), lambda a=la, b=lb: T.complex_multiplication(a, b), (la, lb),
                   max(_prod(sa), _prod(sb)) > 1, "cmul/" + mode, tags=(ta, tb))
    for _ in range(20 * n):
        a = _ints(rng, _cshape(rng) + [2], -9, 9)
        if rng.random() < 0.15:                     # stride-0 input: `conjugate` clones, then writes in place
            a = a[..., :1, :].expand(a.shape).contiguous()
            la, ta = a[..., :1, :].expand(a.shape), "expanded"
        else:
            la, ta = V(a)
        yield case(line("conj", *G(a)), lambda a=la: T.conjugate(a), (la,), a.numel() > 2, "conj", tags=(ta,))
    # ---- complex_division: zero divisors, dyadic divisors (exact), general divisors (fraction recovered under tolerance)
    for _ in range(60 * n):
        sa = _cshape(rng)
        general = rng.random() < 0.3
        a = _ints(rng, sa + [2], -9, 9)
        if general:
            b = _ints(rng, sa + [2], -5, 5)
        else:
            picks = [rng.choice(DYADIC) for _ in range(_prod(sa))]
            b = torch.tensor(picks, dtype=torch.float32).reshape(sa + [2])
        zero = torch.rand(sa) < 0.25
        b[zero] = 0.0
        if rng.random() < 0.1:
            b[...] = 0.0
        nz = int((b[..., 0] == 0).logical_and(b[..., 1] == 0).sum())

        def post(out, b=b, general=general):
            if not general:
                return _frac_answer(out)
            den = (b[..., 0].double() ** 2 + b[..., 1].double() ** 2).unsqueeze(-1).expand_as(out).reshape(-1)
            vals = out.reshape(-1).double()
            fr = []
            for v, d in zip(vals.tolist(), den.tolist()):
                d = int(d)
                if d == 0:
                    if v != 0.0:
                        return "err NonZeroAtZeroDivisor"
                    fr.append(Fraction(0))
                    continue
                p = round(v * d)
                if abs(v - p / d) > 1e-6 * max(1.0, abs(v)):
                    return "err InexactQuotient"
                fr.append(Fraction(p, d))
            return _fmt(list(out.shape), fr)
        (la, ta), (lb, tb) = V(a), V(b)
        yield case(line("cdiv", *G(a), *G(b)), lambda a=la, b=lb: T.complex_division(a, b), (la, lb), _prod(sa) > 1,
                   "cdiv/" + ("general-tol" if general else "dyadic") + ("/with-zeros" if nz else ""), post, tags=(ta, tb))
    # ---- safe_divide directly (the zero-divisor rule is invisible through complex_division, whose numerators vanish there):
    #      non-zero numerators over zero / negative-zero divisors, broadcasting shapes
    for _ in range(40 * n):
        sa = _cshape(rng, with_slice=False)
        mode = rng.choice(["same", "same", "bcast1", "drop-lead", "scalar-divisor"])
        sb = list(sa)
        if mode == "bcast1":
            sb[rng.randrange(len(sb))] = 1
        elif mode == "drop-lead":
            sb = sb[rng.randint(1, len(sb) - 1):]
        elif mode == "scalar-divisor":
            sb = [1]
        a = _ints(rng, sa, -9, 9)
        a[a == 0] = 7.0                                   # numerators are never zero
        b = torch.tensor([rng.choice([0, 0, 1, -1, 2, -2, 4, 8, -4]) for _ in range(_prod(sb))], dtype=torch.float32).reshape(sb)
        if rng.random() < 0.1:
            b[...] = 0.0
        bi = b.clone()
        bi[(b == 0) & (torch.rand(sb) < 0.5)] = -0.0      # the implementation also sees negative zeros; the protocol sends 0
        nz = int((b == 0).sum())
        (la, ta), (lb, tb) = V(a), V(bi)
        yield case(line("sdiv", *G(a), *G(b)), lambda a=la, b=lb: T.safe_divide(a, b), (la, lb), nz > 0,
                   "safe_divide/" + mode + ("/zero-divisors" if nz else "/no-zero"), tags=(ta, tb))
    # ---- modulus_if_complex: squared modulus when the addressed axis has length 2, the data unchanged otherwise
    for _ in range(20 * n):
        sa = _cshape(rng, with_slice=False)
        kind = rng.choice(["complex-last", "not-complex", "inner-axis"])
        if kind == "complex-last":
            shape, ax = sa + [2], -1
        elif kind == "not-complex":
            shape, ax = sa + [rng.choice([1, 3])], -1
        else:
            pos = rng.randrange(len(sa))
            shape, ax = sa[:pos] + [2] + sa[pos:], pos
        x = _ints(rng, shape, -20, 20)

        def post(out, is_c=(shape[ax] == 2)):
            body = _sq_answer(out) if is_c else _frac_answer(out)
            return body if body.startswith("err") else f"ok {1 if is_c else 0} | " + body[3:]
        lx, tx = V(x)
        yield case(line("modif", *G(x), [ax]), lambda x=lx, ax=ax: T.modulus_if_complex(x, complex_axis=ax), (lx,),
                   x.numel() > 2, "modulus_if_complex/" + kind, post, tags=(tx,))
    # ---- modulus (squared) with the complex axis anywhere; root_sum_of_squares (squared)
    for _ in range(30 * n):
        sa = _cshape(rng, with_slice=False)
        pos = rng.randint(0, len(sa))
        shape = sa[:pos] + [2] + sa[pos:]
        ax = pos if rng.random() < 0.5 else pos - len(shape)
        if rng.random() < 0.4:
            shape, ax = sa + [2], -1
        x = _ints(rng, shape, -20, 20)
        lx, tx = V(x)
        yield case(line("modsq", *G(x), [ax]), lambda x=lx, ax=ax: T.modulus(x, complex_axis=ax), (lx,), x.numel() > 2,
                   "modsq/" + ("last" if ax in (-1, len(shape) - 1) else "inner-axis"), _sq_answer, tags=(tx,))
    for _ in range(40 * n):
        sa = _cshape(rng)
        kind = rng.choice(["complex", "complex", "complex", "real", "real-last2"])
        shape = sa + [2] if kind == "complex" else (sa[:-1] + [rng.choice([1, 3])] if kind == "real" else sa[:-1] + [2])
        rank_eff = len(shape) - 1 if shape[-1] == 2 else len(shape)
        dim = rng.randrange(rank_eff)
        if rng.random() < 0.2:
            dim -= rank_eff
        x = _ints(rng, shape, -12, 12)
        nt = shape[dim if dim >= 0 else dim + rank_eff] >= 2
        # the rarely used `complex_dim` option: default, the last axis by its positive index, or (complex data) another axis
        cform = rng.choice(["default", "default", "positive-last", "other-axis"])
        cd = -1 if cform == "default" else len(shape) - 1 if cform == "positive-last" else rng.randrange(len(shape))
        if cform == "other-axis" and (shape[-1] != 2 or cd == len(shape) - 1):
            cform, cd = "default", -1
        if cform == "other-axis":
            dim = rng.randrange(len(shape) - 1)
            nt = True
        lx, tx = V(x)
        kw = {} if cform == "default" else {"complex_dim": cd}
        yield case(line("rss", *G(x), [dim, cd]), lambda x=lx, d=dim, kw=kw: T.root_sum_of_squares(x, dim=d, **kw), (lx,), nt,
                   "rss/" + kind + ("/c=1" if not nt else "") + ("" if cform == "default" else "/complex_dim=" + cform), _sq_answer,
                   tags=(tx,))
    # ---- complex_dot_product over lists / tuples of axes
    for _ in range(40 * n):
        sa = _cshape(rng)
        r = len(sa)
        k = rng.randint(1, r)
        dims = sorted(rng.sample(range(r), k))
        nt = any(sa[d] >= 2 for d in dims)
        if rng.random() < 0.2:
            dims = [d - (r + 1) for d in dims]      # negative axes of the (…, 2) tensor
        a, b = _ints(rng, sa + [2], -6, 6), _ints(rng, sa + [2], -6, 6)
        (la, ta), (lb, tb) = V(a), V(b)
        as_tuple = rng.random() < 0.3
        yield case(line("cdot", *G(a), *G(b), dims),
                   lambda a=la, b=lb, d=dims, tp=as_tuple: T.complex_dot_product(a, b, tuple(d) if tp else list(d)), (la, lb), nt,
                   f"cdot/{k}axes" + ("/neg" if dims[0] < 0 else "") + ("/tuple" if as_tuple else ""), tags=(ta, tb))
    # ---- complex_mm / complex_bmm: all of 1 x m, n x 1, 1 x 1, batch 1; operands also as transposed (non-contiguous) storage
    def cview(t):
        z = torch.view_as_complex(t)
        if z.ndim >= 2 and rng.random() < 0.4:
            return z.transpose(-1, -2).contiguous().transpose(-1, -2), "perm"
        return z, "contig"

    for i in range(30 * n):
        nn, m, p = (rng.randint(1, 4) for _ in range(3))
        if i % 5 == 0:
            nn, m, p = rng.choice([(1, rng.randint(2, 4), 1), (rng.randint(2, 4), 1, rng.randint(2, 4)), (1, 1, 1), (1, 3, 2), (3, 2, 1)])
        a, b = _ints(rng, [nn, m, 2], -6, 6), _ints(rng, [m, p, 2], -6, 6)
        (ca, ta), (cb, tb) = cview(a), cview(b)
        yield case(line("mm", *G(a), *G(b)), lambda a=ca, b=cb: torch.view_as_real(T.complex_mm(a, b)), (ca, cb), m >= 2,
                   "mm" + ("/row-or-column" if 1 in (nn, p) else "") + ("/inner=1" if m == 1 else ""), tags=(ta, tb))
    for i in range(20 * n):
        bb, nn, m, p = (rng.randint(1, 3) for _ in range(4))
        if i % 4 == 0:
            bb = 1
        a, b = _ints(rng, [bb, nn, m, 2], -6, 6), _ints(rng, [bb, m, p, 2], -6, 6)
        (ca, ta), (cb, tb) = cview(a), cview(b)
        yield case(line("bmm", *G(a), *G(b)), lambda a=ca, b=cb: torch.view_as_real(T.complex_bmm(a, b)), (ca, cb),
                   m >= 2 and bb >= 2, "bmm" + ("/batch=1" if bb == 1 else ""), tags=(ta, tb))
    # ---- mixed-magnitude exact cases (see _mix_case): every helper with a protocol op, against the model's exact arithmetic
    for _ in range(30 * n):
        spec = _mix_case(rng.randrange(2 ** 31))
        if spec is None or spec["line"] is None:
            continue
        groups = []
        for g in spec["line"][1:]:
            groups += list(G(g)) if torch.is_tensor(g) else [g]
        yield case(line(spec["line"][0], *groups), lambda spec=spec: _mix_run(T, spec), tuple(a for a in spec["args"] if torch.is_tensor(a)),
                   True, "mixed-magnitude/" + spec["bucket"])
    # ---- expand / reduce with the coil axis at every position; sensitivity maps / operands with singleton (broadcast) axes
    for _ in range(14 * n):
        base = _cshape(rng)
        base.pop(1)                                  # image shape (b, [s], h, w)
        for dim in range(len(base) + 1):
            c = rng.choice([1, 2, 3, 4])
            ss = base[:dim] + [c] + base[dim:]
            sS, sx, sy = list(ss), list(base), list(ss)
            bc = rng.choice(["", "", "", "/sens-singleton", "/image-singleton", "/data-singleton"])
            j = rng.randrange(len(base))             # a non-coil axis, as an index of the image shape
            jj = j if j < dim else j + 1             # … and of the coil-shaped tensors
            if bc == "/sens-singleton":
                sS[jj] = 1
            elif bc == "/image-singleton":
                sx[j] = 1
            elif bc == "/data-singleton":
                sy[jj] = 1
            S = _ints(rng, sS + [2], -5, 5)
            x = _ints(rng, sx + [2], -5, 5)
            y = _ints(rng, sy + [2], -5, 5)
            d = dim if rng.random() < 0.8 else dim - (len(base) + 2)     # negative axis of the (…, 2) tensors
            dr = dim if d >= 0 else dim - (len(ss) + 1)
            tag = f"/r{len(base)}/dim{dim}" + ("/c=1" if c == 1 else "") + ("/neg" if d < 0 else "")
            (lS, tS), (lx, tx), (ly, ty) = V(S), V(x), V(y)
            if bc != "/data-singleton":
                yield case(line("expand", *G(x), *G(S), [d]), lambda x=lx, S=lS, d=d: T.expand_operator(x, S, dim=d), (lx, lS),
                           c >= 2, "expand" + tag + (bc if bc != "/data-singleton" else ""), tags=(tx, tS))
            if bc != "/image-singleton":
                yield case(line("reduce", *G(y), *G(S), [dr]), lambda y=ly, S=lS, d=dr: T.reduce_operator(y, S, dim=d), (ly, lS),
                           c >= 2, "reduce" + tag + bc, tags=(ty, tS))
    # ---- size ladder: every axis a helper could chunk over, at small total element counts.  Coil counts through the whole
    #      ladder on every run (thresholds such as 16 / 32 / 64 and their neighbours), one long batch / spatial / matrix axis
    for c in COIL_LADDER:
        base = [rng.choice([1, 2]) for _ in range(rng.choice([2, 3]))]
        dim = rng.randrange(len(base) + 1)
        ss = base[:dim] + [c] + base[dim:]
        S, x, y = _ints(rng, ss + [2], -3, 3), _ints(rng, base + [2], -3, 3), _ints(rng, ss + [2], -3, 3)
        neg = rng.random() < 0.3
        d, dr = (dim - (len(base) + 2), dim - (len(ss) + 1)) if neg else (dim, dim)
        tag = f"/coils={c}"
        yield case(line("reduce", *G(y), *G(S), [dr]), lambda y=y, S=S, d=dr: T.reduce_operator(y, S, dim=d), (y, S), c >= 2, "ladder/reduce" + tag)
        yield case(line("expand", *G(x), *G(S), [d]), lambda x=x, S=S, d=d: T.expand_operator(x, S, dim=d), (x, S), c >= 2, "ladder/expand" + tag)
        which = rng.choice(["cdot", "rss"])
        if which == "cdot":
            yield case(line("cdot", *G(S), *G(y), [dr]), lambda a=S, b=y, d=dr: T.complex_dot_product(a, b, [d]), (S, y), c >= 2,
                       "ladder/cdot" + tag)
        else:
            yield case(line("rss", *G(S), [dim, -1]), lambda S=S, d=dim: T.root_sum_of_squares(S, dim=d), (S,), c >= 2, "ladder/rss" + tag,
                       _sq_answer)
    for L in rng.sample(LONG_LADDER, ctx.budget(4, len(LONG_LADDER))):
        # one long batch or spatial axis, everything else tiny: coil operators, elementwise helpers, sums
        rank = rng.choice([2, 3])
        base = [1] * rank
        base[rng.randrange(rank)] = L
        dim = rng.randrange(rank + 1)
        c = rng.choice([1, 2, 3])
        ss = base[:dim] + [c] + base[dim:]
        S, x, y = _ints(rng, ss + [2], -3, 3), _ints(rng, base + [2], -3, 3), _ints(rng, ss + [2], -3, 3)
        tag = f"/long-axis={L}"
        yield case(line("reduce", *G(y), *G(S), [dim]), lambda y=y, S=S, d=dim: T.reduce_operator(y, S, dim=d), (y, S), True, "ladder/reduce" + tag)
        yield case(line("expand", *G(x), *G(S), [dim]), lambda x=x, S=S, d=dim: T.expand_operator(x, S, dim=d), (x, S), True, "ladder/expand" + tag)
        long_ax = ss.index(L)
        yield case(line("cdot", *G(S), *G(y), [long_ax]), lambda a=S, b=y, d=long_ax: T.complex_dot_product(a, b, [d]), (S, y), True,
                   "ladder/cdot-over-long-axis" + tag)
        yield case(line("rss", *G(S), [long_ax, -1]), lambda S=S, d=long_ax: T.root_sum_of_squares(S, dim=d), (S,), True,
                   "ladder/rss-over-long-axis" + tag, _sq_answer)
        b = torch.tensor([rng.choice(DYADIC + [(0, 0)]) for _ in range(_prod(ss))], dtype=torch.float32).reshape(ss + [2])
        yield case(line("cdiv", *G(y), *G(b)), lambda a=y, b=b: T.complex_division(a, b), (y, b), True, "ladder/cdiv" + tag)
        yield case(line("conj", *G(y)), lambda a=y: T.conjugate(a), (y,), True, "ladder/conj" + tag)
        yield case(line("modsq", *G(y), [-1]), lambda a=y: T.modulus(a), (y,), True, "ladder/modsq" + tag, _sq_answer)
    for L in rng.sample(COIL_LADDER[8:], ctx.budget(4, len(COIL_LADDER) - 8)):
        # matrix products with one long dimension (rows, inner, columns, batch)
        which = rng.choice(["rows", "inner", "cols", "batch"])
        nn, m, p, bb = (L if which == "rows" else 2), (L if which == "inner" else 2), (L if which == "cols" else 2), (L if which == "batch" else 1)
        if which == "batch":
            a, b = _ints(rng, [bb, nn, m, 2], -3, 3), _ints(rng, [bb, m, p, 2], -3, 3)
            yield case(line("bmm", *G(a), *G(b)), lambda a=torch.view_as_complex(a), b=torch.view_as_complex(b): torch.view_as_real(T.complex_bmm(a, b)),
                       (a, b), True, f"ladder/bmm/batch={L}")
        else:
            a, b = _ints(rng, [nn, m, 2], -3, 3), _ints(rng, [m, p, 2], -3, 3)
            yield case(line("mm", *G(a), *G(b)), lambda a=torch.view_as_complex(a), b=torch.view_as_complex(b): torch.view_as_real(T.complex_mm(a, b)),
                       (a, b), True, f"ladder/mm/{which}={L}")
    # ---- view_as_complex / view_as_real / tensor_to_complex_numpy
    for _ in range(10 * n):
        sa = _cshape(rng, with_slice=False)
        last = rng.choice([2, 2, 2, 1, 3])
        x = _ints(rng, sa + [last], -9, 9)

        def post_np(z, sa=sa):
            return "ok " + " ".join(map(str, z.shape)) + " | " + " ".join(str(int(v)) for v in z.real.reshape(-1)) + " | " + \
                " ".join(str(int(v)) for v in z.imag.reshape(-1))
        lx, tx = V(x)
        yield case(line("tcn", *G(x)), lambda x=lx: T.tensor_to_complex_numpy(x), (lx,), x.numel() > 2,
                   "tensor_to_complex_numpy" + ("" if last == 2 else "/no-pair-axis"), post_np, tags=(tx,))
        yield case(line("vrt", *G(x)), lambda x=x: T.view_as_real(T.view_as_complex(x)), (x,), x.numel() > 2,
                   "view_as_real∘view_as_complex" + ("" if last == 2 else "/no-pair-axis"))
    # ---- malformed stream: no pair axis, shapes that do not broadcast, axes out of range, matrix shapes
    for _ in range(25 * n):
        sa = _cshape(rng, with_slice=False)
        kind = rng.choice(["no-pair-axis", "no-broadcast", "axis-range", "mm-inner", "mm-rank", "bmm-batch", "bmm-rank", "bmm-inner"])
        cc = lambda t: torch.view_as_complex(t)  # noqa: E731
        if kind == "no-pair-axis":
            a, b = _ints(rng, sa + [rng.choice([1, 3])], -3, 3), _ints(rng, sa + [2], -3, 3)
            op = rng.choice(["cmul", "cdiv", "conj", "reduce", "expand"])
            if op == "conj":
                yield case(line("conj", *G(a)), lambda a=a: T.conjugate(a), (a,), True, "malformed/" + kind)
            elif op in ("cmul", "cdiv"):
                fn = T.complex_multiplication if op == "cmul" else T.complex_division
                if rng.random() < 0.5:
                    a, b = b, a
                yield case(line(op, *G(a), *G(b)), lambda a=a, b=b, fn=fn: fn(a, b), (a, b), True, "malformed/" + kind)
            else:
                fn = T.reduce_operator if op == "reduce" else T.expand_operator
                yield case(line(op, *G(a), *G(b), [0]), lambda a=a, b=b, fn=fn: fn(a, b, dim=0), (a, b), True, "malformed/" + kind)
        elif kind == "no-broadcast":
            sb = list(sa)
            j = rng.randrange(len(sb))
            sa[j], sb[j] = 2, 3
            a, b = _ints(rng, sa + [2], -3, 3), _ints(rng, sb + [2], -3, 3)
            op, fn = rng.choice([("cmul", T.complex_multiplication), ("cdiv", T.complex_division)])
            yield case(line(op, *G(a), *G(b)), lambda a=a, b=b, fn=fn: fn(a, b), (a, b), True, "malformed/" + kind)
        elif kind == "axis-range":
            a, b = _ints(rng, sa + [2], -3, 3), _ints(rng, sa + [2], -3, 3)
            d = len(sa) + rng.randint(2, 3)
            if rng.random() < 0.4:
                d = -d - 1
            op, fn = rng.choice([("reduce", T.reduce_operator), ("expand", T.expand_operator)])
            yield case(line(op, *G(a), *G(b), [d]), lambda a=a, b=b, fn=fn, d=d: fn(a, b, dim=d), (a, b), True, "malformed/" + kind)
        else:
            shapes = {"mm-inner": ([2, 3, 2], [2, 2, 2]), "mm-rank": rng.choice([([3, 2], [3, 2, 2]), ([1, 2, 3, 2], [3, 2, 2]), ([2, 3, 2], [3, 2])]),
                      "bmm-batch": ([2, 2, 3, 2], [3, 3, 2, 2]), "bmm-rank": rng.choice([([2, 3, 2], [3, 2, 2]), ([2, 2, 3, 2], [3, 2, 2])]),
                      "bmm-inner": ([2, 2, 3, 2], [2, 2, 2, 2])}[kind]
            a, b = _ints(rng, shapes[0], -3, 3), _ints(rng, shapes[1], -3, 3)
            op, fn = ("mm", T.complex_mm) if kind.startswith("mm") else ("bmm", T.complex_bmm)
            yield case(line(op, *G(a), *G(b)), lambda a=a, b=b, fn=fn: torch.view_as_real(fn(cc(a), cc(b))), (a, b), True,
                       "malformed/" + kind)


# --------------------------------------------------------------------------------------------------
def _c(t):
    return torch.view_as_complex(t.contiguous())


def _inner(u, v):
    """<u, v> = sum conj(u) v, accumulated in float64 (exact for integer-valued inputs of small magnitude)"""
    u, v = _c(u).to(torch.complex128), _c(v).to(torch.complex128)
    return complex((u.conj() * v).sum())


def _unit_rss_maps(rng, ss, dim, family):
    """sensitivity maps with sum_i |S_i|^2 = 1 at every pixel; `onehot` / `half` are exact in float32"""
    c = ss[dim]
    S = torch.zeros(ss + [2])
    pix = [s for j, s in enumerate(ss) if j != dim]
    if family == "onehot":
        for idx in itertools.product(*[range(s) for s in pix]):
            i = rng.randrange(c)
            full = idx[:dim] + (i,) + idx[dim:]
            S[full + (rng.randrange(2),)] = rng.choice([1.0, -1.0])
        return S
    if family == "half" and c == 4:
        g = torch.Generator().manual_seed(rng.randrange(2 ** 31))
        comp = torch.randint(0, 2, tuple(ss), generator=g)
        sign = torch.randint(0, 2, tuple(ss), generator=g).float() * 2 - 1
        S[..., 0] = (comp == 0).float() * sign * 0.5
        S[..., 1] = (comp == 1).float() * sign * 0.5
        return S
    g = torch.Generator().manual_seed(rng.randrange(2 ** 31))
    S = torch.randn(tuple(ss) + (2,), generator=g)
    rss = (S ** 2).sum(-1).sum(dim, keepdim=True).sqrt().unsqueeze(-1)
    return S / rss


def _coil_case(T, base, dim, c, seed, family, neg=False):
    """-> list of (key, what, observed) of the coil-operator laws failing on this input.  `neg`: the coil axis is passed as a
    negative index of the (…, 2) tensors (`dim - ndim`), the references are always computed with the positive axis."""
    import random

    r = random.Random(seed)
    ss = base[:dim] + [c] + base[dim:]
    S = _ints(r, ss + [2], -4, 4)
    x, x2 = _ints(r, base + [2], -4, 4), _ints(r, base + [2], -4, 4)
    y, y2 = _ints(r, ss + [2], -4, 4), _ints(r, ss + [2], -4, 4)
    bad = []
    da = dim - (len(base) + 2) if neg else dim           # as passed to expand / reduce (tensors of rank len(base)+2 incl. the pair axis)
    dr = dim - (len(base) + 1) if neg else dim           # as passed to root_sum_of_squares (axis of the tensor after the pair axis is summed)
    try:
        Ex, Ry = T.expand_operator(x, S, dim=da), T.reduce_operator(y, S, dim=da)
    except Exception as e:  # noqa: BLE001
        return [("coil-op-raises" + ("/negative-dim" if neg else ""), f"expand/reduce raise {err_name(e)} on valid input (dim={da})", repr(e))]
    if list(Ex.shape) != ss + [2] or list(Ry.shape) != base + [2]:
        return [("coil-op-shape" + ("/negative-dim" if neg else ""), f"expand/reduce return the wrong shape (dim={da})", [list(Ex.shape), list(Ry.shape)])]
    # definitions against native complex arithmetic
    ref_E = torch.view_as_real(_c(S) * _c(x).unsqueeze(dim))
    ref_R = torch.view_as_real((_c(S).conj() * _c(y)).sum(dim))
    if not torch.equal(Ex, ref_E):
        bad.append(("expand-definition", "expand_operator != S_i * x", float((Ex - ref_E).abs().max())))
    if not torch.equal(Ry, ref_R):
        bad.append(("reduce-definition", "reduce_operator != sum_i conj(S_i) y_i", float((Ry - ref_R).abs().max())))
    # exact adjointness
    lhs, rhs = _inner(Ex, y), _inner(x, Ry)
    if lhs != rhs:
        bad.append(("adjointness", "<E x, y> != <x, R y> on integer tensors", [str(lhs), str(rhs)]))
    def law(key, what, thunk):
        try:
            ok, obs = thunk()
        except Exception as e:  # noqa: BLE001
            ok, obs = False, f"raises {err_name(e)}: {e}"[:200]
        if not ok:
            bad.append((key, what, obs))

    # linearity with an integer complex scalar
    a = torch.tensor([float(r.randint(-3, 3)), float(r.randint(-3, 3))])
    cm = T.complex_multiplication

    def lin_e():
        ax = cm(a.expand_as(x).contiguous(), x)
        return torch.equal(T.expand_operator(ax + x2, S, dim=da), cm(a.expand_as(Ex).contiguous(), Ex) + T.expand_operator(x2, S, dim=da)), None

    def lin_r():
        ay = cm(a.expand_as(y).contiguous(), y)
        return torch.equal(T.reduce_operator(ay + y2, S, dim=da), cm(a.expand_as(Ry).contiguous(), Ry) + T.reduce_operator(y2, S, dim=da)), None
    law("expand-linear", "E(a x + x') != a E(x) + E(x')", lin_e)
    law("reduce-linear", "R(a y + y') != a R(y) + R(y')", lin_r)

    # reduce ∘ expand = id for unit-RSS maps
    def re_id():
        U = _unit_rss_maps(r, ss, dim, family)
        back = T.reduce_operator(T.expand_operator(x, U, dim=da), U, dim=da)
        exact = family == "onehot" or (family == "half" and c == 4)
        ok = back.shape == x.shape and (torch.equal(back, x) if exact else torch.allclose(back, x, atol=1e-4))
        return ok, (float((back - x).abs().max()) if back.shape == x.shape else "shape")
    law("reduce-expand-id", "R(E(x)) != x for unit-RSS maps", re_id)

    # without normalisation: R(E(x)) = rss^2 * x   (exact on integers; rss^2 computed natively)
    def re_rss():
        rss2 = (S.double() ** 2).sum(-1).sum(dim)
        got = T.reduce_operator(Ex, S, dim=da)
        ref = (rss2.unsqueeze(-1) * x.double()).float()
        return got.shape == ref.shape and torch.equal(got, ref), None
    law("reduce-expand-rss", "R(E(x)) != (sum_i |S_i|^2) * x", re_rss)

    # root_sum_of_squares along the coil axis (squares compared exactly)
    def rss_def():
        got = T.root_sum_of_squares(S, dim=dr).double()
        ref = (S.double() ** 2).sum(-1).sum(dim)
        return got.shape == ref.shape and bool(torch.all((got - ref.sqrt()).abs() <= 1e-5 * ref.sqrt().clamp(min=1.0))), None
    law("rss-definition", "root_sum_of_squares != sqrt(sum_i |S_i|^2) along the coil axis", rss_def)
    return [(k + "/negative-dim", w + f" (coil axis passed as {da})", o) for k, w, o in bad] if neg else bad



# --------------------------------------------------------------------------------------------------
# call sites: every place under direct/nn (+ mri_transforms, engine) that re-implements S·x or Σ conj(S)·y with its own
# dims, found by an AST scan of the current tree, checked numerically against expand_operator / reduce_operator
import ast as _ast
import functools as _functools
import importlib as _importlib
import types as _types

import core as _core

_DIM_ATTR = ("coil_dim", "spatial_dims", "complex_dim")


def _literal_attrs(cls: _ast.ClassDef):
    """`self.<…dim…> = <literal>` or `= <constructor parameter with a literal default>` anywhere in the class"""
    out = {}
    for fn in [n for n in cls.body if isinstance(n, _ast.FunctionDef)]:
        defaults = {}
        a = fn.args
        pos = a.posonlyargs + a.args
        for arg, d in zip(pos[len(pos) - len(a.defaults):], a.defaults):
            defaults[arg.arg] = d
        for arg, d in zip(a.kwonlyargs, a.kw_defaults):
            if d is not None:
                defaults[arg.arg] = d
        for n in _ast.walk(fn):
            if isinstance(n, _ast.Assign) and len(n.targets) == 1 and isinstance(n.targets[0], _ast.Attribute) \
                    and isinstance(n.targets[0].value, _ast.Name) and n.targets[0].value.id == "self" \
                    and any(k in n.targets[0].attr for k in _DIM_ATTR):
                v = n.value
                if isinstance(v, _ast.Name) and v.id in defaults:
                    v = defaults[v.id]
                try:
                    out[n.targets[0].attr] = _ast.literal_eval(v)
                except Exception:  # noqa: BLE001
                    pass
    return out


def _fname(call):
    f = call.func
    return f.attr if isinstance(f, _ast.Attribute) else f.id if isinstance(f, _ast.Name) else ""


@_functools.lru_cache(maxsize=None)
def _callsite_scan():
    """-> (methods, expressions): methods = [(module, class, method, attrs)], expressions = [dict(kind, file, line, cls, attrs,
    expr (source), operands …)]"""
    root = _core.REPO
    files = sorted((root / "direct" / "nn").rglob("*.py")) + [root / "direct/data/mri_transforms.py", root / "direct/engine.py"]
    methods, exprs = [], []
    for py in files:
        try:
            tree = _ast.parse(py.read_text())
        except (OSError, SyntaxError):
            continue
        rel = str(py.relative_to(root))
        module = rel[:-3].replace("/", ".")
        parents = {}
        for node in _ast.walk(tree):
            for ch in _ast.iter_child_nodes(node):
                parents[ch] = node
        for cls in [n for n in _ast.walk(tree) if isinstance(n, _ast.ClassDef)]:
            attrs = _literal_attrs(cls)
            for fn in [n for n in cls.body if isinstance(n, _ast.FunctionDef)]:
                if fn.name in ("_forward_operator", "_backward_operator", "compute_sense_init"):
                    methods.append((module, cls.name, fn.name, tuple(sorted(attrs.items(), key=str)), rel, fn.lineno))
                for call in [n for n in _ast.walk(fn) if isinstance(n, _ast.Call) and _fname(n) == "complex_multiplication" and len(n.args) == 2]:
                    a0, a1 = call.args
                    conj = [i for i, a in enumerate((a0, a1)) if isinstance(a, _ast.Call) and _fname(a) == "conjugate" and len(a.args) == 1]
                    unsq = [i for i, a in enumerate((a0, a1)) if isinstance(a, _ast.Call) and _fname(a) == "unsqueeze"]
                    rec = {"file": rel, "line": call.lineno, "cls": cls.name, "fn": fn.name, "attrs": attrs, "src": _ast.unparse(call)[:160]}
                    if len(conj) == 1:
                        # is the product summed (chained `.sum(D)` or `name = name.sum(D)` right after)?
                        par = parents.get(call)
                        dnode = None
                        if isinstance(par, _ast.Attribute) and par.attr == "sum" and isinstance(parents.get(par), _ast.Call):
                            sc = parents[par]
                            dnode = sc.args[0] if sc.args else next((k.value for k in sc.keywords if k.arg == "dim"), None)
                        else:
                            st = par
                            while st is not None and not isinstance(st, _ast.stmt):
                                st = parents.get(st)
                            if isinstance(st, _ast.Assign) and st.value is call and isinstance(st.targets[0], _ast.Name):
                                body = parents.get(st)
                                sib = getattr(body, "body", [])
                                if st in sib and sib.index(st) + 1 < len(sib):
                                    nx = sib[sib.index(st) + 1]
                                    v = getattr(nx, "value", None)
                                    if isinstance(v, _ast.Call) and isinstance(v.func, _ast.Attribute) and v.func.attr == "sum" \
                                            and _ast.unparse(v.func.value) == st.targets[0].id:
                                        dnode = v.args[0] if v.args else next((k.value for k in v.keywords if k.arg == "dim"), None)
                        ci = conj[0]
                        rec.update(kind="reduce-like", conj_index=ci, conj_operand=_ast.unparse((a0, a1)[ci].args[0]),
                                   other_operand=_ast.unparse((a0, a1)[1 - ci])[:80], dim=_ast.unparse(dnode) if dnode is not None else None)
                        exprs.append(rec)
                    elif len(unsq) == 1:
                        ui = unsq[0]
                        u = (a0, a1)[ui]
                        d = u.args[0] if u.args else next((k.value for k in u.keywords if k.arg == "dim"), None)
                        rec.update(kind="expand-like", unsq_index=ui, image_operand=_ast.unparse(u.func.value)[:80],
                                   other_operand=_ast.unparse((a0, a1)[1 - ui])[:80], dim=_ast.unparse(d) if d is not None else None)
                        exprs.append(rec)
    return methods, exprs


def _resolve_dim(text, attrs):
    """`self._coil_dim` / `1` / `self.coil_dim` -> int | None"""
    if text is None:
        return None
    try:
        v = _ast.literal_eval(text)
        return v if isinstance(v, int) else None
    except Exception:  # noqa: BLE001
        pass
    if text.startswith("self.") and text[5:] in attrs and isinstance(attrs[text[5:]], int):
        return attrs[text[5:]]
    return None


def _callsite_method_case(T, module, cls_name, meth, attrs, seed):
    """run Class.<meth> unbound on a stand-in `self` (the class's literal dims + recording identity operators) -> failures"""
    import random

    r = random.Random(seed)
    attrs = dict(attrs)
    coil = attrs.get("_coil_dim", attrs.get("coil_dim"))
    sp = attrs.get("_spatial_dims", attrs.get("spatial_dims"))
    if not isinstance(coil, int) or not isinstance(sp, (tuple, list)):
        return None, f"dims of {cls_name} are not literals ({attrs})"
    try:
        cls = getattr(_importlib.import_module(module), cls_name)
        fn = cls.__dict__[meth]
    except Exception as e:  # noqa: BLE001
        return None, f"cannot import {module}.{cls_name}: {err_name(e)}"
    rank = max(sp) + 1
    shape = [r.choice([1, 2, 3]) for _ in range(rank)]
    shape[coil] = r.choice([1, 2, 3, 4])
    img_shape = shape[:coil] + shape[coil + 1:]
    S = _ints(r, shape + [2], -4, 4)
    y = _ints(r, shape + [2], -4, 4)
    x = _ints(r, img_shape + [2], -4, 4)
    mshape = [1] * rank + [1]
    for a in sp:
        mshape[a] = shape[a]
    mshape[0] = shape[0]
    mask = (_ints(r, mshape, 0, 1) > 0)
    seen = []

    def rec_op(data, *a, **kw):
        seen.append(kw.get("dim", a[0] if a else None))
        return data.clone()
    me = _types.SimpleNamespace(forward_operator=rec_op, backward_operator=rec_op, **attrs)
    import inspect
    params = list(inspect.signature(fn).parameters)[1:]
    binding = {"image": x, "kspace": y, "sensitivity_map": S, "sampling_mask": mask}
    if not all(p in binding for p in params):
        return None, f"{cls_name}.{meth} has parameters {params} the scan does not know"
    zero = torch.tensor([0.0])
    try:
        got = fn(me, **{p: binding[p] for p in params})
    except Exception as e:  # noqa: BLE001
        return [("callsite/method-raises", f"{module}.{cls_name}.{meth} raises {err_name(e)}: {e}"[:200])], None
    if meth == "_forward_operator":
        ref = torch.where(mask == 0, zero, T.expand_operator(x, S, dim=coil))
    elif meth == "_backward_operator":
        ref = T.reduce_operator(torch.where(mask == 0, zero, y), S, dim=coil)
    else:
        ref = T.reduce_operator(y, S, dim=coil)
    bad = []
    if got.shape != ref.shape or not torch.equal(got, ref):
        bad.append(("callsite/method-mismatch", f"{module}.{cls_name}.{meth} differs from the composition of expand/reduce_operator over coil "
                                                f"axis {coil} (shape {shape})"))
    if not seen or any(tuple(d) != tuple(sp) for d in seen if d is not None) or any(d is None for d in seen):
        bad.append(("callsite/method-dims", f"{module}.{cls_name}.{meth} calls its Fourier operator with dim={seen}, the class declares {sp}"))
    # and with the real operators, against the composition written with the transforms
    me2 = _types.SimpleNamespace(forward_operator=T.fft2, backward_operator=T.ifft2, **attrs)
    try:
        got2 = fn(me2, **{p: binding[p] for p in params})
        if meth == "_forward_operator":
            ref2 = torch.where(mask == 0, zero, T.fft2(T.expand_operator(x, S, dim=coil), dim=tuple(sp)))
        elif meth == "_backward_operator":
            ref2 = T.reduce_operator(T.ifft2(torch.where(mask == 0, zero, y), dim=tuple(sp)), S, dim=coil)
        else:
            ref2 = T.reduce_operator(T.ifft2(y, dim=tuple(sp)), S, dim=coil)
        if got2.shape != ref2.shape or not torch.allclose(got2, ref2, atol=1e-4):
            bad.append(("callsite/method-mismatch", f"{module}.{cls_name}.{meth} with fft2/ifft2 differs from the reference composition"))
    except Exception as e:  # noqa: BLE001
        bad.append(("callsite/method-raises", f"{module}.{cls_name}.{meth} with fft2/ifft2 raises {err_name(e)}"[:200]))
    return bad, None


def _callsite_expr_case(T, rec, seed):
    """evaluate the scanned `complex_multiplication(…)` expression (operands replaced by tensors, the dim by its literal)
    against reduce_operator / expand_operator -> (failures | None when the dim is not a literal, note)"""
    import random

    r = random.Random(seed)
    d = _resolve_dim(rec["dim"], rec["attrs"])
    if d is None or d < 0:
        return None, None
    rank = max(d + 1, 3) + r.choice([0, 1])
    shape = [r.choice([1, 2, 3]) for _ in range(rank)]
    shape[d] = r.choice([2, 3, 4])
    S = _ints(r, shape + [2], -4, 4)
    cm, cj = T.complex_multiplication, T.conjugate
    if rec["kind"] == "reduce-like":
        y = _ints(r, shape + [2], -4, 4)
        got = (cm(cj(S), y) if rec["conj_index"] == 0 else cm(y, cj(S))).sum(d)
        ref = T.reduce_operator(y, S, dim=d)
    else:
        x = _ints(r, shape[:d] + shape[d + 1:] + [2], -4, 4)
        got = cm(x.unsqueeze(d), S) if rec["unsq_index"] == 0 else cm(S, x.unsqueeze(d))
        ref = T.expand_operator(x, S, dim=d)
    bad = []
    if got.shape != ref.shape or not torch.equal(got, ref):
        bad.append(("callsite/expression-mismatch", f"{rec['file']}:{rec['line']} `{rec['src']}` over axis {d} differs from "
                                                    f"{'reduce' if rec['kind'] == 'reduce-like' else 'expand'}_operator"))
    declared = rec["attrs"].get("_coil_dim", rec["attrs"].get("coil_dim"))
    if isinstance(declared, int) and declared != d:
        bad.append(("callsite/expression-dim", f"{rec['file']}:{rec['line']} `{rec['src']}` sums / expands over axis {d} but class "
                                               f"{rec['cls']} declares the coil axis {declared}"))
    return bad, None


# --------------------------------------------------------------------------------------------------
# inline re-implementations: the REAL source expression of every inline site of the translated table is evaluated with
# tensors bound to its operands and compared with reduce_operator / expand_operator / root_sum_of_squares
def _site_rows():
    from translate.recipes.c02 import scan_coil_sites
    try:
        rows = scan_coil_sites(_core.REPO)
    except Exception:  # noqa: BLE001  (unparsable file: the translator reports it; nothing to evaluate here)
        return []
    seen: dict[str, int] = {}
    for row in rows:                                     # ordinal among sites with the same description (stable within a tree)
        base = f"{row['file']}::{row['func']}::{row['kind']}::{row.get('conj', '')}{row.get('unsq', '')}|{row.get('other', '')[:40]}"
        row["ord"] = seen.get(base, 0)
        seen[base] = row["ord"] + 1
    return rows


_SENS_NAMES = ("sensitivity_map", "sample['sensitivity_map']", "data['sensitivity_map']")


def _site_id(row) -> str:
    return f"{row['file']}::{row['func']}::{row['kind']}::{row.get('conj', '')}{row.get('unsq', '')}|{row.get('other', '')[:40]}#{row.get('ord', 0)}"


def _guarded(family, ret):
    """a wrong shape / dtype / type of an implementation result IS the violation, never a tool failure: any exception that escapes
    from a case function (i.e. raised while comparing an implementation output with its reference) becomes a failure entry with
    the stable key `<family>/comparison-raises`; the case arguments (seed …) are the replay.
    `ret`: how the wrapped function returns — "bad" | "bad,bucket" | "bad,note"."""
    def deco(fn):
        @_functools.wraps(fn)
        def wrapped(*a, **kw):
            try:
                return fn(*a, **kw)
            except Exception as e:  # noqa: BLE001
                import traceback
                where = traceback.extract_tb(e.__traceback__)[-1]
                bad = [(f"{family}/comparison-raises", f"comparing an implementation result with its reference raises {err_name(e)}: {e} "
                                                       f"(wrong shape / dtype / type of a returned tensor)"[:300], f"{where.name}:{where.lineno}")]
                return bad if ret == "bad" else (bad, "comparison-raises") if ret == "bad,bucket" else (bad, None)
        return wrapped
    return deco


def _inner_safe(C, u, v):
    """<u, v> in float64 -> (complex | None, reason)"""
    if not isinstance(u, torch.Tensor) or not isinstance(v, torch.Tensor):
        return None, "not a tensor"
    if u.shape != v.shape:
        return None, f"shape {list(u.shape)} != {list(v.shape)}"
    try:
        return complex((C(u).conj() * C(v)).sum()), None
    except Exception as e:  # noqa: BLE001
        return None, f"{err_name(e)}: {e}"[:120]


def _adjoint_safe(C, Ex, y, x, Ry):
    """-> (ok, observed): exact adjointness, shape-safe (a result of the wrong shape is a failure with the shapes as observation)"""
    lhs, why1 = _inner_safe(C, Ex, y)
    rhs, why2 = _inner_safe(C, x, Ry)
    if lhs is None or rhs is None:
        return False, {"expand_result_vs_data": why1, "image_vs_reduce_result": why2}
    return lhs == rhs, [str(lhs), str(rhs)]


def _site_axis_case(T, row, r):
    """a call of reduce_operator / expand_operator / root_sum_of_squares whose axis argument is not the class's coil-dimension
    attribute / a `coil_dim` name: evaluate the written axis and show an input on which it differs from the declared coil axis"""
    d = row.get("dim")
    if d is None:
        written = 0
    elif isinstance(d, _ast.Name) or (isinstance(d, _ast.Attribute) and isinstance(d.value, _ast.Name) and d.value.id == "self"
                                      and d.attr in ("_coil_dim", "coil_dim")):
        return [], None                                 # the coil axis by name: nothing to evaluate
    else:
        attrs = dict(_literal_attrs(row["cls"])) if row.get("cls") is not None else {}
        if row["declared"] is not None:
            attrs["_coil_dim"] = attrs["coil_dim"] = row["declared"]
        try:
            written = eval(compile(_ast.Expression(d), "<dim>", "eval"), {"self": _types.SimpleNamespace(**attrs)})  # noqa: S307
        except Exception:  # noqa: BLE001
            return None, f"axis expression `{_ast.unparse(d)}` cannot be evaluated"
    coil = row["declared"]
    if coil is None or not isinstance(written, int):
        return None, "the class declares no literal coil axis"
    if written == coil:
        return [], None
    rank = max(coil, written if written >= 0 else 0) + 2
    shape = [r.choice([2, 3]) for _ in range(rank)]
    shape[coil] = 4
    S, y = _ints(r, shape + [2], -4, 4), _ints(r, shape + [2], -4, 4)
    fn = {"reduceCall": lambda ax: T.reduce_operator(y, S, dim=ax),
          "expandCall": lambda ax: T.expand_operator(y.select(coil, 0), S, dim=ax),
          "rssCall": lambda ax: T.root_sum_of_squares(S, dim=ax)}[row["kind"]]
    ref = fn(coil)
    try:
        got = fn(written)
        same = got.shape == ref.shape and torch.equal(got, ref)
        obs = list(got.shape)
    except Exception as e:  # noqa: BLE001
        same, obs = False, f"raises {err_name(e)}"
    if same:
        return [], None
    return [("callsite/axis-mismatch", f"{row['file']}:{row['line']} {row['func']}: `{_ast.unparse(row['node'])[:100]}` operates along axis "
                                        f"{written}, the class declares the coil axis {coil} (differs on a {shape} input)", obs)], None


@_guarded("callsite", "bad,note")
def _site_eval_case(T, row, seed):
    """-> (failures [(key, what, observed)] | None when the site cannot be evaluated, note)"""
    import random
    from translate.recipes.c02 import _arg, _summed_dim  # noqa: F401

    r = random.Random(seed)
    kind = row["kind"]
    if kind in ("reduceCall", "expandCall", "rssCall"):
        return _site_axis_case(T, row, r)
    if kind not in ("inlineReduce", "inlineExpand", "inlineRss"):
        return None, None
    call = row["node"]
    attrs = dict(_literal_attrs(row["cls"])) if row.get("cls") is not None else {}
    coil = row["declared"] if row["declared"] is not None else r.choice([0, 1])
    ns_attrs = {"_coil_dim": coil, "coil_dim": coil, "_complex_dim": -1, "complex_dim": -1}
    ns_attrs.update({k: v for k, v in attrs.items() if isinstance(v, int)})
    ns_attrs["_coil_dim"] = ns_attrs["coil_dim"] = coil
    rank = max(coil + 1, 2) + r.choice([1, 2])
    shape = [r.choice([1, 2, 3]) for _ in range(rank)]
    shape[coil] = r.choice([2, 3, 4])
    S = _ints(r, shape + [2], -4, 4)
    env = {"T": T, "torch": torch, "self": _types.SimpleNamespace(**ns_attrs), "coil_dim": coil, "complex_dim": -1,
           "complex_multiplication": T.complex_multiplication, "conjugate": T.conjugate}

    def ev(node):
        return eval(compile(_ast.Expression(_ast.fix_missing_locations(node)), f"<{row['file']}:{row['line']}>", "eval"), dict(env))  # noqa: S307

    import copy
    a = list(call.args) if kind != "inlineRss" else None
    try:
        if kind == "inlineReduce":
            i = row["conj_index"]
            conj_is_sens, other_is_sens = row["conj"] in _SENS_NAMES, row["other"] in _SENS_NAMES
            if conj_is_sens == other_is_sens:
                return None, "neither / both operands are named like the sensitivity map"
            y = _ints(r, shape + [2], -4, 4)
            env["__c"], env["__o"] = (S, y) if conj_is_sens else (y, S)
            node = copy.deepcopy(call)
            node.args[i].args[0] = _ast.Name("__c", _ast.Load())
            node.args[1 - i] = _ast.Name("__o", _ast.Load())
            dnode = copy.deepcopy(row["dim"])
            if dnode is None:
                return None, "the product is summed without an axis"
            got = ev(_ast.Call(_ast.Attribute(node, "sum", _ast.Load()), [dnode], []))
            ref = T.reduce_operator(y, S, dim=coil)
            what = f"`{_ast.unparse(call)[:110]}`.sum({_ast.unparse(dnode)}) differs from reduce_operator(data, sensitivity_map, {coil})"
        elif kind == "inlineExpand":
            i = row["unsq_index"]
            unsq_is_sens, other_is_sens = row["unsq"] in _SENS_NAMES, row["other"] in _SENS_NAMES
            if unsq_is_sens == other_is_sens:
                return None, "neither / both operands are named like the sensitivity map"
            x = _ints(r, shape[:coil] + shape[coil + 1:] + [2], -4, 4)
            env["__u"], env["__o"] = (S, x) if unsq_is_sens else (x, S)
            node = copy.deepcopy(call)
            node.args[i].func.value = _ast.Name("__u", _ast.Load())
            node.args[1 - i] = _ast.Name("__o", _ast.Load())
            got = ev(node)
            ref = T.expand_operator(x, S, dim=coil)
            what = f"`{_ast.unparse(call)[:110]}` differs from expand_operator(image, sensitivity_map, {coil})"
        else:
            env["__o"] = S
            node = copy.deepcopy(call)
            node.func.value.func.value.left = _ast.Name("__o", _ast.Load())
            got = ev(node)
            ref = (S.double() ** 2).sum(-1).sum(coil).float()
            what = f"`{_ast.unparse(call)[:110]}` differs from root_sum_of_squares(sensitivity_map, {coil})**2"
    except Exception as e:  # noqa: BLE001
        return [("callsite/inline-raises", f"{row['file']}:{row['line']} {row['func']}: evaluating the inline expression raises "
                                           f"{err_name(e)}: {e}"[:240], repr(e)[:160])], None
    if not isinstance(got, torch.Tensor) or got.shape != ref.shape or not torch.equal(got, ref):
        obs = list(got.shape) if isinstance(got, torch.Tensor) and got.shape != ref.shape else \
            (float((got - ref).abs().max()) if isinstance(got, torch.Tensor) else repr(got)[:80])
        return [("callsite/inline-mismatch", f"{row['file']}:{row['line']} {row['func']}: {what}", obs)], None
    return [], None


# --------------------------------------------------------------------------------------------------
# call histories on shared buffers, memory layouts, dtypes, aliasing
_DTYPES = {"f32": torch.float32, "f64": torch.float64, "f16": torch.float16, "i64": torch.int64}


@_guarded("history", "bad,bucket")
def _history_case(T, seed):
    """a short history of calls on the SAME tensors (refilled in place between rounds, as a training loop reuses buffers), in a
    random memory layout and dtype: every call must equal the native result for the values it was given, leave its arguments
    untouched, and return storage that neither aliases an argument nor is changed by later calls.
    -> (failures [(key, what, observed)], bucket)"""
    import random

    r = random.Random(seed)
    base = _cshape(r)
    base.pop(1)
    dim = r.randrange(len(base) + 1)
    c = r.choice([1, 2, 3, 4])
    ss = base[:dim] + [c] + base[dim:]
    dts = r.choice(["f32", "f32", "f64", "f16", "i64"])
    dt = _DTYPES[dts]
    lay = lambda t: _layout(r, t, ("contig", "perm", "strided", "offset"))[0]  # noqa: E731
    sS = list(ss)
    bc = r.random() < 0.3
    if bc:                                                  # sensitivity map with a singleton non-coil axis (broadcast)
        j = r.choice([k for k in range(len(ss)) if k != dim])
        sS[j] = 1
    S, x, y = (lay(_ints(r, sh + [2], -4, 4).to(dt)) for sh in (sS, base, ss))
    neg = r.random() < 0.4
    da = dim - (len(base) + 2) if neg else dim
    bad, kept = [], []
    C = lambda t: torch.view_as_complex(t.double().clone(memory_format=torch.contiguous_format))  # noqa: E731
    R = lambda z: torch.view_as_real(z)  # noqa: E731

    def val(t):
        return t.double() if isinstance(t, torch.Tensor) else torch.as_tensor(t)

    rounds = r.randint(2, 4)
    for k in range(rounds):
        if k:                                               # the caller refills the same buffers
            for t in (S, x, y):
                if r.random() < 0.7:
                    t.copy_(_ints(r, list(t.shape), -4, 4).to(dt))
        refs = {"expand_operator": R(C(S) * C(x).unsqueeze(dim)), "reduce_operator": R((C(S).conj() * C(y)).sum(dim)),
                "conjugate": R(C(S).conj().resolve_conj()), "complex_multiplication": R(C(S) * C(y)),
                "root_sum_of_squares": (S.double() ** 2).sum(-1).sum(dim),       # squared
                "complex_dot_product": R((C(y).conj() * C(y)).sum(dim))}
        calls = {"expand_operator": lambda: T.expand_operator(x, S, dim=da), "reduce_operator": lambda: T.reduce_operator(y, S, dim=da),
                 "conjugate": lambda: T.conjugate(S), "complex_multiplication": lambda: T.complex_multiplication(S, y),
                 "root_sum_of_squares": lambda: T.root_sum_of_squares(S, dim=(dim - (len(base) + 1) if neg else dim)),
                 "complex_dot_product": lambda: T.complex_dot_product(y, y, [da])}
        order = list(calls)
        r.shuffle(order)
        for name in order:
            snap = [t.clone() for t in (S, x, y)]
            try:
                out = calls[name]()
            except Exception as e:  # noqa: BLE001
                bad.append((f"history/raises:{name}", f"{name} raises {err_name(e)} on a valid input ({dts}, round {k})", repr(e)[:160]))
                continue
            if any(not _same(u, v) for u, v in zip((S, x, y), snap)):
                bad.append((f"history/modifies-input:{name}", f"{name} modifies one of its arguments in place", None))
                for u, v in zip((S, x, y), snap):
                    u.copy_(v)
            ref = refs[name]
            if not isinstance(out, torch.Tensor):
                bad.append((f"history/value:{name}", f"{name} returns {type(out).__name__}, not a tensor", None))
                continue
            o = val(out)
            if name == "root_sum_of_squares":
                ok = o.shape == ref.shape and bool(torch.all((o - ref.sqrt()).abs() <= (2e-3 if dts == "f16" else 1e-5) * ref.sqrt().clamp(min=1.0)))
            else:
                ok = o.shape == ref.shape and torch.equal(o, ref)
            if not ok:
                bad.append((f"history/value:{name}", f"{name} differs from native complex arithmetic in round {k} of a call history on "
                                                      f"shared buffers ({dts}, coil axis {da})",
                            float((o - (ref.sqrt() if name == 'root_sum_of_squares' else ref)).abs().max()) if o.shape == ref.shape else list(o.shape)))
            if dts != "i64" and out.dtype != dt:
                bad.append((f"history/dtype:{name}", f"{name} returns {out.dtype} for {dt} arguments", str(out.dtype)))
            kept.append((name, k, out, out.clone()))
        # exact adjointness in every round (inner products in float64)
        try:
            Ex_, Ry_ = T.expand_operator(x, S, dim=da), T.reduce_operator(y, S, dim=da)
        except Exception:  # noqa: BLE001  (already reported above as history/raises)
            Ex_ = Ry_ = None
        if Ex_ is not None:
            ok, obs = _adjoint_safe(C, Ex_, y, x, Ry_)
            if not ok:
                bad.append(("history/adjointness", f"<E x, y> != <x, R y> in round {k} ({dts}, coil axis {da})", obs))
    for name, k, out, clone in kept:                        # results of earlier calls are not overwritten by later ones
        if not _same(out, clone):
            bad.append((f"history/result-overwritten:{name}", f"the tensor returned by {name} in round {k} was changed by a later call", None))
    # aliasing: writing into a result must not change an argument
    for name, fn in (("conjugate", lambda: T.conjugate(S)), ("expand_operator", lambda: T.expand_operator(x, S, dim=da)),
                     ("reduce_operator", lambda: T.reduce_operator(y, S, dim=da)), ("complex_multiplication", lambda: T.complex_multiplication(S, y))):
        snap = [t.clone() for t in (S, x, y)]
        try:
            out = fn()
            out.zero_()
        except Exception:  # noqa: BLE001
            continue
        if any(not _same(u, v) for u, v in zip((S, x, y), snap)):
            bad.append((f"history/aliasing:{name}", f"the result of {name} shares storage with an argument (zeroing it changed the argument)", None))
            for u, v in zip((S, x, y), snap):
                u.copy_(v)
    return bad, f"{dts}/dim{dim}" + ("/negative-dim" if neg else "") + ("/sens-singleton" if bc else "")


@_guarded("alloc-history", "bad,bucket")
def _alloc_history_case(T, seed):
    """call histories in which the ARGUMENT OBJECTS change identity or content in ways a cache keyed on tensor identity / version
    counter cannot see: (a) a stream of >= 20 fresh sensitivity maps of one shape, each released before the next is allocated (the
    allocator hands out the same address again), (b) a map sharing its memory with a NumPy array that is rewritten through NumPy,
    (c) writes through `.data` / `set_` / `torch.from_numpy(t.numpy())` aliases, (d) `torch.empty` re-using freed storage.  After
    EVERY step reduce / expand / conjugate / complex_multiplication are compared with an independent native reference computed
    from the values the map holds at that moment, and adjointness is checked exactly.
    -> (failures [(key, what, observed)], bucket)"""
    import random

    r = random.Random(seed)
    base = _cshape(r)
    base.pop(1)
    dim = r.randrange(len(base) + 1)
    c = r.choice([2, 3, 4])
    ss = base[:dim] + [c] + base[dim:]
    dt = r.choice([torch.float32, torch.float32, torch.float64])
    mode = r.choice(["fresh-stream", "fresh-stream", "numpy-shared", "data-write", "empty-reuse", "alias-objects"])
    steps = r.randint(20, 28) if mode in ("fresh-stream", "empty-reuse") else r.randint(4, 8)
    neg = r.random() < 0.3
    da = dim - (len(base) + 2) if neg else dim
    C = lambda t: torch.view_as_complex(t.double().clone(memory_format=torch.contiguous_format))  # noqa: E731
    R = lambda z: torch.view_as_real(z)  # noqa: E731
    bad, reused, ptrs = [], 0, set()
    new_vals = lambda sh: _ints(r, sh + [2], -4, 4).to(dt)  # noqa: E731

    def check(step, S, x, y):
        vals = S.detach().clone()                      # what the map holds NOW (independent of the object's identity / version)
        refs = {"reduce_operator": R((C(vals).conj() * C(y)).sum(dim)), "expand_operator": R(C(vals) * C(x).unsqueeze(dim)),
                "conjugate": R(C(vals).conj().resolve_conj()), "complex_multiplication": R(C(vals) * C(y)),
                "complex_dot_product": R((C(vals).conj() * C(y)).sum(dim))}
        calls = {"reduce_operator": lambda: T.reduce_operator(y, S, dim=da), "expand_operator": lambda: T.expand_operator(x, S, dim=da),
                 "conjugate": lambda: T.conjugate(S), "complex_multiplication": lambda: T.complex_multiplication(S, y),
                 "complex_dot_product": lambda: T.complex_dot_product(S, y, [da])}
        outs = {}
        for name, fn in calls.items():
            try:
                o = fn()
            except Exception as e:  # noqa: BLE001
                bad.append((f"alloc-history/raises:{name}", f"{name} raises {err_name(e)} at step {step} of a `{mode}` history", repr(e)[:160]))
                continue
            if not isinstance(o, torch.Tensor):
                bad.append((f"alloc-history/value:{name}", f"{name} returns {type(o).__name__}, not a tensor", None))
                continue
            outs[name] = o
            if o.shape != refs[name].shape or not torch.equal(o.double(), refs[name]):
                bad.append((f"alloc-history/value:{name}", f"{name} differs from native complex arithmetic at step {step} of a `{mode}` call "
                                                            f"history (maps of one shape {ss}; the result belongs to an EARLIER map)",
                            float((o.double() - refs[name]).abs().max()) if o.shape == refs[name].shape else list(o.shape)))
        if "reduce_operator" in outs and "expand_operator" in outs:
            ok, obs = _adjoint_safe(C, outs["expand_operator"], y, x, outs["reduce_operator"])
            if not ok:
                bad.append(("alloc-history/adjointness", f"<E x, y> != <x, R y> at step {step} of a `{mode}` call history (coil axis {da})", obs))

    S = keep = arr = None
    for step in range(steps):
        x, y = new_vals(base), new_vals(ss)
        if mode == "fresh-stream":
            del S                                       # release the previous map, then draw a new one of the same shape
            S = new_vals(ss)
        elif mode == "empty-reuse":
            del S
            S = torch.empty(ss + [2], dtype=dt)         # typically the storage just freed
            S.copy_(new_vals(ss))
        elif mode == "numpy-shared":
            if step == 0:
                arr = new_vals(ss).numpy().copy()
                S = torch.from_numpy(arr)
            else:
                arr[...] = new_vals(ss).numpy()          # rewritten through NumPy: no version bump
        elif mode == "data-write":
            if step == 0:
                S = new_vals(ss)
            elif step % 2:
                S.data.copy_(new_vals(ss))               # `.data` has its own version counter
            else:
                S.data = new_vals(ss)                    # the same object now points at other storage
        else:                                           # alias-objects: new tensor objects over the same memory
            if step == 0:
                keep = new_vals(ss)
                S = keep
            else:
                keep.numpy()[...] = new_vals(ss).numpy()
                S = r.choice([lambda: torch.from_numpy(keep.numpy()), lambda: torch.empty(0, dtype=dt).set_(keep.untyped_storage(), 0, keep.shape, keep.stride()),
                              lambda: keep.detach(), lambda: keep.view(keep.shape)])()
        p = S.data_ptr()
        reused += p in ptrs
        ptrs.add(p)
        check(step, S, x, y)
        del x, y
    return bad, mode + ("/address-reused" if reused else "") + ("/f64" if dt == torch.float64 else "")


@_guarded("size-ladder", "bad")
def _ladder_case(T, axis_kind, size, seed):
    """one size of the ladder on one kind of axis ("coil" | "batch" | "spatial" | "mm-inner" | "mm-rows" | "bmm-batch"), everything else
    tiny: definitions against native complex arithmetic, exact adjointness, R(E x) = rss^2 x, rss, dot product, matrix products
    -> failures [(key, what, observed)]"""
    import random

    r = random.Random(seed)
    C = lambda t: torch.view_as_complex(t.double().clone(memory_format=torch.contiguous_format))  # noqa: E731
    R = lambda z: torch.view_as_real(z)  # noqa: E731
    bad = []

    def chk(name, thunk, ref):
        try:
            got = thunk()
            ok = got.shape == ref.shape and torch.equal(got.double(), ref)
            obs = float((got.double() - ref).abs().max()) if got.shape == ref.shape else f"shape {list(got.shape)} != {list(ref.shape)}"
        except Exception as e:  # noqa: BLE001
            got, ok, obs = None, False, f"raises {err_name(e)}: {e}"[:160]
        if not ok:
            bad.append((f"size-ladder/{name}", f"{name} differs from native complex arithmetic for {axis_kind} size {size} (other axes tiny)", obs))
        return got

    if axis_kind in ("mm-inner", "mm-rows", "bmm-batch"):
        nn, m, p, bb = (size if axis_kind == "mm-rows" else 2), (size if axis_kind == "mm-inner" else 3), 2, (size if axis_kind == "bmm-batch" else 1)
        A, B = _ints(r, [bb, nn, m, 2], -3, 3), _ints(r, [bb, m, p, 2], -3, 3)
        cA, cB = torch.view_as_complex(A), torch.view_as_complex(B)
        if axis_kind == "bmm-batch":
            chk("complex_bmm", lambda: R(T.complex_bmm(cA, cB)), R(C(A) @ C(B)))
        else:
            chk("complex_mm", lambda: R(T.complex_mm(cA[0], cB[0])), R(C(A)[0] @ C(B)[0]))
        return bad
    rank = r.choice([2, 3])
    base = [r.choice([1, 2]) for _ in range(rank)]
    c = r.choice([2, 3])
    if axis_kind == "coil":
        c = size
    elif axis_kind == "batch":
        base = [size] + [1] * (rank - 1)
    else:
        base = [1] * rank
        base[r.randrange(1, rank)] = size
    dim = r.randrange(rank + 1)
    ss = base[:dim] + [c] + base[dim:]
    S, x, y = _ints(r, ss + [2], -3, 3), _ints(r, base + [2], -3, 3), _ints(r, ss + [2], -3, 3)
    neg = r.random() < 0.3
    da = dim - (rank + 2) if neg else dim
    Ex = chk("expand_operator", lambda: T.expand_operator(x, S, dim=da), R(C(S) * C(x).unsqueeze(dim)))
    Ry = chk("reduce_operator", lambda: T.reduce_operator(y, S, dim=da), R((C(S).conj() * C(y)).sum(dim)))
    if Ex is not None and Ry is not None:
        ok, obs = _adjoint_safe(C, Ex, y, x, Ry)
        if not ok:
            bad.append(("size-ladder/adjointness", f"<E x, y> != <x, R y> for {axis_kind} size {size} (coil axis {da})", obs))
    if Ex is not None and Ry is not None and Ex.shape == y.shape and Ry.shape == x.shape:
        rss2 = (S.double() ** 2).sum(-1).sum(dim)
        chk("reduce∘expand", lambda: T.reduce_operator(Ex, S, dim=da), rss2.unsqueeze(-1) * x.double())
    long_ax = dim if axis_kind == "coil" else ss.index(size)
    chk("complex_dot_product", lambda: T.complex_dot_product(S, y, [long_ax]), R((C(S).conj() * C(y)).sum(long_ax)))
    chk("complex_dot_product", lambda: T.complex_dot_product(S, y, list(range(rank + 1))), R((C(S).conj() * C(y)).sum()))
    try:
        g = T.root_sum_of_squares(S, dim=long_ax).double()
        ref = (S.double() ** 2).sum(-1).sum(long_ax)
        if g.shape != ref.shape or not bool(torch.all((g - ref.sqrt()).abs() <= 1e-5 * ref.sqrt().clamp(min=1.0))):
            bad.append(("size-ladder/root_sum_of_squares", f"root_sum_of_squares differs from sqrt(sum |S_i|^2) for {axis_kind} size {size}", None))
    except Exception as e:  # noqa: BLE001
        bad.append(("size-ladder/root_sum_of_squares", f"root_sum_of_squares raises {err_name(e)} for {axis_kind} size {size}", repr(e)[:160]))
    chk("complex_multiplication", lambda: T.complex_multiplication(S, y), R(C(S) * C(y)))
    chk("conjugate", lambda: T.conjugate(S), R(C(S).conj().resolve_conj()))
    b = torch.tensor([r.choice(DYADIC + [(0, 0)]) for _ in range(_prod(ss))], dtype=torch.float32).reshape(ss + [2])
    zb = (b[..., 0] == 0) & (b[..., 1] == 0)
    chk("complex_division", lambda: T.complex_division(y, b),
        R(torch.where(zb, torch.zeros_like(C(y)), C(y) / torch.where(zb, torch.ones_like(C(b)), C(b)))))
    return bad


def _safe_divide_case(T, seed):
    """one random case of safe_divide (everything derived from `seed`) -> (failures, bucket)"""
    import random

    r = random.Random(seed)
    dt = r.choice([torch.float32, torch.float32, torch.float64])
    sa = _cshape(r, with_slice=False)
    mode = r.choice(["same", "bcast1", "drop-lead", "scalar-divisor"])
    sb = list(sa)
    if mode == "bcast1":
        sb[r.randrange(len(sb))] = 1
    elif mode == "drop-lead":
        sb = sb[r.randint(1, len(sb) - 1):]
    elif mode == "scalar-divisor":
        sb = [1]
    g = torch.Generator().manual_seed(r.randrange(2 ** 31))
    a = (torch.randn(tuple(sa), generator=g) * 5).to(dt)
    a[a == 0] = 1.0
    special = r.choice(["plain", "huge-numerator", "inf-numerator"])
    if special == "huge-numerator":
        a = a * (1e30 if dt == torch.float32 else 1e300)
    elif special == "inf-numerator":
        a.view(-1)[0] = float("inf")
    b = (torch.randn(tuple(sb), generator=g) * 3).to(dt)
    zero = torch.rand(tuple(sb), generator=g) < 0.35
    if r.random() < 0.1:
        zero[...] = True
    b[zero] = 0.0
    b[zero & (torch.rand(tuple(sb), generator=g) < 0.5)] = -0.0
    a0, b0 = a.clone(), b.clone()
    bad = []
    try:
        q = T.safe_divide(a, b)
    except Exception as e:  # noqa: BLE001
        return [("safe_divide-raises", f"safe_divide raises {err_name(e)} on broadcastable operands", repr(e)[:160])], mode
    zb = torch.broadcast_to(b == 0, q.shape) if q.shape == torch.broadcast_shapes(tuple(sa), tuple(sb)) else None
    if zb is None:
        return [("safe_divide-shape", "safe_divide does not broadcast like `/`", list(q.shape))], mode
    if not bool(torch.all(q[zb] == 0)):
        bad.append(("safe_divide-zero-divisor", "safe_divide does not return 0 where the divisor is 0 (non-zero numerator)",
                    {"numerators": torch.broadcast_to(a, q.shape)[zb].tolist()[:4], "observed": q[zb].tolist()[:4]}))
    ref = torch.broadcast_to(a, q.shape)[~zb] / torch.broadcast_to(b, q.shape)[~zb]
    if not torch.equal(q[~zb], ref):
        bad.append(("safe_divide-quotient", "safe_divide differs from input / other where the divisor is non-zero", None))
    if q.dtype != dt:
        bad.append(("safe_divide-dtype", f"safe_divide returns {q.dtype} for {dt} operands", str(q.dtype)))
    same = lambda u, v: bool(torch.all((u == v) | (torch.isnan(u) & torch.isnan(v))))  # noqa: E731
    if not same(a, a0) or not same(b, b0) or q.data_ptr() in (a.data_ptr(), b.data_ptr()):
        bad.append(("safe_divide-modifies-input", "safe_divide modifies or aliases one of its operands", None))
    return bad, mode + "/" + special + ("/float64" if dt == torch.float64 else "")


# --------------------------------------------------------------------------------------------------
# mixed-magnitude exact probes.  Entries are m·2^e (m in -3..3, e from MIX_EXPS, real and imaginary parts at different
# scales).  A case is accepted only when, for EVERY output component, the terms t_k of the textbook formula (the products
# re·re, im·im, re·im, im·re that are summed into it) satisfy  Σ|t_k| < 2^(q+24)  with q the least 2-adic valuation of the
# non-zero t_k, and Σ|t_k| <= max float32: then every product and every partial sum in any order / grouping is a float32
# number, so the textbook float32 computation is exact and the exact complex result must come back bit for bit.
MIX_EXPS = (0, 0, 1, 24, 27, 30, 45, 60)
MIX_HELPERS = ("complex_multiplication", "complex_dot_product", "complex_mm", "complex_bmm", "expand_operator", "reduce_operator",
               "conjugate", "complex_division", "modulus")
_F32_MAX_INT = (1 << 128) - (1 << 104)


def _mix_operand(r, shape, kind, e1, e2):
    n = _prod(shape)
    re, im = [], []
    for _ in range(n):
        m1, m2 = r.choice([0, 1, -1, 2, -2, 3, -3, 1, -3]), r.choice([0, 1, -1, 2, -2, 3, -3, 1, 3])
        k = kind if kind != "pure" else r.choice(["real", "imag"])
        if k == "real":
            m2 = 0
        elif k == "imag":
            m1 = 0
        re.append(m1 * (1 << e1))
        im.append(m2 * (1 << e2))
    O = lambda v: np.array(v, dtype=object).reshape(shape)  # noqa: E731
    t = torch.tensor([[float(a), float(b)] for a, b in zip(re, im)], dtype=torch.float32).reshape(list(shape) + [2])
    return t, O(re), O(im)


def _mix_terms_mul(ar, ai, br, bi, conj_a=False):
    """term arrays (new last axis) of a·b (or conj(a)·b) under numpy broadcasting -> (re terms, im terms)"""
    if conj_a:
        return np.stack(np.broadcast_arrays(ar * br, ai * bi), -1), np.stack(np.broadcast_arrays(ar * bi, -(ai * br)), -1)
    return np.stack(np.broadcast_arrays(ar * br, -(ai * bi)), -1), np.stack(np.broadcast_arrays(ar * bi, ai * br), -1)


def _mix_fold(terms, axis):
    """move a summed axis into the term axis"""
    t = np.moveaxis(terms, axis, -2)
    return t.reshape(t.shape[:-2] + (t.shape[-2] * t.shape[-1],))


def _mix_exact(terms):
    """-> exact sums (object ints) when every component passes the exactness criterion, else None"""
    flat = terms.reshape(-1, terms.shape[-1])
    out = []
    for row in flat:
        nz = [abs(int(t)) for t in row if t]
        tot = sum(nz)
        if nz:
            q = min((t & -t).bit_length() - 1 for t in nz)
            if tot >= (1 << (q + 24)) or tot > _F32_MAX_INT:
                return None
        out.append(sum(int(t) for t in row))
    return np.array(out, dtype=object).reshape(terms.shape[:-1])


def _mix_case(seed):
    """one accepted mixed-magnitude case derived from `seed` -> dict(helper, args, kw, line, expect (flat ints, interleaved
    re/im), shape, bucket) — rejection sampling inside, deterministic"""
    import random

    r = random.Random(seed)
    helper = MIX_HELPERS[seed % len(MIX_HELPERS)]
    for attempt in range(60):
        e1, e2 = r.choice(MIX_EXPS), r.choice(MIX_EXPS)
        kb = r.choice(["real", "imag", "pure", "both"]) if attempt < 40 else "real"
        f1, f2 = r.choice(MIX_EXPS), r.choice(MIX_EXPS)
        if kb == "both" and r.random() < 0.7:
            f2 = f1
        huge = r.random() < 0.15
        if huge:
            e1 = e2 = r.choice([100, 120, 125])
            f1 = f2 = 0
        swap = r.random() < 0.5
        dim = None
        if helper in ("complex_multiplication", "conjugate", "modulus", "complex_division"):
            sh = [r.randint(1, 3), r.randint(1, 3)]
            a, ar, ai = _mix_operand(r, sh, "both", e1, e2)
            if helper == "conjugate":
                tre, tim, args, ln = np.stack([ar], -1), np.stack([-ai], -1), (a,), ("conj", a)
            elif helper == "modulus":
                if huge:
                    continue
                # perfect squares only: (3,4)·2^e, (m,0), (0,m)
                tre, tim, args, ln = np.stack([ar * ar, ai * ai], -1), None, (a,), None
            elif helper == "complex_division":
                if huge:
                    continue
                b = torch.zeros(sh + [2])
                br, bi = np.zeros(sh, dtype=object), np.zeros(sh, dtype=object)
                for idx in itertools.product(*map(range, sh)):
                    v = r.choice([1, -1]) * (1 << r.choice([0, 1, 2, 12, 24, 30]))
                    if r.random() < 0.5:
                        b[idx][0], br[idx] = float(v), v
                    else:
                        b[idx][1], bi[idx] = float(v), v
                nre, nim = _mix_terms_mul(br, bi, ar, ai, conj_a=True)
                den = br * br + bi * bi
                xr, xi = _mix_exact(nre), _mix_exact(nim)
                if xr is None or xi is None:
                    continue
                fr = [Fraction(int(v), int(d)) for pr in zip(zip(xr.reshape(-1), den.reshape(-1)), zip(xi.reshape(-1), den.reshape(-1))) for v, d in pr]
                return {"helper": helper, "args": (a, b), "kw": {}, "line": ("cdiv", a, b), "expect": fr, "shape": sh + [2],
                        "bucket": "cdiv/pow2-divisor"}
            else:
                sb = list(sh)
                if r.random() < 0.3:
                    sb[r.randrange(2)] = 1
                b, br, bi = _mix_operand(r, sb, kb, f1, f2)
                if swap:
                    tre, tim = _mix_terms_mul(br, bi, ar, ai)
                    args, ln = (b, a), ("cmul", b, a)
                else:
                    tre, tim = _mix_terms_mul(ar, ai, br, bi)
                    args, ln = (a, b), ("cmul", a, b)
        elif helper == "complex_dot_product":
            sh = [r.randint(1, 3), r.randint(1, 3)]
            dim = r.randrange(2)
            a, ar, ai = _mix_operand(r, sh, "both", e1, e2)
            b, br, bi = _mix_operand(r, sh, kb, f1, f2)
            if swap:
                a, ar, ai, b, br, bi = b, br, bi, a, ar, ai
            tre, tim = _mix_terms_mul(ar, ai, br, bi, conj_a=True)
            tre, tim = _mix_fold(tre, dim), _mix_fold(tim, dim)
            args, ln = (a, b, [dim]), ("cdot", a, b, [dim])
        elif helper in ("complex_mm", "complex_bmm"):
            lead = [r.randint(1, 2)] if helper == "complex_bmm" else []
            n_, m_, p_ = r.randint(1, 3), r.randint(1, 3), r.randint(1, 3)
            a, ar, ai = _mix_operand(r, lead + [n_, m_], "both", e1, e2)
            b, br, bi = _mix_operand(r, lead + [m_, p_], kb, f1, f2)
            if swap:          # the mixed operand on the right
                a, ar, ai = _mix_operand(r, lead + [n_, m_], kb, f1, f2)
                b, br, bi = _mix_operand(r, lead + [m_, p_], "both", e1, e2)
            tre, tim = _mix_terms_mul(ar[..., :, :, None], ai[..., :, :, None], br[..., None, :, :], bi[..., None, :, :])
            tre, tim = _mix_fold(tre, len(lead) + 1), _mix_fold(tim, len(lead) + 1)
            args, ln = (a, b), ("bmm" if lead else "mm", a, b)
        else:                 # expand / reduce, coil axis 0 or 1
            base = [r.randint(1, 2), r.randint(1, 3)]
            dim = r.randrange(2)
            c = r.randint(1, 3)
            ss = base[:dim] + [c] + base[dim:]
            S, Sr, Si = _mix_operand(r, ss, kb if not swap else "both", *((f1, f2) if not swap else (e1, e2)))
            if helper == "expand_operator":
                x, xr, xi = _mix_operand(r, base, "both" if not swap else kb, *((e1, e2) if not swap else (f1, f2)))
                tre, tim = _mix_terms_mul(Sr, Si, np.expand_dims(xr, dim), np.expand_dims(xi, dim))
                args, ln = (x, S), ("expand", x, S, [dim])
            else:
                y, yr, yi = _mix_operand(r, ss, "both" if not swap else kb, *((e1, e2) if not swap else (f1, f2)))
                tre, tim = _mix_terms_mul(Sr, Si, yr, yi, conj_a=True)
                tre, tim = _mix_fold(tre, dim), _mix_fold(tim, dim)
                args, ln = (y, S), ("reduce", y, S, [dim])
        xr = _mix_exact(tre)
        xi = _mix_exact(tim) if tim is not None else None
        if xr is None or (tim is not None and xi is None):
            continue
        if helper == "modulus":
            roots = [math.isqrt(int(v)) for v in xr.reshape(-1)]
            if any(q * q != int(v) or q >= (1 << 24) and (q & -q) * (1 << 24) <= q for q, v in zip(roots, xr.reshape(-1))):
                continue
            return {"helper": helper, "args": args, "kw": {}, "line": None, "expect": [Fraction(q) for q in roots], "shape": list(xr.shape),
                    "bucket": "modulus/perfect-square"}
        expect = [Fraction(int(v)) for pr in zip(xr.reshape(-1), xi.reshape(-1)) for v in pr]
        return {"helper": helper, "args": args, "kw": {"dim": dim} if helper in ("expand_operator", "reduce_operator") else {},
                "line": ln, "expect": expect, "shape": list(xr.shape) + [2],
                "bucket": ln[0] + ("/huge" if huge else f"/second-operand-{kb}")}
    return None


def _mix_run(T, spec):
    h, args = spec["helper"], spec["args"]
    if h in ("complex_mm", "complex_bmm"):
        return torch.view_as_real(getattr(T, h)(_c(args[0]), _c(args[1])))
    return getattr(T, h)(*args, **spec["kw"])


def _mix_check(T, seed):
    """-> (failures [(key, what, observed)], bucket | None)"""
    spec = _mix_case(seed)
    if spec is None:
        return [], None
    h = spec["helper"]
    try:
        got = _mix_run(T, spec)
        vals = got.reshape(-1).tolist()
        ok = list(got.shape) == spec["shape"] and all(math.isfinite(v) for v in vals) and \
            [Fraction(v) for v in vals] == spec["expect"]
        obs = [float(v) for v in vals[:8]]
    except Exception as e:  # noqa: BLE001
        ok, obs = False, f"raises {err_name(e)}: {e}"[:160]
    if ok:
        return [], spec["bucket"]
    exp = [float(v) for v in spec["expect"][:8]]
    ins = " , ".join(str(a.reshape(-1).tolist()[:8]) for a in spec["args"] if torch.is_tensor(a))
    return [(f"native-mismatch:{h}", f"{h} differs from exact complex arithmetic although every product and partial sum of the "
             f"four-product formula is exactly representable in float32: got {obs}, exact {exp} (inputs {ins})", obs)], spec["bucket"]


def _native_case(T, seed):
    """one random float case (everything derived from `seed`) -> (failures [(key, what, observed)], nontrivial, bucket)"""
    import random

    r = random.Random(seed)
    sa = _cshape(r)
    rank = len(sa)
    g = torch.Generator().manual_seed(r.randrange(2 ** 31))
    a = torch.randn(tuple(sa) + (2,), generator=g) * 3
    mode = r.choice(["same", "same", "bcast1", "drop-lead"])
    sb = list(sa)
    if mode == "bcast1":
        sb[r.randrange(rank)] = 1
    elif mode == "drop-lead":
        sb = sb[r.randint(1, rank - 1):]
    b = torch.randn(tuple(sb) + (2,), generator=g) * 3
    zero = torch.rand(tuple(sb), generator=g) < 0.2
    b[zero] = 0.0
    ca, cb = _c(a), _c(b)
    neg = r.random() < 0.5
    bad = []

    def chk(key, thunk, ref, tol=1e-4):
        try:
            got = thunk()
            ok = got.shape == ref.shape and torch.allclose(got, ref, rtol=tol, atol=tol)
            obs = float((got - ref).abs().max()) if got.shape == ref.shape else f"shape {list(got.shape)} != {list(ref.shape)}"
        except Exception as e:  # noqa: BLE001
            got, ok, obs = None, False, f"raises {err_name(e)}: {e}"[:160]
        if not ok:
            bad.append((key, f"{key.split('-')[0]} differs from native complex arithmetic", obs))
        return got

    chk("cmul-native/" + mode, lambda: T.complex_multiplication(a, b), torch.view_as_real(ca * cb))
    chk("cmul-native/" + mode, lambda: T.complex_multiplication(b, a), torch.view_as_real(cb * ca))
    chk("conj-native", lambda: T.conjugate(a), torch.view_as_real(ca.conj().resolve_conj()))
    # division: zero where the divisor is zero, the quotient elsewhere
    zb = torch.broadcast_to(zero, ca.shape) if mode != "same" else zero
    cbb = torch.broadcast_to(cb, ca.shape)
    refq = torch.view_as_real(torch.where(zb, torch.zeros_like(ca), ca / torch.where(zb, torch.ones_like(cbb), cbb)))
    q = chk("cdiv-native/" + mode, lambda: T.complex_division(a, b), refq)
    if q is not None and q.shape == refq.shape and (not bool(torch.all(q[zb] == 0)) or bool(torch.isnan(q).any())):
        bad.append(("cdiv-zero-divisor", "complex_division does not give exactly 0 where the divisor is 0", q[zb].tolist()[:4]))
    # modulus with the pair axis at position k of the tensor (positive or negative index)
    k = r.randrange(rank + 1)
    am = a.movedim(-1, k).contiguous()
    ka = k - (rank + 1) if neg else k
    chk("modulus-native" + ("/negative-axis" if neg else ""), lambda: T.modulus(am, complex_axis=ka), ca.abs())
    # dot product over a list of axes (same-shape operands)
    b2 = torch.randn(tuple(sa) + (2,), generator=g)
    dims = sorted(r.sample(range(rank), r.randint(1, rank)))
    dpass = [d - (rank + 1) for d in dims] if neg else list(dims)
    chk("cdot-native" + ("/negative-axis" if neg else ""), lambda: T.complex_dot_product(a, b2, dpass),
        torch.view_as_real((ca.conj() * _c(b2)).sum(tuple(dims))), tol=1e-3)
    # root_sum_of_squares: complex data (axis of the tensor without the pair axis) and real data
    d = r.randrange(rank)
    chk("rss-native" + ("/negative-axis" if neg else ""), lambda: T.root_sum_of_squares(a, dim=d - rank if neg else d),
        (ca.abs() ** 2).sum(d).sqrt())
    real = torch.randn(tuple(sa[:-1]) + (r.choice([1, 3]),), generator=g)
    d2 = r.randrange(rank)
    chk("rss-native/real-data" + ("/negative-axis" if neg else ""), lambda: T.root_sum_of_squares(real, dim=d2 - rank if neg else d2),
        (real ** 2).sum(d2).sqrt())
    # the rarely used `complex_dim` option (data whose last axis has length 2 counts as complex; the squares are summed over
    # `complex_dim` first, then over `dim` of what remains) — as documented
    cd, dd = r.randrange(rank), r.randrange(rank)
    chk("rss-native/complex_dim-option", lambda: T.root_sum_of_squares(a, dim=dd, complex_dim=cd), (a ** 2).sum(cd).sum(dd).sqrt())
    chk("rss-native/complex_dim-option", lambda: T.root_sum_of_squares(a, dim=d, complex_dim=rank), (ca.abs() ** 2).sum(d).sqrt())
    # matrix products
    bb, n, m, p = r.randint(1, 3), r.randint(1, 4), r.randint(1, 4), r.randint(1, 4)
    A, B = torch.randn(bb, n, m, 2, generator=g), torch.randn(bb, m, p, 2, generator=g)
    chk("mm-native", lambda: torch.view_as_real(T.complex_mm(_c(A[0]), _c(B[0]))), torch.view_as_real(_c(A[0]) @ _c(B[0])))
    chk("bmm-native", lambda: torch.view_as_real(T.complex_bmm(_c(A), _c(B))), torch.view_as_real(_c(A) @ _c(B)))
    return bad, _prod(sa) > 1, mode + ("/negative-axes" if neg else "/positive-axes")


def oracle(ctx: Ctx, deep: bool = False):
    """The property stated directly on the implementation."""
    import direct.data.transforms as T

    rng = ctx.rng
    big = deep or ctx.thorough
    # (1) helpers vs native complex arithmetic on random float data (tolerance), in every argument form the correspondence
    #     generates: broadcasting operands, axis lists for the dot product, positive and negative axes, the pair axis of
    #     `modulus` anywhere, complex and real input of root_sum_of_squares, (batched) matrix shapes ------------------------
    for _ in range(ctx.budget(120, 1200) * (3 if deep else 1)):
        seed = rng.randrange(2 ** 31)
        bad, nt, bucket = _native_case(T, seed)
        ctx.count(("native", seed), nt, bucket="oracle/native-float/" + bucket)
        for key, what, obs in bad:
            yield Violation(key, what, {"op": "native", "law": key, "seed": seed, "observed": obs})
    # exact: division by zero gives 0 for every numerator class (incl. huge), and a non-complex input to complex_mm is rejected
    for num in ([1.0, 2.0], [0.0, 0.0], [-3e30, 1e-30], [3e38, -3e38]):
        ctx.count(("div0", tuple(num)), True, bucket="oracle/div-by-zero")
        q = T.complex_division(torch.tensor([num]), torch.tensor([[0.0, -0.0]]))
        if not torch.equal(q, torch.zeros(1, 2)):
            yield Violation("cdiv-zero-divisor", "complex_division does not give exactly 0 where the divisor is 0",
                            {"op": "cdiv-zero", "a": num, "observed": q.tolist()})
    ctx.count(("mm-real",), True, bucket="oracle/mm-rejects-real")
    try:
        T.complex_mm(torch.zeros(2, 2), torch.zeros(2, 2))
        yield Violation("mm-accepts-real", "complex_mm accepts non-complex tensors", {"op": "mm-real"})
    except ValueError:
        pass
    # (1b) safe_divide, stated directly: 0 (exactly, also for non-zero / huge / infinite numerators and for -0.0 divisors) where
    #      the divisor is 0, input / other elsewhere (bit-exact), broadcasting like `/`, dtype preserved, inputs untouched
    for _ in range(ctx.budget(60, 600) * (3 if deep else 1)):
        seed = rng.randrange(2 ** 31)
        bad, bucket = _safe_divide_case(T, seed)
        ctx.count(("safe_divide", seed), True, bucket="oracle/safe_divide/" + bucket)
        for key, what, obs in bad:
            yield Violation(key, what, {"op": "safe-divide", "seed": seed, "law": key, "observed": obs})
    # (1c) the remaining named helpers that are otherwise only reached through composites
    for _ in range(ctx.budget(20, 200)):
        sa = _cshape(rng, with_slice=False)
        g = torch.Generator().manual_seed(rng.randrange(2 ** 31))
        a = torch.randn(tuple(sa) + (2,), generator=g)
        real = torch.randn(tuple(sa) + (3,), generator=g)
        ctx.count(("misc-helpers", tuple(sa)), True, bucket="oracle/modulus_if_complex+tensor_to_complex_numpy")
        try:
            ok1 = torch.allclose(T.modulus_if_complex(a), _c(a).abs(), atol=1e-5)
            r = T.modulus_if_complex(real)
            ok2 = r.shape == real.shape and torch.equal(r, real)
            z = T.tensor_to_complex_numpy(a)
            ok3 = z.shape == tuple(sa) and np.array_equal(z, _c(a).numpy())
            obs = None
        except Exception as e:  # noqa: BLE001
            ok1 = ok2 = ok3 = False
            obs = f"raises {err_name(e)}"
        if not ok1 or not ok2:
            yield Violation("modulus_if_complex-definition", "modulus_if_complex is not |z| on complex data / the identity on other data",
                            {"op": "misc", "shape": sa, "observed": obs})
        if not ok3:
            yield Violation("tensor_to_complex_numpy-definition", "tensor_to_complex_numpy differs from re + i·im",
                            {"op": "misc", "shape": sa, "observed": obs})
    # (2) coil operators: definitions, exact adjointness, linearity, R∘E = id — every coil-axis position -------------
    fams = ["onehot", "half", "normalised"]
    k = 0
    for _ in range(ctx.budget(40, 300) * (3 if deep else 1)):
        base = _cshape(rng)
        base.pop(1)
        for dim in range(len(base) + 1):
            fam = fams[k % 3]
            k += 1
            c = 4 if fam == "half" else rng.choice([1, 2, 3, 4])
            seed = rng.randrange(2 ** 31)
            for neg in (False, True):
                ctx.count(("coil", tuple(base), dim, c, seed, neg), c >= 2,
                          bucket=f"oracle/coil/r{len(base)}/dim{dim}/{fam}" + ("/c=1" if c == 1 else "") + ("/negative-dim" if neg else ""))
                for key, what, obs in _coil_case(T, base, dim, c, seed, fam, neg):
                    yield Violation(key, what, {"op": "coil", "base": base, "dim": dim, "coils": c, "seed": seed, "family": fam,
                                                "neg": neg, "law": key, "observed": obs})
    # (2b) call sites under direct/nn (+ mri_transforms, engine): helper methods and inline re-implementations of S·x and
    #      Σ conj(S)·y, found by an AST scan of the current tree
    methods, exprs = _callsite_scan()
    unresolved = []
    for (module, cls_name, meth, attrs, rel, lineno) in methods:
        for rep in range(ctx.budget(2, 10)):
            seed = rng.randrange(2 ** 31)
            bad, note = _callsite_method_case(T, module, cls_name, meth, attrs, seed)
            if bad is None:
                unresolved.append(f"{rel}:{lineno} {cls_name}.{meth}: {note}")
                break
            ctx.count(("callsite-method", module, cls_name, meth, seed), True, bucket=f"oracle/callsite-method/{cls_name}.{meth}")
            for key, what in bad:
                yield Violation(key, what, {"op": "callsite-method", "module": module, "class": cls_name, "method": meth,
                                            "attrs": list(attrs), "seed": seed, "law": key})
    # (2c) the same on call histories with shared (refilled) buffers, non-contiguous layouts, float64 / float16 / int64 data,
    #      singleton-broadcast sensitivity maps; arguments untouched, results fresh
    for _ in range(ctx.budget(60, 600) * (3 if deep else 1)):
        seed = rng.randrange(2 ** 31)
        bad, bucket = _history_case(T, seed)
        ctx.count(("history", seed), True, bucket="oracle/history/" + bucket)
        for key, what, obs in bad:
            yield Violation(key, what, {"op": "history", "seed": seed, "law": key, "observed": obs})
    # (2c') histories in which argument OBJECTS are released / re-allocated / rewritten behind the version counter
    for _ in range(ctx.budget(24, 200) * (3 if deep else 1)):
        seed = rng.randrange(2 ** 31)
        bad, bucket = _alloc_history_case(T, seed)
        ctx.count(("alloc-history", seed), True, bucket="oracle/alloc-history/" + bucket)
        for key, what, obs in bad:
            yield Violation(key, what, {"op": "alloc-history", "seed": seed, "law": key, "observed": obs})
    # (2c'') size ladder: the whole coil ladder on every run, long batch / spatial / matrix axes (all in the thorough tier)
    ladder = [("coil", c) for c in COIL_LADDER] + [("mm-inner", c) for c in COIL_LADDER[8:]] + [("mm-rows", c) for c in COIL_LADDER[8:]] + \
        [("bmm-batch", c) for c in COIL_LADDER[8:]]
    longs = [(k, L) for k in ("batch", "spatial") for L in LONG_LADDER]
    ladder += longs if big else rng.sample(longs, 8)
    for kind, size in ladder:
        for _ in range(2 if (kind == "coil" or big) else 1):
            seed = rng.randrange(2 ** 31)
            ctx.count(("size-ladder", kind, size, seed), True, bucket=f"oracle/size-ladder/{kind}={size}")
            for key, what, obs in _ladder_case(T, kind, size, seed):
                yield Violation(key, what, {"op": "size-ladder", "axis": kind, "size": size, "seed": seed, "law": key, "observed": obs})
    # (2d) every inline site of the translated call-site table: the real source expression, evaluated
    rows = _site_rows()
    site_kinds: dict[str, int] = {}
    site_unres = []
    for row in rows:
        site_kinds[row["kind"]] = site_kinds.get(row["kind"], 0) + 1
        if row["kind"] not in ("inlineReduce", "inlineExpand", "inlineRss", "reduceCall", "expandCall", "rssCall"):
            continue
        is_call = row["kind"].endswith("Call")
        for _ in range(1 if is_call else ctx.budget(2, 10)):
            seed = rng.randrange(2 ** 31)
            bad, note = _site_eval_case(T, row, seed)
            if bad is None:
                site_unres.append(f"{row['file']}:{row['line']} {row['kind']}: {note}")
                break
            ctx.count(("site-eval", _site_id(row), seed), not is_call, bucket=f"oracle/site-eval/{row['kind']}")
            for key, what, obs in bad:
                yield Violation(key, what, {"op": "site-eval", "site": _site_id(row), "seed": seed, "law": key, "observed": obs})
    ctx.notes.append(f"coil-operator call-site table (all of direct/ except transforms.py): {len(rows)} sites {site_kinds}; inline sites "
                     f"evaluated from their source; not evaluated: {site_unres}")
    kinds: dict[str, int] = {}
    sens_conj, other_conj = [], []
    for rec in exprs:
        kinds[rec["kind"]] = kinds.get(rec["kind"], 0) + 1
        if rec["kind"] == "reduce-like":
            (sens_conj if "sens" in rec["conj_operand"].lower() else other_conj).append(f"{rec['file']}:{rec['line']} conj({rec['conj_operand']}) dim={rec['dim']}")
        seed = rng.randrange(2 ** 31)
        bad, _ = _callsite_expr_case(T, rec, seed)
        if bad is None:
            unresolved.append(f"{rec['file']}:{rec['line']} {rec['kind']} `{rec['src'][:60]}` dim={rec['dim']} (not summed here / dim not a literal)")
            continue
        ctx.count(("callsite-expr", rec["file"], rec["line"], seed), True, bucket=f"oracle/callsite-expr/{rec['kind']}")
        for key, what in bad:
            yield Violation(key, what, {"op": "callsite-expr", "file": rec["file"], "line": rec["line"], "seed": seed, "law": key})
    ctx.notes.append(f"call-site scan of direct/nn, direct/data/mri_transforms.py, direct/engine.py: {len(methods)} helper methods "
                     f"(_forward_operator/_backward_operator/compute_sense_init) and {len(exprs)} inline complex_multiplication re-implementations "
                     f"({kinds}); conj applied to a sensitivity operand at {len(sens_conj)} sites, to another operand at {len(other_conj)} sites "
                     f"{other_conj[:4]}; not checked numerically: {len(unresolved)} {unresolved[:6]}")
    # (3) float range.  (a) always on: while no intermediate product / square leaves the normal float32 range (operands
    #     scaled by 1e-18 .. 1e18 at a common scale, 1e-9 .. 1e9 at mixed scales) every helper must agree with the exact
    #     (float64) complex result — a deviation here is a NEW defect: key `native-mismatch:<helper>`.
    #     (b) fixed, seed-independent probes, one minimal input per (helper, failure class): the squaring formulas leave
    #     the representable range although operands and exact result are ordinary float32 numbers — keys
    #     `float-range:<helper>:<class>` (listed as known findings by the lead).
    #     (c) a sweep over all scales classifies every other deviation into the same classes (a class without a fixed probe
    #     would surface as its own `float-range:` key) and records the counts as a note. ------------------------------------
    # (3a') mixed-magnitude exact probes for every helper (operands m·2^e with real / imaginary parts at different scales, and
    #      large-but-safe magnitudes): the textbook float32 computation is exact there, so the result must be bit-exact
    for _ in range(ctx.budget(270, 1800) * (3 if deep else 1)):
        seed = rng.randrange(2 ** 31)
        bad, bucket = _mix_check(T, seed)
        if bucket is None:
            continue
        ctx.count(("mixed-exact", seed), True, bucket="oracle/mixed-magnitude-exact/" + bucket)
        for key, what, obs in bad:
            yield Violation(key, what, {"op": "mixed-exact", "seed": seed, "law": key, "observed": obs})
    for (helper, klass, a, b) in FLOAT_RANGE_PROBES:
        ctx.count(("float-range-probe", helper, klass), True, bucket="oracle/float-range/fixed-probe")
        got, exact, obs_class = _float_range_eval(T, helper, a, b)
        if obs_class is not None:
            yield Violation(f"float-range:{helper}:{obs_class}", _float_range_what(helper, obs_class, a, b, got, exact),
                            {"op": "float-range", "helper": helper, "class": obs_class, "a": a, "b": b, "observed": got,
                             "exact": exact})
    fixed = {(h, k) for h, k, _, _ in FLOAT_RANGE_PROBES}
    tally: dict[str, int] = {}
    pats = ((1.0, 0.0), (3.0, 4.0), (0.0, 1.5), (1.0, -2.0), (-2.0, 0.5))
    scales = [(e, e) for e in range(-37, 39)] + [(ea, eb) for ea in (-36, -27, -18, -9, -4, 0, 4, 9, 18, 27, 36)
                                                 for eb in (-36, -27, -18, -9, -4, 0, 4, 9, 18, 27, 36) if ea != eb]
    for (ea, eb) in scales:
        in_range = (ea == eb and abs(ea) <= 18) or (abs(ea) <= 9 and abs(eb) <= 9)
        for i, pa in enumerate(pats):
            pb = pats[(i + 1) % len(pats)] if ea == eb else pats[(i + 2) % len(pats)]
            a = [pa[0] * 10.0 ** ea, pa[1] * 10.0 ** ea]
            b = [pb[0] * 10.0 ** eb, pb[1] * 10.0 ** eb]
            for helper in FLOAT_RANGE_HELPERS:
                if helper in ("modulus", "root_sum_of_squares") and ea != eb:
                    continue
                got, exact, obs_class = _float_range_eval(T, helper, a, b)
                if exact is None:         # operands or exact result not ordinary float32 numbers: nothing is claimed
                    continue
                ctx.count(("float-range-sweep", helper, ea, eb, i), True,
                          bucket="oracle/float-range/" + ("in-range" if in_range else "sweep"))
                if obs_class is None:
                    continue
                if in_range:
                    yield Violation(f"native-mismatch:{helper}",
                                    f"{helper} differs from exact complex arithmetic although no intermediate leaves float32 "
                                    f"(scales 1e{ea}, 1e{eb}): {got} vs {exact}",
                                    {"op": "float-range", "helper": helper, "class": obs_class, "a": a, "b": b, "observed": got,
                                     "exact": exact, "in_range": True})
                else:
                    tally[f"{helper}:{obs_class}"] = tally.get(f"{helper}:{obs_class}", 0) + 1
                    if (helper, obs_class) not in fixed:
                        yield Violation(f"float-range:{helper}:{obs_class}", _float_range_what(helper, obs_class, a, b, got, exact),
                                        {"op": "float-range", "helper": helper, "class": obs_class, "a": a, "b": b,
                                         "observed": got, "exact": exact})
    if tally:
        ctx.notes.append("float-range sweep (operands and exact result ordinary float32 numbers; theorems are over R): deviations by "
                         "helper:class = " + ", ".join(f"{k}={v}" for k, v in sorted(tally.items())))


# --------------------------------------------------------------------------------------------------
# float-range probes (seed independent).  Operands are (re, im) pairs; for the binary helpers `a` is the dividend / first
# factor / coil data and `b` the divisor / second factor / sensitivity; for modulus / rss only `a` is used (rss: two coils a, a).
FLOAT_RANGE_HELPERS = ("complex_division", "complex_multiplication", "complex_dot_product", "reduce_operator", "expand_operator",
                       "complex_mm", "modulus", "root_sum_of_squares")
FLOAT_RANGE_PROBES = [
    ("complex_division", "overflow-nan", [1e20, 0.0], [1e20, 0.0]),
    ("complex_division", "numerator-overflow-inf", [3e19, 4e19], [1e19, 0.0]),
    ("complex_division", "divisor-square-overflow-zero", [1.0, 0.0], [1e20, 0.0]),
    ("complex_division", "underflow-zero", [1e-30, 0.0], [1e-30, 0.0]),
    ("complex_division", "numerator-underflow-zero", [1e-37, 0.0], [1e-9, 0.0]),
    ("complex_division", "underflow-inaccurate", [1e-37, 0.0], [1e-8, 0.0]),
    ("modulus", "overflow-inf", [3e19, 4e19], None),
    ("modulus", "underflow-zero", [3e-30, 4e-30], None),
    ("modulus", "underflow-inaccurate", [3e-23, 4e-23], None),
    ("root_sum_of_squares", "overflow-inf", [3e19, 4e19], None),
    ("root_sum_of_squares", "underflow-zero", [3e-30, 4e-30], None),
    ("root_sum_of_squares", "underflow-inaccurate", [3e-23, 4e-23], None),
]
_F32_TINY = 1.1754943508222875e-38      # smallest normal float32


def _ordinary(t: torch.Tensor) -> bool:
    """finite, and every non-zero entry in the normal float32 range"""
    return bool(torch.isfinite(t).all() and ((t == 0) | (t.abs() >= _F32_TINY)).all())


def _float_range_eval(T, helper, a, b):
    """-> (observed list, exact list | None, failure class | None).  `exact` is the float64 complex result rounded to
    float32; None when operands or exact result are not ordinary float32 numbers (nothing is claimed then)."""
    ta = torch.tensor([a], dtype=torch.float32)
    tb = torch.tensor([b], dtype=torch.float32) if b is not None else None
    if not _ordinary(ta) or bool((ta == 0).all()) or (tb is not None and (not _ordinary(tb) or bool((tb == 0).all()))):
        return None, None, None
    za = _c(ta).to(torch.complex128)
    zb = _c(tb).to(torch.complex128) if tb is not None else None
    R = lambda z: torch.view_as_real(z).float()  # noqa: E731
    if helper == "complex_division":
        fn, exact = (lambda: T.complex_division(ta, tb)), R(za / zb)
    elif helper == "complex_multiplication":
        fn, exact = (lambda: T.complex_multiplication(ta, tb)), R(za * zb)
    elif helper == "complex_dot_product":
        fn, exact = (lambda: T.complex_dot_product(ta, tb, [0]).reshape(1, 2)), R(za.conj() * zb)
    elif helper == "reduce_operator":
        fn, exact = (lambda: T.reduce_operator(ta, tb, dim=0).reshape(1, 2)), R(zb.conj() * za)
    elif helper == "expand_operator":
        fn, exact = (lambda: T.expand_operator(ta[0], tb, dim=0).reshape(1, 2)), R(zb * za)
    elif helper == "complex_mm":
        fn = lambda: torch.view_as_real(T.complex_mm(_c(ta).reshape(1, 1), _c(tb).reshape(1, 1))).reshape(1, 2)  # noqa: E731
        exact = R(za * zb)
    elif helper == "modulus":
        fn, exact = (lambda: T.modulus(ta).reshape(1, 1)), za.abs().float().reshape(1, 1)
    elif helper == "root_sum_of_squares":
        fn, exact = (lambda: T.root_sum_of_squares(torch.cat([ta, ta]), dim=0).reshape(1, 1)), (2 * za.abs() ** 2).sqrt().float().reshape(1, 1)
    else:
        raise ValueError(helper)
    if not _ordinary(exact):
        return None, None, None
    try:
        got = fn()
    except Exception as e:  # noqa: BLE001
        return f"raises {err_name(e)}", exact.reshape(-1).tolist(), "raises"
    klass = None
    if torch.isnan(got).any():
        klass = "overflow-nan"
    elif torch.isinf(got).any():
        klass = "numerator-overflow-inf" if helper == "complex_division" else "overflow-inf"
    elif bool((got == 0).all()) and bool((exact != 0).any()):
        klass = "underflow-zero"
        if helper == "complex_division":
            den = tb[..., 0] ** 2 + tb[..., 1] ** 2            # the float32 denominator of the documented formula
            klass = ("divisor-square-overflow-zero" if torch.isinf(den).any()
                     else "underflow-zero" if bool((den == 0).all()) else "numerator-underflow-zero")
    elif float((got - exact).abs().max()) > 1e-3 * float(exact.abs().max()):
        lo = float(exact.abs().max()) < 1.0 or helper in ("modulus", "root_sum_of_squares")
        klass = "underflow-inaccurate" if lo or _has_small_operand(ta, tb) else "overflow-inaccurate"
    return got.reshape(-1).tolist(), exact.reshape(-1).tolist(), klass


def _has_small_operand(ta, tb) -> bool:
    vals = [float(v) for t in (ta, tb) if t is not None for v in t.reshape(-1).tolist() if v != 0.0]
    return min(abs(v) for v in vals) < 1e-9


def _float_range_what(helper, klass, a, b, got, exact) -> str:
    arg = f"{a}" if b is None else f"{a}, {b}"
    return (f"{helper}({arg}) = {got} but the exact result {exact} is an ordinary float32 number ({klass}: the squares / products "
            f"of the formula leave the float32 range)")


def replay(rep: dict) -> bool:
    import direct.data.transforms as T

    op = rep.get("op")
    try:
        if op == "coil":
            bad = _coil_case(T, rep["base"], rep["dim"], rep["coils"], rep["seed"], rep["family"], rep.get("neg", False))
            return any(k == rep["law"] for k, _, _ in bad)
        if op == "callsite-method":
            bad, _ = _callsite_method_case(T, rep["module"], rep["class"], rep["method"], tuple(tuple(a) for a in rep["attrs"]), rep["seed"])
            return bool(bad) and any(k == rep["law"] for k, _ in bad)
        if op == "callsite-expr":
            _, exprs = _callsite_scan()
            for rec in exprs:
                if rec["file"] == rep["file"] and rec["line"] == rep["line"]:
                    bad, _ = _callsite_expr_case(T, rec, rep["seed"])
                    return bool(bad)
            return False
        if op == "history":
            bad, _ = _history_case(T, rep["seed"])
            return any(k == rep["law"] for k, _, _ in bad)
        if op == "size-ladder":
            return any(k == rep["law"] for k, _, _ in _ladder_case(T, rep["axis"], rep["size"], rep["seed"]))
        if op == "alloc-history":
            bad, _ = _alloc_history_case(T, rep["seed"])
            return any(k == rep["law"] for k, _, _ in bad)
        if op == "site-eval":
            for row in _site_rows():
                if _site_id(row) == rep["site"]:
                    bad, _ = _site_eval_case(T, row, rep["seed"])
                    return bool(bad)
            return False
        if op == "safe-divide":
            bad, _ = _safe_divide_case(T, rep["seed"])
            return any(k == rep["law"] for k, _, _ in bad)
        if op == "native":
            bad, _, _ = _native_case(T, rep["seed"])
            return any(k == rep["law"] for k, _, _ in bad)
        if op == "cdiv-zero":
            q = T.complex_division(torch.tensor([rep["a"]]).reshape(-1, 2), torch.zeros(1, 2))
            return not bool(torch.all(q == 0))
        if op == "mm-real":
            try:
                T.complex_mm(torch.zeros(2, 2), torch.zeros(2, 2))
            except ValueError:
                return False
            return True
        if op == "mixed-exact":
            bad, _ = _mix_check(T, rep["seed"])
            return any(k == rep["law"] for k, _, _ in bad)
        if op == "float-range":
            _, _, klass = _float_range_eval(T, rep["helper"], rep["a"], rep["b"])
            return klass is not None if rep.get("in_range") else klass == rep["class"]
    except Exception:  # noqa: BLE001
        return True
    return True
