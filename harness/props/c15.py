"""C15 — checkpoints restore the full training state and survive crashes while saving."""
from __future__ import annotations

import inspect
import json
import os
import pathlib
import random
import re
import shutil
import subprocess
import sys
import tempfile
from fractions import Fraction as Fr

import boot  # noqa: F401
import torch

from core import Ctx, ToolFailure, Violation, err_name, ints
from props import c16 as toy
from props import c15_engine as eng

PROP = "C15"
EXTRA_LEAN_MODULES = ["DirectVerif.Props.C15Engine"]   # theorems about Model/C15Engine.lean (the code around the core)
MANIFEST = {
    "text": "Lean 4 theorems: (directory machine) for EVERY well-formed save table (decidable wfSave: each final name only ever "
            "the target of a replace from its completely written, closed temporary; pointer replaced after the checkpoint "
            "file; 35 interleavings), every directory (stale temporaries, an existing checkpoint of the same label "
            "included), label, payload chunking and every crash point (any prefix of the file operations, last write cut "
            "anywhere) load('latest') returns what it returned before the save or the new checkpoint — never an error; "
            "save-then-load returns the saved label and state; 'latest' is the last completed save for every save sequence; "
            "load(None) loads nothing, load('latest') = load(-1) (Engine.predict's default) = load(label) after a save, other "
            "arguments are rejected; a full load restores every HasStateDict object (model, additional models, optimizer, "
            "lr_scheduler, scaler), only_models / load_models_from_file leaves the training state alone, non-HasStateDict "
            "objects are not stored; a model is never loaded partially (missing keys raise, for every module and file), "
            "DataParallel / DistributedDataParallel wrappers are transparent because the constructor strips them from `model` "
            "and from every *model key (witness: stripping only `model` breaks); save_to_disk=False never writes, and two "
            "concurrent writers of a well-formed save can leave a corrupt 'latest' (witness) — why only rank 0 writes; a save "
            "routine that also deletes older checkpoints is crash safe at every crash point (between and after the deletions "
            "included) for every table accepted by wfSaveX (well-formed core, deletions only after the pointer moved) and "
            "every set of deleted labels not containing the new one — deleting before the pointer moved, or deleting the "
            "label just written, are proved violation witnesses; the second failure mode of a save — an EXCEPTION raised "
            "inside any of its write calls (Python unwinds, with / finally clean-up runs) — is safe for every table whose "
            "exceptional path only closes files (decidable wfUnwind, translated from the with / try-finally / context-manager "
            "structure of save; a rename in a finally clause is a proved violation witness). "
            "(trainer machine, arbitrary model / loss / optimiser / schedule) a clean stop after iteration t and resume at "
            "label+1, and a SIGINT or RuntimeError inside any iteration i >= 5 (exit path saves the pre-iteration state under "
            "i-1), continue on exactly the uninterrupted trajectory (parameters, optimiser state, last_epoch hence all later "
            "learning rates, scaler); for i < 5 nothing is saved; a death at any statement boundary of an iteration outside "
            "the kill path (during / after the optimiser update, around lr_scheduler.step(), at the entry of the periodic "
            "save, inside write_to_logs) saves nothing and keeps the directory invariant, and of the loop body only "
            "_do_iteration may be inside the try that routes to the kill path (translated tryEvents, decidable wfTry; the "
            "optimiser step inside that try is a proved violation witness); every history of processes ended by disappearance, SIGINT "
            "or a crash inside a checkpoint save ends in the uninterrupted final state, for every k >= 1 provided each "
            "resume finds a 'latest' label t with (t+1) % k = 0 (vacuous for k = 1) — ALSO for the engine machine with "
            "validation data, start_with_validation and mode-dependent additional models (validation ends with "
            "models_training_mode(); the pinned `self.model.train()` is a proved violation witness); otherwise exactly: the "
            "resumed process continues from the uninterrupted state with an empty accumulator, its first step uses div_(k) "
            "of the k-r post-resume gradients, and on the integer toy it is off by exactly r at the end of that window for "
            "every k >= 2 and every label (resume equal iff aligned); periodic checkpoints are never aligned when k divides "
            "checkpoint_steps, two consecutive ones never both. Engine.train before the loop, for every well-formed "
            "`if start_iter > 0 and initialization … elif initialization` chain: an initialization checkpoint only provides "
            "model weights (optimiser, last_epoch, scaler, iteration counter fresh; validation forced), a resumed run ignores "
            "it. Bookkeeping: the events of a resumed process are exactly the suffix of the uninterrupted schedule, the last "
            "iteration is checkpointed / logged / validated exactly once, resuming a finished run does nothing. Schedulers "
            "are closed forms of last_epoch (drop exactly at a milestone with its multiplicity, factor 1 from the warm-up "
            "boundary on, linear warm-up monotone, cosine monotone whenever the uninterpreted cos term is); step() never "
            "reads the optimiser's current lr, so restoring only the scheduler is wrong for exactly one iteration and a "
            "chained scheduler would drift for ever (witness); the trainer's milestones range(step, total, step) are sorted; "
            "the scaler's update() is part of the machine. Tied to the code by the translated statement table of save "
            "(wfSave by decide — a harmless reordering keeps the proof), translated resume / kill-path / checkpoint / "
            "validation / log interval arithmetic, scheduler formulas, 'latest' aliases, the initialization chain, the tail "
            "of validation_loop, structural API facts (constructor unwraps, save guard, main-process-only writing, no "
            "directory listing in load, missing keys raise, only_models, resume only under `if resume`), the table of every "
            "object the real engine hands to its Checkpointer with the verdict of save's HasStateDict filter (introspection; "
            "nothing may be dropped — the engine's own GradScaler included) and the trainer's milestone expression; strace of a "
            "real save, real load on every materialised crash state (incl. stale *.tmp) and for every argument form, real "
            "save/load of object bundles and of modules with named parameters (wrappers, missing / unexpected keys, kwargs, "
            "save_to_disk), real schedulers checkpointed and resumed at every point of 1..60-iteration schedules (thorough) and "
            "into objects built with another learning rate, and real Engine.train histories (validation data, "
            "initialization, start_with_validation, resume=False, finished runs, real SIGINTs, RuntimeErrors, crashes inside "
            "saves; a third of them with the engine's own enabled GradScaler, mixed_precision=True) compared exactly with the "
            "model, events included — with real SIGINTs delivered at every statement boundary of an iteration (optimizer step "
            "pre / post hooks, before / after lr_scheduler.step(), save entry, write_to_logs), not only inside _do_iteration; "
            "real saves whose payload / label write raises OSError / KeyboardInterrupt / ProcessKilledException after 0 / 1 / "
            "half / len-1 bytes in four save histories (re-saving the label 'latest' points to included); every constructor option of the Checkpointer found by introspection is traced with "
            "non-default values and its crash states are enumerated on the real code.",
    "note": "Trusted: Lean kernel, AST translator, strace canonicalisation, 'os.replace is atomic / open(w) truncates / write "
            "appends / a torch file is loadable iff complete' (the last one is probed on every run with truncated real "
            "files), no fsync / power-loss modelling below rename, torch.save/load round trip as decode(encode s) = s, "
            "a real enabled GradScaler needs CUDA: two thirds of the histories use a counting scaler subclass (state evolves "
            "with update()), one third the engine's own GradScaler with the CUDA-availability probe patched so that it is "
            "enabled on CPU (scale / growth tracker mapped to the update count; no overflow in the toy: back-off not exercised); "
            "training-mode dependence of a model is represented by a deterministic stand-in (output doubled in training mode) "
            "instead of dropout / batch norm; validation runs the real evaluate / reconstruct_volumes on a two-slice toy "
            "volume with gc.collect() stubbed. "
            "With gradient accumulation a checkpoint inside a window loses the accumulated gradients: the history theorems "
            "hold for every k under AlignedHist (each resume finds a label t with (t+1) % k = 0, vacuous for k = 1) and "
            "misaligned_resume / misaligned_resume_differs state exactly what happens otherwise; that case is the known C16 "
            "finding resume-mid-window. Cosine schedule: cos is an uninterpreted function; exact model comparison only for "
            "WarmupMultiStepLR with dyadic parameters; Adam / cosine runs are compared real-vs-real bit-exactly. Concurrent "
            "writers and multi-rank runs are modelled (witness + save_to_disk guard), not executed; URLs only through a "
            "stubbed download. RNG state is not part of a checkpoint (dropout masks after a resume differ; outside 'given the "
            "same batches').",
    "technique": "Lean 4 proof (frames over a name->bytes directory, inductive crash prefixes, invariant over process "
                 "histories, refinement of the engine loop with validation events to the core machine) + AST translation "
                 "bridge + strace / crash-state / API / training-history differential correspondence",
}
TRUSTED = [
    "Lean 4.33 kernel; axioms ⊆ {propext, Classical.choice, Quot.sound}",
    "harness/translate/recipes/c15.py (statement table of Checkpointer.save; resume / kill-path / checkpoint / validation / log "
    "interval arithmetic; scheduler closed forms over ℚ; 'latest' aliases; initialization chain; validation_loop tail; "
    "structural API facts; the trainer's milestone expression)",
    "file system semantics: open('w') truncates, write appends, os.replace atomic, close changes nothing; no fsync modelling",
    "strace -f -e trace=openat,write,rename*,unlink*,close,lseek,ftruncate,pwrite64 canonicalised by basename",
    "torch.save / torch.load: decode(encode s) = s; a checkpoint file is loadable iff all its bytes were written (probed "
    "with truncated real files on every run)",
    "optimizer.step arbitrary; GradScaler: counting scaler subclass, or the engine's own scaler enabled on CPU by patching "
    "torch.cuda.amp.common.amp_definitely_not_available (scale / growth tracker ↔ number of update() calls)",
    "introspection of a real engine (training_loop replaced by a no-op) for the table of checkpointed objects; "
    "inspect.signature(Checkpointer.__init__) for constructor options",
    "the toy engine subclasses (props/c16.py ToyEngine, props/c15_engine.py EngineX), the SIGINT self-delivery "
    "(os.kill(getpid(), SIGINT) inside _do_iteration), the simulated RuntimeError, event recording by overriding "
    "validation_loop / write_to_logs and wrapping Checkpointer.save, gc.collect() stubbed during validation, "
    "communication.is_main_process patched for the non-main-rank run, download_url stubbed for the URL case",
    "ModeAux (output doubled in training mode) as the stand-in for mode-dependent layers",
    "exception injection into a real save by proxying torch.save / open inside direct.checkpointer; SIGINT delivery from "
    "optimizer step hooks, the scheduler subclass, the save wrapper and write_to_logs",
]
ASSUMPTIONS = [
    "batches are a function of the iteration index (sequential batch sampler supplied by the harness)",
    "a process that disappears executes nothing further; a crash inside save is a prefix of its file operations",
    "labels written to last_model.txt are decimal naturals",
    "one writer per experiment directory (Engine.train: the main process only); an optimiser step does not change "
    "training-mode flags (VCfg.Ok.opt)",
]
RULE = ("crash states: every prefix of the traced operation list of a real save, each write cut at 0 / 1 / half / len-1 bytes, "
        "with no / a different-label / a same-label previous checkpoint, current and pinned (in-place) operation order; "
        "training histories: 6..16 iterations, checkpoint_steps 1..4, stops = disappearance / SIGINT before or after backward "
        "/ death at 6 points of a checkpoint save; engine histories (vtrain): 8..16 iterations, validation every 2..7 with or "
        "without validation data, mode-dependent additional model, per process resume / initialization / "
        "start_with_validation flags, RuntimeError exits, SIGINTs at statement boundaries 2..7 of an iteration, a process resuming a finished run, a restart with resume=False; "
        "API: modules with 1..3 named parameters, DataParallel on any of the four modules, missing / extra keys, kwargs, "
        "save_to_disk, all argument forms of load; every unknown constructor option of the Checkpointer with 1-2 non-default "
        "values: traced saves, every crash prefix of the first three scenarios; non-trivial = a crash point strictly inside save, a history with at "
        "least one interruption at an iteration >= 5, a load by label / 'latest'; distinct = distinct protocol line; the "
        "write_to_logs call of log_first_training_example_and_model (iteration 0) is not an event")
PENDING_FINDINGS: list[str] = []

STRACE_SET = "openat,write,rename,renameat,renameat2,unlink,unlinkat,close,lseek,ftruncate,truncate,pwrite64,writev,link,linkat"

_SAVER = r'''
import sys, os, logging, pathlib, shutil, json
sys.path.insert(0, sys.argv[3])
import boot
import torch
logging.disable(logging.CRITICAL)
from direct.checkpointer import Checkpointer
from direct.data.lr_scheduler import WarmupMultiStepLR
d, out = pathlib.Path(sys.argv[1]), pathlib.Path(sys.argv[2])
m = torch.nn.Linear(3, 2)
o = torch.optim.Adam(m.parameters(), lr=0.25)
s = WarmupMultiStepLR(o, milestones=[4, 9], gamma=0.5, warmup_factor=0.25, warmup_iterations=4)
m(torch.ones(1, 3)).sum().backward(); o.step(); s.step()
ck = Checkpointer(d, model=m, optimizer=o, lr_scheduler=s, __author__="x", **json.loads(sys.argv[4]))
def mark(n):
    try: open(d / n).close()
    except OSError: pass
for idx, it in enumerate([5, 12, 12]):
    with torch.no_grad():
        for p in m.parameters(): p.fill_(float(idx + 1))
    mark("MARK_BEGIN")
    ck.save(it)
    mark("MARK_END")
    shutil.copy(d / f"model_{it}.pt", out / f"payload_{idx}.bin")
'''


# --------------------------------------------------------------------------------------------------
# (i) the file operations of a real save
def _unescape(s: str) -> bytes:
    return s.encode("latin1", "backslashreplace").decode("unicode_escape").encode("latin1")


def parse_strace(text: str, savedir: str):
    """canonical ops per save: [('openTrunc', name) | ('write', name, n, bytes|None) | ('close', name) |
    ('replace', src, dst) | ('other', text)]"""
    saves, cur, fds = [], None, {}
    base = lambda p: os.path.basename(p)  # noqa: E731
    for ln in text.split("\n"):
        m = re.match(r"^\d+\s+(.*)$", ln)
        body = m.group(1) if m else ln
        if "MARK_BEGIN" in body:
            cur, fds = [], {}
            continue
        if "MARK_END" in body:
            if cur is not None:
                saves.append(cur)
            cur = None
            continue
        if cur is None:
            continue
        if savedir in body and ("unfinished" in body or "resumed" in body):
            raise ToolFailure("interleaved strace record on the save directory")
        mo = re.match(r'openat\(AT_FDCWD, "([^"]*)", ([A-Z_|0-9]+)(?:, \d+)?\)\s*=\s*(-?\d+)', body)
        if mo:
            path, flags, fd = mo.group(1), mo.group(2), int(mo.group(3))
            if path.startswith(savedir) and fd >= 0:
                fds[fd] = base(path)
                if "O_TRUNC" in flags and ("O_WRONLY" in flags or "O_RDWR" in flags):
                    cur.append(("openTrunc", base(path)))
                else:
                    cur.append(("other", f"open {base(path)} {flags}"))
            continue
        mo = re.match(r'write\((\d+), "((?:[^"\\]|\\.)*)"(\.\.\.)?, (\d+)\)\s*=\s*(\d+)', body)
        if mo and int(mo.group(1)) in fds:
            n = int(mo.group(5))
            content = None if mo.group(3) else _unescape(mo.group(2))
            if int(mo.group(4)) != n:
                cur.append(("other", f"short write {n}/{mo.group(4)}"))
            cur.append(("write", fds[int(mo.group(1))], n, content))
            continue
        mo = re.match(r"close\((\d+)\)\s*=\s*0", body)
        if mo and int(mo.group(1)) in fds:
            cur.append(("close", fds.pop(int(mo.group(1)))))
            continue
        mo = re.match(r'rename\("([^"]*)", "([^"]*)"\)\s*=\s*0', body) or \
            re.match(r'renameat2?\(AT_FDCWD, "([^"]*)", AT_FDCWD, "([^"]*)"(?:, \w+)?\)\s*=\s*0', body)
        if mo and (mo.group(1).startswith(savedir) or mo.group(2).startswith(savedir)):
            cur.append(("replace", base(mo.group(1)), base(mo.group(2))))
            continue
        mo = re.match(r"lseek\((\d+), (-?\d+), (\w+)\)", body)
        if mo and int(mo.group(1)) in fds:
            if not (mo.group(3) == "SEEK_CUR" and mo.group(2) == "0"):
                cur.append(("other", f"lseek {fds[int(mo.group(1))]} {mo.group(2)} {mo.group(3)}"))
            continue
        mo = re.match(r"(ftruncate|pwrite64|writev)\((\d+)", body)
        if mo and int(mo.group(2)) in fds:
            cur.append(("other", f"{mo.group(1)} {fds[int(mo.group(2))]}"))
            continue
        mo = re.match(r'unlink\("([^"]*)"\)\s*=\s*0', body) or re.match(r'unlinkat\(AT_FDCWD, "([^"]*)", 0\)\s*=\s*0', body)
        if mo and mo.group(1).startswith(savedir):
            cur.append(("unlink", base(mo.group(1))))
            continue
        if savedir in body and re.match(r"(unlink|unlinkat|truncate|link|linkat)\(", body):
            cur.append(("other", body.split("(")[0] + " " + " ".join(base(p) for p in re.findall(r'"([^"]*)"', body))))
    return saves


def trace_saves(ctx: Ctx, opts: dict | None = None):
    """Run a real `Checkpointer.save` three times (labels 5, 12, 12; states 1, 2, 3) in a subprocess under strace, the
    Checkpointer constructed with the extra options `opts`.  Returns (saves, payloads, how)."""
    work = tempfile.mkdtemp(prefix="verif_c15_")
    try:
        sd, out = os.path.join(work, "exp"), os.path.join(work, "out")
        os.mkdir(sd), os.mkdir(out)
        script = os.path.join(work, "saver.py")
        pathlib.Path(script).write_text(_SAVER)
        tr = os.path.join(work, "trace.txt")
        harness = str(pathlib.Path(__file__).resolve().parent.parent)
        cmd = [sys.executable, script, sd, out, harness, json.dumps(opts or {})]
        how = "strace"
        saves = None
        if shutil.which("strace"):
            r = subprocess.run(["strace", "-f", "--seccomp-bpf", "-o", tr, "-s", "64", "-e", "trace=" + STRACE_SET] + cmd,
                               capture_output=True, text=True, timeout=300)
            if r.returncode == 0 and os.path.exists(tr):
                try:
                    saves = parse_strace(pathlib.Path(tr).read_text(errors="replace"), sd)
                except ToolFailure:
                    saves = None
                if saves is not None and len(saves) != 3:
                    saves = None
        if saves is None:
            how = "monkeypatch"
            ctx.notes.append("strace not usable here: file operations recorded by patching open / os.replace in-process")
            shutil.rmtree(sd), os.mkdir(sd)
            saves = _record_by_patching(sd, out, opts or {})
        payloads = [pathlib.Path(out, f"payload_{i}.bin").read_bytes() for i in range(3)]
        return saves, payloads, how
    finally:
        shutil.rmtree(work, ignore_errors=True)


def _record_by_patching(sd, out, opts=None):
    """fallback: record open / write / close / os.replace of Checkpointer.save by patching, in-process"""
    import builtins

    import direct.checkpointer as CK
    from direct.data.lr_scheduler import WarmupMultiStepLR

    m = torch.nn.Linear(3, 2)
    o = torch.optim.Adam(m.parameters(), lr=0.25)
    s = WarmupMultiStepLR(o, milestones=[4, 9], gamma=0.5, warmup_factor=0.25, warmup_iterations=4)
    ck = CK.Checkpointer(pathlib.Path(sd), model=m, optimizer=o, lr_scheduler=s, **(opts or {}))
    saves = []
    real_open, real_replace = builtins.open, os.replace
    real_remove, real_unlink = os.remove, pathlib.Path.unlink

    class F:
        def __init__(self, f, name, cur):
            self.f, self.name, self.cur = f, name, cur

        def write(self, b):
            self.cur.append(("write", self.name, len(b), b.encode() if isinstance(b, str) else None))
            return self.f.write(b)

        def __enter__(self):
            return self

        def __exit__(self, *a):
            self.cur.append(("close", self.name))
            return self.f.__exit__(*a)

        def __getattr__(self, n):
            return getattr(self.f, n)

    for idx, it in enumerate([5, 12, 12]):
        with torch.no_grad():
            for p in m.parameters():
                p.fill_(float(idx + 1))
        cur = []

        def popen(path, mode="r", *a, cur=cur, **kw):
            f = real_open(path, mode, *a, **kw)
            if str(path).startswith(sd) and "w" in mode:
                cur.append(("openTrunc", os.path.basename(str(path))))
                return F(f, os.path.basename(str(path)), cur)
            return f

        def prep(a, b, cur=cur):
            cur.append(("replace", os.path.basename(str(a)), os.path.basename(str(b))))
            return real_replace(a, b)

        def prem(a, *aa, cur=cur, **kw):
            cur.append(("unlink", os.path.basename(str(a))))
            return real_remove(a, *aa, **kw)

        def punl(self, *aa, cur=cur, **kw):
            cur.append(("unlink", os.path.basename(str(self))))
            return real_unlink(self, *aa, **kw)

        CK.open, os.replace, os.remove, pathlib.Path.unlink = popen, prep, prem, punl
        try:
            ck.save(it)
        finally:
            del CK.open
            os.replace, os.remove, pathlib.Path.unlink = real_replace, real_remove, real_unlink
        saves.append(cur)
        shutil.copy(os.path.join(sd, f"model_{it}.pt"), os.path.join(out, f"payload_{idx}.bin"))
    return saves


def name_code(name: str) -> list[int]:
    mo = re.fullmatch(r"model_(-?\d+)\.pt", name)
    if mo:
        return [0, int(mo.group(1))]
    mo = re.fullmatch(r"model_(-?\d+)\.pt\.tmp", name)
    if mo:
        return [1, int(mo.group(1))]
    if name == "last_model.txt":
        return [2, 0]
    if name == "last_model.txt.tmp":
        return [3, 0]
    return [4, sum(name.encode()) % 1000]


def canon_ops(ops) -> str:
    gs = []
    for op in ops:
        if op[0] == "openTrunc":
            gs.append([1] + name_code(op[1]))
        elif op[0] == "write":
            nc = name_code(op[1])
            gs.append([2] + nc + [op[2]] + (list(op[3]) if nc[0] in (2, 3) and op[3] is not None else []))
        elif op[0] == "close":
            gs.append([3] + name_code(op[1]))
        elif op[0] == "replace":
            gs.append([4] + name_code(op[1]) + name_code(op[2]))
        elif op[0] == "unlink":
            gs.append([5] + name_code(op[1]))
        else:
            gs.append([9, sum(op[1].encode()) % 1000])
    return "ok " + " | ".join(ints(g) for g in gs)


def payload_sizes(ops) -> list[int]:
    return [op[2] for op in ops if op[0] == "write" and name_code(op[1])[0] in (0, 1)]


def pinned_ops(it: int, sizes: list[int]):
    """the pinned tree's order (files written in place) — built by the harness as a regression stream"""
    m, l = f"model_{it}.pt", "last_model.txt"
    return [("openTrunc", m)] + [("write", m, n, None) for n in sizes] + [("close", m), ("openTrunc", l),
                                                                          ("write", l, len(str(it)), str(it).encode()), ("close", l)]


# --------------------------------------------------------------------------------------------------
# (ii) materialised crash states and the real load('latest')
def apply_ops(d: str, ops, payload: bytes, upto: int, cut: int | None):
    """execute `upto` complete ops (+ `cut` bytes of the next write) on the real directory `d`"""
    off: dict[str, int] = {}
    todo = list(ops[:upto])
    if cut is not None and upto < len(ops) and ops[upto][0] == "write":
        o = ops[upto]
        todo.append(("write", o[1], o[2], o[3], cut))
    for op in todo:
        p = os.path.join(d, op[1])
        if op[0] == "openTrunc":
            open(p, "wb").close()
            off[op[1]] = 0
        elif op[0] == "write":
            n = op[2] if len(op) < 5 else op[4]
            if name_code(op[1])[0] in (0, 1):
                data = payload[off.get(op[1], 0): off.get(op[1], 0) + n]
                off[op[1]] = off.get(op[1], 0) + op[2]
            else:
                data = (op[3] or b"")[:n]
            with open(p, "ab") as f:
                f.write(data)
        elif op[0] == "replace":
            os.replace(p, os.path.join(d, op[2]))
        elif op[0] == "unlink":
            if os.path.exists(p):
                os.remove(p)


def real_load_verdict(d: str, arg="latest") -> str:
    """REAL Checkpointer.load(arg) (default 'latest') into fresh objects; which state came back is read from the weights"""
    from direct.checkpointer import Checkpointer
    from direct.data.lr_scheduler import WarmupMultiStepLR

    m = torch.nn.Linear(3, 2)
    o = torch.optim.Adam(m.parameters(), lr=0.25)
    s = WarmupMultiStepLR(o, milestones=[4, 9], gamma=0.5, warmup_factor=0.25, warmup_iterations=4)
    ck = Checkpointer(pathlib.Path(d), model=m, optimizer=o, lr_scheduler=s)
    try:
        r = ck.load(arg)
    except ValueError:
        return "err ValueError"
    except FileNotFoundError:
        return "err FileNotFoundError"
    except Exception:  # noqa: BLE001 - every way torch.load rejects an incomplete file
        return "err Corrupt"
    if not r:
        return "ok 0"
    return f"ok 1 {r['iteration']} {int(round(float(m.weight.detach().flatten()[0])))}"


def crash_points(ops, thorough: bool):
    for n in range(len(ops) + 1):
        yield n, None
        if n < len(ops) and ops[n][0] == "write":
            ln = ops[n][2]
            cuts = sorted({0, 1, ln // 2, ln - 1} & set(range(ln)))
            if thorough:
                cuts = sorted(set(cuts) | {ln // 3, 2 * ln // 3, ln - 2, 2, 7} & set(range(ln)))
            for m in cuts:
                yield n, m


def table_codes() -> list[int]:
    """the statement table of Checkpointer.save as the translator reads it (empty = not understood: the model's own)"""
    from translate.gen import REPO as TREPO
    from translate.pyexpr import Untranslatable, find_function, parse_file
    from translate.recipes.c15 import CK, checkpointer_class, save_table

    kinds = {".model": 0, ".modelTmp": 1, ".last": 2, ".lastTmp": 3}
    codes = {".openW": 1, ".writePayload": 2, ".writeLabel": 3, ".closeF": 4, ".replace": 5, ".prune": 6}
    try:
        tree = parse_file(TREPO / CK)
        rows = save_table(find_function(tree, "Checkpointer.save"), checkpointer_class(tree))
    except Untranslatable:
        return []
    out = []
    for r in rows:
        parts = r.split()
        out += [codes[parts[0]], kinds[parts[1]] if len(parts) > 1 else 0, kinds[parts[2]] if len(parts) > 2 else 0]
    return out


def deleted_labels(ops) -> list[int]:
    """labels of the `model_<j>.pt` files a traced save unlinks, in order"""
    out = []
    for op in ops:
        if op[0] == "unlink":
            nc = name_code(op[1])
            out.append(nc[1] if nc[0] == 0 else -10 ** 6 - nc[0])      # anything but a checkpoint file: never what the model deletes
    return out


def ctor_option_sets() -> list[dict]:
    """non-default values for every constructor option of the Checkpointer the model does not know about (found by
    introspection): one option at a time, a few values each"""
    from direct.checkpointer import Checkpointer

    known = {"self", "save_directory", "save_to_disk", "model_regex", "checkpointables"}
    out = []
    for name, p in inspect.signature(Checkpointer.__init__).parameters.items():
        if name in known or p.kind in (p.VAR_KEYWORD, p.VAR_POSITIONAL):
            continue
        dflt, ann = p.default, str(p.annotation)
        if isinstance(dflt, bool):
            vals = [not dflt]
        elif isinstance(dflt, int):
            vals = sorted({1, 2, dflt + 1} - {dflt})
        elif dflt is None or dflt is inspect.Parameter.empty:
            vals = [True] if "bool" in ann else [1, 2] if ("int" in ann or "float" in ann or ann == "<class 'inspect._empty'>") else []
        else:
            vals = []
        out += [{name: v} for v in vals]
    return out


def prepare(ctx: Ctx):
    saves, payloads, how = trace_saves(ctx)
    ctx.__dict__["c15"] = {"saves": saves, "payloads": payloads, "how": how, "verdicts": [], "histories": [],
                           "table": table_codes()}
    ctx.notes.append(f"file operations of Checkpointer.save recorded by {how}: {len(saves[0])} ops per save, payload writes "
                     f"{payload_sizes(saves[0])}")
    runs = []
    for opts in ctor_option_sets():
        try:
            s2, p2, h2 = trace_saves(ctx, opts)
        except Exception as e:  # noqa: BLE001 - the constructor may reject the value
            ctx.notes.append(f"constructor option {opts}: not traced ({err_name(e)})")
            continue
        runs.append({"opts": opts, "saves": s2, "payloads": p2, "how": h2})
    ctx.__dict__["c15"]["option_runs"] = runs
    ctx.notes.append("Checkpointer constructor options beyond save_directory / save_to_disk / model_regex found by "
                     f"introspection: {[r['opts'] for r in runs] or 'none'}")


def _scenarios(st):
    """(name, previous complete saves [(ops, payload, it, sid)], crashing save (ops, payload, it, sid))"""
    s, p = st["saves"], st["payloads"]
    a, b, c = (s[0], p[0], 5, 1), (s[1], p[1], 12, 2), (s[2], p[2], 12, 3)
    return [("no-prev", [], a, None), ("prev-other-label", [a], b, None), ("prev-same-label", [a, b], c, None),
            # an earlier save(12) died half way through its payload / right after opening the pointer's temporary:
            # stale model_12.pt.tmp / last_model.txt.tmp are lying around when save(12) runs again
            ("stale-model-tmp", [a], c, (b, 2, 1000)), ("stale-last-tmp", [a], c, (b, 6, None))]


def _crash_case(ctx, st, name, prev, new, pinned, n, m, stale=None):
    ops, payload, it, sid = new
    sizes = payload_sizes(ops)
    use = pinned_ops(it, sizes) if pinned else ops

    def impl():
        with toy.scratch_dir() as d:
            for pops, ppay, pit, _ in prev:
                apply_ops(d, pinned_ops(pit, payload_sizes(pops)) if pinned else pops, ppay, 10 ** 6, None)
            if stale is not None:
                (sops, spay, sit, _), sn, sm = stale
                apply_ops(d, pinned_ops(sit, payload_sizes(sops)) if pinned else sops, spay, sn, sm)
            before = real_load_verdict(d)
            apply_ops(d, use, payload, n, m)
            v = real_load_verdict(d)
        st["verdicts"].append({"scenario": name, "pinned": pinned, "n": n, "m": m, "verdict": v, "before": before,
                               "new": [it, sid], "nops": len(use),
                               "prev_of": [x for x in (prev[-1][2:4] if prev else [])]})
        return v

    prev_g = [v for (pops, ppay, pit, psid) in prev for v in (pit, psid, len(ppay))]
    inside = 0 < n < len(use) or (n == 0 and m is not None)
    groups = [[int(pinned)], prev_g, [it, sid, len(payload)], sizes, [n, -1 if m is None else m], [] if pinned else st["table"]]
    if stale is not None:
        (sops, spay, sit, ssid), sn, sm = stale
        groups.append([sit, ssid, len(spay), sn, -1 if sm is None else sm])
    return {"line": "crash " + " | ".join(ints(g) for g in groups),
            "impl": impl, "nontrivial": inside,
            "bucket": f"crash/{'pinned' if pinned else 'current'}/{name}/" + ("cut" if m is not None else "boundary")}


# --------------------------------------------------------------------------------------------------
# (ii') the second failure mode: an exception raised inside a write call of a save (Python unwinds)
import contextlib  # noqa: E402
import io  # noqa: E402


@contextlib.contextmanager
def raise_in_write(which: str, m: int, exc: BaseException):
    """make the payload write (`torch.save(data, f)`) / the label write (`f.write(str(iteration))`) of `Checkpointer.save` raise
    `exc` after `m` bytes have reached the file"""
    import direct.checkpointer as CK

    real_torch = CK.torch

    class TorchProxy:
        def __getattr__(self, n):
            return getattr(real_torch, n)

        def save(self, data, f, *a, **kw):
            buf = io.BytesIO()
            real_torch.save(data, buf)
            f.write(buf.getvalue()[:m])
            f.flush()
            raise exc

    class FileProxy:
        def __init__(self, f):
            self.f = f

        def write(self, b):
            self.f.write(b[:m])
            self.f.flush()
            raise exc

        def __enter__(self):
            self.f.__enter__()
            return self

        def __exit__(self, *a):
            return self.f.__exit__(*a)

        def __getattr__(self, n):
            return getattr(self.f, n)

    def popen(path, mode="r", *a, **kw):
        f = open(path, mode, *a, **kw)
        return FileProxy(f) if "b" not in mode and "w" in mode else f

    if which == "payload":
        CK.torch = TorchProxy()
    else:
        CK.open = popen
    try:
        yield
    finally:
        CK.torch = real_torch
        if which != "payload":
            del CK.open


EXC_SCENARIOS = [("no-prev", [], (5, 1)), ("prev-other-label", [(5, 1)], (12, 2)), ("prev-same-label", [(5, 1), (12, 2)], (12, 3)),
                 ("resave-latest", [(5, 1)], (5, 2))]


def real_exception_state(prev, new, which, m, exc_kind) -> tuple[str, str]:
    """REAL saves `prev` (complete), then the REAL save `new` whose payload / label write raises after m bytes; the exception
    unwinds through `save` (its `with` / `finally` clean-up runs) and ends the process.  Returns (verdict before, verdict after)
    of the real load('latest')."""
    from direct.checkpointer import Checkpointer
    from direct.data.lr_scheduler import WarmupMultiStepLR
    from direct.exceptions import ProcessKilledException

    exc = {0: OSError(28, "No space left on device"), 1: KeyboardInterrupt(), 2: ProcessKilledException(2, "SIGINT")}[exc_kind % 3]
    with toy.scratch_dir() as d:
        mdl = torch.nn.Linear(3, 2)
        o = torch.optim.Adam(mdl.parameters(), lr=0.25)
        s = WarmupMultiStepLR(o, milestones=[4, 9], gamma=0.5, warmup_factor=0.25, warmup_iterations=4)
        ck = Checkpointer(pathlib.Path(d), model=mdl, optimizer=o, lr_scheduler=s, __author__="x")

        def fill(sid):
            with torch.no_grad():
                for prm in mdl.parameters():
                    prm.fill_(float(sid))
        for it, sid in prev:
            fill(sid)
            ck.save(it)
        before = real_load_verdict(d)
        fill(new[1])
        try:
            with raise_in_write(which, m, exc):
                ck.save(new[0])
            raised = False
        except BaseException as e:  # noqa: BLE001
            raised = e is exc
        if not raised:
            raise ToolFailure("the injected exception did not leave Checkpointer.save")
        return before, real_load_verdict(d)


def unwind_codes(n_stmts: int) -> list[int]:
    """unwindFrom per statement of the save table as the translator reads it (-1 = none)"""
    from translate.gen import REPO as TREPO
    from translate.pyexpr import Untranslatable, find_function, parse_file
    from translate.recipes.c15 import CK, checkpointer_class, save_table_x

    try:
        tree = parse_file(TREPO / CK)
        rows = save_table_x(find_function(tree, "Checkpointer.save"), checkpointer_class(tree))
        out = [-1 if u is None else u for _, u in rows]
    except Untranslatable:
        out = []
    return out if len(out) == n_stmts else [-1, -1, 1, -1, -1, -1, 5, -1]


def exception_cases(st, thorough: bool):
    """(scenario, prev, new, which, m, exc kind, model crash point (n, m'))"""
    sizes = payload_sizes(st["saves"][0])
    total = sum(sizes)
    ops = st["saves"][0]
    first_w = next(i for i, o in enumerate(ops) if o[0] == "write" and name_code(o[1])[0] in (0, 1))
    label_w = next(i for i, o in enumerate(ops) if o[0] == "write" and name_code(o[1])[0] in (2, 3))
    cuts = sorted({0, 1, total // 2, total - 1} | ({total // 3, sizes[0], sizes[0] + 1} if thorough else set()))
    k = 0
    for name, prev, new in EXC_SCENARIOS:
        for m in cuts:
            n, mm, acc = first_w, m, 0
            for i, sz in enumerate(sizes):        # which payload write op the m-th byte falls into
                if m < acc + sz or i == len(sizes) - 1:
                    n, mm = first_w + i, m - acc
                    break
                acc += sz
            yield name, prev, new, "payload", m, k, (n, mm)
            k += 1
        for m in (0, 1):
            yield name, prev, new, "label", m, k, (label_w, m)
            k += 1


MALFORMED_LAST = ["", "abc", " 12\n", "+12", "-3", "12\n5", "012", "12.0", "\n12", "5 12", "12 ", "\t5\r\n"]


def correspondence(ctx: Ctx):
    st = ctx.__dict__["c15"]
    rng = ctx.rng
    # (i) traced operations of the real save vs the model's operation list
    for i, it in enumerate([5, 12, 12]):
        ops = st["saves"][i]
        yield {"line": "saveops " + ints([it, 0]) + " | " + ints(payload_sizes(ops)) + " | " + ints(st["table"])
                       + " | " + ints(deleted_labels(ops)),
               "impl": (lambda ops=ops: canon_ops(ops)), "nontrivial": True, "bucket": f"saveops/{st['how']}"}
    for run in st.get("option_runs", []):
        for i, it in enumerate([5, 12, 12]):
            ops = run["saves"][i]
            yield {"line": "saveops " + ints([it, 0]) + " | " + ints(payload_sizes(ops)) + " | " + ints(st["table"])
                           + " | " + ints(deleted_labels(ops)),
                   "key": ("saveops-opt", str(run["opts"]), i),
                   "impl": (lambda ops=ops: canon_ops(ops)), "nontrivial": True, "bucket": f"saveops/option/{run['how']}"}
    # (ii) every crash state, current order (traced) and pinned order (regression stream)
    for name, prev, new, stale in _scenarios(st):
        for pinned in (False, True):
            if pinned and stale is not None:
                continue
            ops = pinned_ops(new[2], payload_sizes(new[0])) if pinned else new[0]
            for n, m in crash_points(ops, ctx.thorough):
                yield _crash_case(ctx, st, name, prev, new, pinned, n, m, stale)
    # (ii') an exception raised inside a write call of the save (payload / label, every scenario incl. re-saving the label
    # 'latest' points to): the clean-up of the enclosing blocks runs, then the real load('latest')
    n_stmts = len(st["table"]) // 3 or 8
    unw = unwind_codes(n_stmts)
    payload_len = {1: len(st["payloads"][0]), 2: len(st["payloads"][1]), 3: len(st["payloads"][2])}
    for name, prev, new, which, m, ek, (n, mm) in exception_cases(st, ctx.thorough):
        def impl_exc(name=name, prev=prev, new=new, which=which, m=m, ek=ek):
            before, after = real_exception_state(prev, new, which, m, ek)
            st.setdefault("exc_verdicts", []).append({"scenario": name, "prev": prev, "new": list(new), "which": which, "m": m,
                                                      "exc": ek, "before": before, "after": after})
            return after
        plen = len(st["payloads"][0])
        groups = [[v for (it, sid) in prev for v in (it, sid, plen)], [new[0], new[1], plen], payload_sizes(st["saves"][0]),
                  [n, mm], st["table"], unw]
        yield {"line": "exc " + " | ".join(ints(g) for g in groups), "impl": impl_exc, "nontrivial": True,
               "bucket": f"exception-in-save/{which}/{name}"}
    # malformed directories: what load('latest') must reject
    pay = st["payloads"][0]
    for txt in MALFORMED_LAST:
        for present in ("complete", "truncated", "missing"):
            def impl(txt=txt, present=present):
                with toy.scratch_dir() as d:
                    pathlib.Path(d, "last_model.txt").write_text(txt)
                    for it in (5, 12):
                        if present != "missing":
                            pathlib.Path(d, f"model_{it}.pt").write_bytes(pay if present == "complete" else pay[: len(pay) // 2])
                    return real_load_verdict(d)
            w = {"complete": len(pay), "truncated": len(pay) // 2}.get(present)
            files = [] if w is None else [5, 1, len(pay), w, 12, 1, len(pay), w]
            yield {"line": "dirload " + ints([ord(ch) for ch in txt]) + " | " + ints(files), "impl": impl,
                   "nontrivial": True, "bucket": "dirload/" + present}
    yield {"line": "dirload -1 | " + ints([5, 1, len(pay), len(pay)]),
           "impl": lambda: _with_dir(lambda d: pathlib.Path(d, "model_5.pt").write_bytes(pay)), "nontrivial": False,
           "bucket": "dirload/no-last"}
    # scheduler closed form vs the real scheduler object stepped through a history
    for _ in range(ctx.budget(25, 300)):
        sc = toy.gen_cfg(rng)["sched"]
        if rng.random() < 0.15:
            sc["method"] = "cubic"
        if rng.random() < 0.1:
            sc["milestones"] = [9, 2]
        lo, hi = 0, rng.randint(1, 16)
        sg, ms = toy.sched_groups(sc)
        yield {"line": "lr " + ints(sg[:2] + [lo, hi]) + " | " + ints(sg[2:]) + " | " + ints(ms),
               "impl": (lambda sc=sc, hi=hi: _real_lr_sequence(sc, hi)), "nontrivial": hi >= 2,
               "bucket": "lr/" + sc["method"] + ("/unsorted" if sc["milestones"] != sorted(sc["milestones"]) else "")}
    # a real scheduler checkpointed at last_epoch e (real Checkpointer), restored and continued = the closed form
    for sc, total, e in resume_points(ctx):
        if sc["kind"] != "multistep":
            continue
        sg, ms = toy.sched_groups(sc)
        special = e in sc["milestones"] or e == sc["warmup_iters"]
        yield {"line": "lr " + ints(sg[:2] + [0, total]) + " | " + ints(sg[2:]) + " | " + ints(ms),
               "key": ("lr-resume", total, e, tuple(ms), sc["warmup_iters"], str(sc["wf"]), sc["method"], str(sc["base"])),
               "impl": (lambda sc=sc, total=total, e=e: "ok " + ints(toy.fr_pairs(_real_resumed_lrs(sc, total, e)))),
               "nontrivial": 0 < e < total, "bucket": "lr-resume/" + ("milestone-or-warmup-boundary" if special else "other")}
    # what load restores: saver / loader bundles, full / only_models / checkpointable_objects
    for _ in range(ctx.budget(40, 500)):
        saver, loader, mode, keys = gen_bundle(rng)
        yield {"line": "bundle " + " | ".join(ints(g) for g in ([v for kv in saver for v in kv], [v for kv in loader for v in kv],
                                                               [mode], keys)),
               "impl": (lambda a=saver, b=loader, m=mode, k=keys: real_bundle(a, b, m, k)),
               "nontrivial": len(saver) > 1 and len(loader) > 1, "bucket": "bundle/" + ["full", "only_models", "select"][mode]}
    # (iii) histories of real training processes
    for i in range(ctx.budget(24, 400)):
        c, stops = gen_history(rng, k=1 if i % 3 else rng.choice([2, 3]))
        yield {"line": toy.proto("train", toy.toy_groups(c, [c["ck"], 0]) + [[v for s in stops for v in s], st["table"]]),
               "impl": (lambda c=c, stops=stops: fmt_history(run_history(c, stops), st, c, stops)),
               "nontrivial": any(s[1] >= 5 for s in stops),
               "bucket": f"train/k{c['k']}/" + "+".join(sorted({["", "vanish", "kill", "crash"][s[0]] for s in stops}))}
    yield from engine_correspondence(ctx, st)


LOADREQ_LAST = [None, "5", "12", "7", "-1", "12\n", " 5 ", "abc", ""]


def engine_correspondence(ctx: Ctx, st):
    """the code around the core (Model/C15Engine.lean): load argument forms, Checkpointer API forms, Engine.train with
    validation data / mode flags / resume / initialization / start_with_validation / RuntimeError exits, scheduler +
    optimiser state through a real save / load, the trainer's milestones"""
    rng = ctx.rng
    pay = st["payloads"][0]
    aliases = eng.alias_codes()
    # Checkpointer.load(iteration): every argument form on materialised directories
    reqs = [(0, 0), (1, 0), (2, -1), (2, 5), (2, 12), (2, 7), (2, 0), (3, 0), (4, 0)]
    cases = [(txt, pres, rq) for txt in LOADREQ_LAST for pres in ("complete", "truncated", "missing") for rq in reqs]
    fixed = [c for c in cases if c[0] in (None, "5", "12") and c[1] == "complete"]
    for txt, present, (kind, n) in fixed + rng.sample([c for c in cases if c not in fixed], ctx.budget(30, 150)):
        w = {"complete": len(pay), "truncated": len(pay) // 2}.get(present)
        files = [] if w is None else [(5, 1, len(pay), w), (12, 1, len(pay), w)]
        last = [-1] if txt is None else [ord(ch) for ch in txt]
        yield {"line": "loadreq " + " | ".join(ints(g) for g in (aliases, last, [v for f in files for v in f], [kind, n])),
               "impl": (lambda txt=txt, files=files, kind=kind, n=n: eng.real_loadreq(txt, files, pay, kind, n)),
               "nontrivial": kind in (1, 2), "bucket": f"loadreq/{['none', 'latest', 'int', 'str', 'other'][kind]}/{present}"}
    # save / load through the API: DataParallel wrappers, strict model loading, kwargs, save_to_disk, request forms
    for _ in range(ctx.budget(60, 600)):
        case = eng.gen_ckapi(rng)
        hdr, sm, sa = case[0], case[1], case[2]
        yield {"line": eng.ckapi_line(case), "impl": (lambda case=case: eng.real_ckapi(*case)),
               "nontrivial": True,
               "bucket": "ckapi/" + ("dp" if sm[0] or (sa and sa[0]) or case[5][0] or (case[6] and case[6][0]) else "plain")
                         + "/" + {0: "none", 1: "latest", 2: "int", 3: "str", 4: "other", 9: "models_from_file"}[hdr[4]]
                         + ("" if hdr[0] else "/save_to_disk=False") + ("/kwargs" if case[4] else "")}
    # real Engine.train histories with validation data, mode-dependent additional model, initialization, swv, errors
    chain = eng.chain_codes()
    for i in range(ctx.budget(12, 200)):
        c, procs, val, theta = eng.gen_vhistory(rng, k=1 if i % 4 else rng.choice([2, 3]), restart={1: 1, 6: 0, 9: 1}.get(i))
        kinds = "+".join(sorted({["finish", "vanish", "kill", "crash", "error", "die"][p[0]] for p in procs[:-1]}))

        real_scaler = i % 3 == 2        # the engine's own (enabled) GradScaler instead of the counting stand-in

        def impl(c=c, procs=procs, val=val, theta=theta, real_scaler=real_scaler):
            out = eng.run_vhistory(c, procs, val, theta, real_scaler)
            st.setdefault("vhistories", []).append((c, procs, val, theta, out, real_scaler))
            return eng.fmt_vhistory(out)
        yield {"line": eng.vtrain_line(c, procs, val, theta, chain, st["table"]), "impl": impl,
               "nontrivial": any(p[1] >= 5 for p in procs[:-1]),
               "bucket": f"vtrain/k{c['k']}/" + ("val" if val[1] else "noval") + "/" + kinds
                         + ("/init" if any(p[4] for p in procs) else "") + ("/swv" if any(p[5] for p in procs) else "")
                         + ("/resume=False" if any(not p[3] for p in procs) else "") + ("/real-scaler" if real_scaler else "")}
    # scheduler + optimiser state through a real Checkpointer save / load into objects built with another learning rate
    for _ in range(ctx.budget(16, 200)):
        sc = toy.gen_cfg(rng)["sched"]
        e, more = rng.randint(0, 10), rng.randint(0, 5)
        lr2 = rng.choice([sc["base"], Fr(1, 16), Fr(3, 4)])
        optr, schr = rng.choice([(1, 1), (1, 1), (0, 1), (1, 0)])
        sg, ms = toy.sched_groups(sc)
        yield {"line": "lrstate " + " | ".join(ints(g) for g in (sg[:2], sg[2:], ms, [e, more] + toy.fr_pairs([lr2]) + [optr, schr])),
               "impl": (lambda sc=sc, e=e, more=more, lr2=lr2, optr=optr, schr=schr: eng.real_lrstate(sc, e, more, lr2, optr, schr)),
               "nontrivial": e >= 1, "bucket": f"lrstate/opt{optr}sch{schr}"}
    # the milestones direct/train.py computes
    for step, total in [(5000, 500000), (1, 1), (3, 10), (4, 12), (7, 5)] + \
            [(rng.randint(1, 9), rng.randint(0, 40)) for _ in range(ctx.budget(6, 60))]:
        yield {"line": f"solver {step} {total}", "impl": (lambda a=step, b=total: "ok " + ints(eng.real_solver_steps(a, b))),
               "nontrivial": total > step, "bucket": "solver_steps"}


def _with_dir(fill) -> str:
    with toy.scratch_dir() as d:
        fill(d)
        return real_load_verdict(d)


def _real_resumed_lrs(sc, total, e, lr2=None):
    """lr at last_epoch 0 … total-1 of a REAL scheduler that is checkpointed (real Checkpointer.save) when its
    last_epoch is `e`, restored into fresh objects (real load('latest'); built with learning rate `lr2` when given) and
    stepped on"""
    from direct.checkpointer import Checkpointer

    first = [True]

    def fresh():
        lr = sc["base"] if first[0] or lr2 is None else lr2
        first[0] = False
        o = torch.optim.SGD([torch.nn.Parameter(torch.zeros(1))], lr=float(lr))
        return o, toy.make_scheduler(o, sc)

    o, s = fresh()
    out = []
    for _ in range(e):
        out.append(o.param_groups[0]["lr"])
        o.step()
        s.step()
    with toy.scratch_dir() as d:
        Checkpointer(pathlib.Path(d), model=torch.nn.Linear(1, 1), optimizer=o, lr_scheduler=s).save(max(e - 1, 0))
        o, s = fresh()
        Checkpointer(pathlib.Path(d), model=torch.nn.Linear(1, 1), optimizer=o, lr_scheduler=s).load("latest")
    assert s.last_epoch == e
    for _ in range(e, total):
        out.append(o.param_groups[0]["lr"])
        o.step()
        s.step()
    return out


def gen_sched(rng, total, dyadic=True):
    sc = toy.gen_cfg(rng)["sched"]
    sc["milestones"] = sorted(rng.sample(range(1, max(total, 2) + 1), min(rng.randint(0, 4), max(total, 2))))
    sc["warmup_iters"] = rng.choice([0, 1, 2, 4, 8, 16])
    if not dyadic:
        sc.update(kind="cosine", max_iters=max(total, 1), wf=Fr(1, 1000), gamma=Fr(1, 10), base=Fr(3, 1000))
    return sc


def resume_points(ctx: Ctx):
    """(schedule, length T, resume point e): every e of every T in 1..60 in the thorough tier, a sample otherwise;
    always including the warm-up boundary and every milestone as resume point"""
    rng = ctx.rng
    for total in (range(1, 61) if ctx.thorough else sorted(rng.sample(range(1, 61), 5))):
        for dyadic in (True, False):
            sc = gen_sched(rng, total, dyadic)
            special = {0, total, sc["warmup_iters"], max(sc["warmup_iters"] - 1, 0)} | set(sc["milestones"]) | \
                {m - 1 for m in sc["milestones"]}
            pts = range(total + 1) if ctx.thorough else sorted({e for e in special if 0 <= e <= total} | {rng.randint(0, total)})
            for e in pts:
                yield sc, total, e


def custom_correspondence(ctx: Ctx):
    """WarmupCosineLR: resumed real scheduler = uninterrupted real scheduler bit for bit, and = the model's closed form
    (cos values handed over as exact rationals) up to float rounding (1e-12 relative)"""
    import math

    import core

    cases = [(sc, t, e) for sc, t, e in resume_points(ctx) if sc["kind"] == "cosine"]
    lines, reals = [], []
    dis = []
    for sc, total, e in cases:
        got = _real_resumed_lrs(sc, total, e)
        ref = _real_resumed_lrs(sc, total, 0)
        if got != ref:
            dis.append({"line": f"cosine resume at {e} of {total}", "impl": str(got), "model": str(ref), "key": "cosine-resume"})
        m = {"constant": 0, "linear": 1}.get(sc["method"], 2)
        cs = toy.fr_pairs([math.cos(math.pi * x / sc["max_iters"]) for x in range(total)])
        lines.append("lrcos " + ints([m, sc["warmup_iters"], 0, total, sc["max_iters"]]) + " | "
                     + ints(toy.fr_pairs([sc["base"], sc["wf"]])) + " | " + ints(cs))
        reals.append(got)
    # the driver was built by the main correspondence stream a moment ago: run it without taking the build lock again
    main = core.BUILD / f"Main_{PROP}.lean"
    if main.exists() and lines:
        r = subprocess.run(["lake", "env", "lean", "--run", str(main)], cwd=core.LEAN, input="\n".join(lines) + "\n",
                           capture_output=True, text=True, timeout=600)
        answers = r.stdout.rstrip("\n").split("\n") if r.returncode == 0 else None
    else:
        answers = None
    if answers is None or len(answers) != len(lines):
        answers = core.run_driver(PROP, lines)
    for (sc, total, e), ln, real, ans in zip(cases, lines, reals, answers):
        ctx.count(("lrcos", ln, e), total >= 2, bucket="lrcos/resume")
        ctx.traces += 1
        nums = [int(x) for x in ans[2:].split()] if ans.startswith("ok") else []
        vals = [Fr(nums[i], nums[i + 1]) for i in range(0, len(nums), 2)]
        if len(vals) != len(real) or any(abs(float(v) - r) > 1e-12 * max(abs(r), 1e-30) for v, r in zip(vals, real)):
            dis.append({"line": ln[:300], "impl": str(real)[:300], "model": ans[:300], "key": "lrcos"})
    return dis


def _real_lr_sequence(sc, hi) -> str:
    """lr written into the optimiser by the REAL scheduler at last_epoch 0 … hi-1 (stepping it)"""
    p = torch.nn.Parameter(torch.zeros(1))
    o = torch.optim.SGD([p], lr=float(sc["base"]))
    s = toy.make_scheduler(o, sc)
    out = []
    for e in range(hi):
        assert s.last_epoch == e
        out.append(o.param_groups[0]["lr"])
        o.step()
        s.step()
    return "ok " + ints(toy.fr_pairs(out))


# --------------------------------------------------------------------------------------------------
# (iii) histories
def gen_history(rng, k=1, opt=None, tmax=16):
    c = toy.gen_cfg(rng, k=k, T=rng.randint(6, 16) if tmax <= 16 else rng.randint(17, tmax), bs=rng.randint(1, 3))
    c["ck"] = rng.randint(1, 4) if tmax <= 16 else rng.choice([1, 3, 7, 10])
    if tmax > 16:      # a 17..60-iteration schedule with warm-up and milestones spread over it
        c["sched"] = dict(c["sched"], milestones=sorted(rng.sample(range(1, c["T"]), 3)), warmup_iters=rng.choice([4, 8, 16]))
    if opt is not None:
        c["opt"] = opt
    stops = []
    for _ in range(rng.choice([1, 1, 2, 3])):
        kind = rng.choice([1, 2, 2, 3])
        j = rng.randint(0, c["T"] - 1) if rng.random() < 0.25 else rng.randint(5, c["T"] - 1)
        stops.append([kind, j, rng.randint(0, 1) if kind == 2 else rng.randint(0, 5) if kind == 3 else 0])
    return c, stops


def run_history(c, stops):
    """the processes of a history on the REAL engine, then one that runs to the end"""
    out = []
    with toy.scratch_dir() as d:
        for kind, j, p in list(stops) + [[0, 0, 0]]:
            kw = {}
            if kind == 1:
                kw["vanish_at"] = j + 1
            elif kind == 2:
                kw["kill_at"], kw["kill_where"] = j, "pre" if p == 0 else "post"
            elif kind == 3:
                kw["crash"] = (j, p)
            try:
                out.append(toy.run_process(d, c, resume=True, **kw))
            except Exception as e:  # noqa: BLE001 - a process that cannot resume
                out.append({"failed": err_name(e), "detail": repr(e)[:300]})
                break
    return out


def fmt_history(procs, st=None, c=None, stops=None) -> str:
    if st is not None:
        st["histories"].append((c, stops, procs))
    gs = []
    for r in procs:
        if "failed" in r:
            return "err LoadFailed"
        gs += [[r["start"], len(r["records"]), r["latest"], r["last_epoch"], r["scaler"]], toy.fr_pairs(r["w"]),
               toy.fr_pairs([lr for _, lr in r["records"]])]
    return "ok " + " | ".join(ints(g) for g in gs)


def _hist_replay(c, stops, **kw):
    r = toy._cfg_replay(c, **kw)
    r.update({"op": "history", "stops": stops})
    return r


def check_history(c, stops, procs=None):
    """the property on a real history: every process resumes, and from each resume on the trajectory (parameters after
    every iteration, logged learning rates, final optimiser state) is bit-for-bit the one of the uninterrupted run"""
    procs = procs if procs is not None else run_history(c, stops)
    if any("failed" not in r and r["start"] % c["k"] != 0 for r in procs):
        return "misaligned"      # some process resumed inside an accumulation window: known finding, reported under C16
    full = toy.real_uninterrupted(c)
    kinds = "+".join(sorted({["", "vanish", "kill", "crash"][s[0]] for s in stops}))
    for i, r in enumerate(procs):
        if "failed" in r:
            return ("resume-load-fails", f"process {i} of the history {stops} cannot resume: {r['detail']}")
        for off, (w, lr) in enumerate(r["records"]):
            it = r["start"] + off
            fw, flr = full["records"][it]
            if w != fw or lr != flr:
                return (f"resume-differs-{kinds}", f"after stops {stops}: iteration {it} of process {i} (started at "
                        f"{r['start']}) gives w={w} lr={lr}; the uninterrupted run w={fw} lr={flr}")
    last = procs[-1]
    if last["w"] != full["w"] or last["last_epoch"] != full["last_epoch"] or not _state_equal(last["opt_state"], full["opt_state"]) \
            or last["scaler"] != full["scaler"]:
        return (f"resume-differs-{kinds}", f"after stops {stops} the final state differs from the uninterrupted run: "
                f"w {last['w']} vs {full['w']}, last_epoch {last['last_epoch']} vs {full['last_epoch']}, "
                f"scaler state {last['scaler']} vs {full['scaler']}")
    return None


def _state_equal(a, b) -> bool:
    if isinstance(a, dict) and isinstance(b, dict):
        return a.keys() == b.keys() and all(_state_equal(a[k], b[k]) for k in a)
    if isinstance(a, (list, tuple)) and isinstance(b, (list, tuple)):
        return len(a) == len(b) and all(_state_equal(x, y) for x, y in zip(a, b))
    if isinstance(a, torch.Tensor) and isinstance(b, torch.Tensor):
        return a.shape == b.shape and a.dtype == b.dtype and bool(torch.all((a == b) | (a.isnan() & b.isnan())))
    return a == b


# --------------------------------------------------------------------------------------------------
def _roundtrip_case(rng, opt_kind, sched_kind):
    """save → fresh objects → load('latest'): every state_dict identical"""
    from direct.checkpointer import Checkpointer
    from torch.cuda.amp import GradScaler

    dp_save, dp_load = rng.random() < 0.5, rng.random() < 0.5

    def build(seed, dp=False):
        torch.manual_seed(seed)
        m = torch.nn.Sequential(torch.nn.Linear(3, 4), torch.nn.Linear(4, 2))
        o = torch.optim.Adam(m.parameters(), lr=0.03) if opt_kind == "adam" else torch.optim.SGD(m.parameters(), lr=0.03, momentum=0.9)
        sc = {"kind": sched_kind, "milestones": [2, 5], "gamma": 0.1, "wf": 0.001, "warmup_iters": 3, "method": "linear",
              "max_iters": 20}
        sm = torch.nn.Linear(2, 2)          # an additional model, as in `self.models` (sensitivity_model)
        wrapped = torch.nn.DataParallel(m) if dp else m
        return m, o, toy.make_scheduler(o, sc), _fake_scaler(seed % 1000), sm, wrapped

    m, o, s, g, sm, wm = build(rng.randrange(10 ** 6), dp_save)
    steps = rng.randint(1, 8)
    for _ in range(steps):
        o.zero_grad()
        m(torch.randn(2, 3)).pow(2).sum().backward()
        o.step()
        s.step()
    with toy.scratch_dir() as d:
        Checkpointer(pathlib.Path(d), model=wm, optimizer=o, lr_scheduler=s, scaler=g, sensitivity_model=sm,
                     __author__="a").save(steps - 1)
        m2, o2, s2, g2, sm2, wm2 = build(rng.randrange(10 ** 6), dp_load)
        r = Checkpointer(pathlib.Path(d), model=wm2, optimizer=o2, lr_scheduler=s2, scaler=g2, sensitivity_model=sm2,
                         __author__="a").load("latest")
    s1d = {k: v for k, v in s.state_dict().items()}
    s2d = {k: v for k, v in s2.state_dict().items()}
    bad = []
    if r.get("iteration") != steps - 1:
        bad.append(f"iteration {r.get('iteration')} != {steps - 1}")
    if not _state_equal(m.state_dict(), m2.state_dict()):
        bad.append("model")
    if not _state_equal(o.state_dict(), o2.state_dict()):
        bad.append("optimizer")
    if not _state_equal(s1d, s2d):
        bad.append("lr_scheduler")
    if not _state_equal(g.state_dict(), g2.state_dict()):
        bad.append("scaler")
    if not _state_equal(sm.state_dict(), sm2.state_dict()):
        bad.append("additional model")
    return bad



# --------------------------------------------------------------------------------------------------
# what a checkpoint contains and what load restores (key universe of Model/Ckpt.lean : Bundle)
KEYNAMES = {0: "model", 1: "sensitivity_model", 2: "extra_model", 3: "optimizer", 4: "lr_scheduler", 5: "scaler",
            6: "__author__", 7: "plain"}


def _fake_scaler(sid):
    from torch.cuda.amp import GradScaler

    class FakeScaler(GradScaler):     # a HasStateDict with a non-trivial state (a real enabled GradScaler needs CUDA)
        def __init__(self, sid):
            super().__init__(enabled=False)
            self.sid = sid

        def state_dict(self):
            return {"sid": self.sid}

        def load_state_dict(self, st):
            self.sid = st["sid"]

    return FakeScaler(sid)


def make_obj(key, sid):
    from direct.data.lr_scheduler import WarmupMultiStepLR

    if key in (0, 1, 2):
        m = torch.nn.Linear(1, 1, bias=False)
        with torch.no_grad():
            m.weight.fill_(float(sid))
        return m
    if key == 3:
        return torch.optim.SGD([torch.nn.Parameter(torch.zeros(1))], lr=float(sid))
    if key == 4:
        sch = WarmupMultiStepLR(torch.optim.SGD([torch.nn.Parameter(torch.zeros(1))], lr=1.0), milestones=[], warmup_iterations=0)
        sch.last_epoch = sid
        return sch
    if key == 5:
        return _fake_scaler(sid)
    return str(sid) if key == 6 else float(sid)


def read_id(key, obj) -> int:
    if key in (0, 1, 2):
        return int(round(float(obj.weight.detach().flatten()[0])))
    if key == 3:
        return int(round(obj.param_groups[0]["lr"]))
    if key == 4:
        return int(obj.last_epoch)
    if key == 5:
        return int(obj.sid)
    return int(float(obj))


def real_bundle(saver, loader, mode, keys) -> str:
    """REAL Checkpointer.save then load / load_from_path(only_models) / load(checkpointable_objects=…)"""
    from direct.checkpointer import Checkpointer

    with toy.scratch_dir() as d:
        so = {KEYNAMES[k]: make_obj(k, v) for k, v in saver}
        Checkpointer(pathlib.Path(d), **so).save(3)
        lo = {KEYNAMES[k]: make_obj(k, v) for k, v in loader}
        ck = Checkpointer(pathlib.Path(d), **lo)
        try:
            if mode == 0:
                left = ck.load(3)
            elif mode == 1:
                left = ck.load_from_path(pathlib.Path(d) / "model_3.pt", only_models=True)
            else:
                left = ck.load(3, checkpointable_objects={KEYNAMES[k]: object() for k in keys})
        except KeyError:
            return "err KeyError"
    names = {v: k for k, v in KEYNAMES.items()}
    return "ok " + ints([read_id(k, lo[KEYNAMES[k]]) for k, _ in loader]) + " | " + ints([names[k] for k in left if k in names])


def gen_bundle(rng):
    def objs():
        ks = [0] + sorted(rng.sample(range(1, 8), rng.randint(0, 5)))
        return [(k, rng.randint(1, 9)) for k in ks]
    saver, loader = objs(), objs()
    if rng.random() < 0.4:
        loader = [(k, rng.randint(1, 9)) for k, _ in saver]
    mode = rng.choice([0, 0, 1, 2])
    keys = sorted(rng.sample(range(0 if rng.random() < 0.15 else 1, 8), rng.randint(0, 4))) if mode == 2 else []
    return saver, loader, mode, keys


OBSERVATIONS = [
    "an initialization URL with a query string or fragment is downloaded under os.path.basename(url) (query included) but "
    "looked up under Path(urlparse(url).path).name: FileNotFoundError; and the download cache is keyed by the base name only "
    "(a different URL with the same file name silently reuses the cached file) — initialization, not resume: outside the property",
    "scheduler.load_state_dict restores EVERY attribute (milestones, gamma, warm-up settings, base_lrs): a resumed run keeps the "
    "checkpoint's schedule even when the new configuration says otherwise (the same for the optimiser's param_groups)",
    "log_first_training_example_and_model (iteration 0 only) calls write_to_logs once more; not an event of the model",
    "Checkpointer.load(iteration, checkpointable_objects={name: obj}) only uses the dict's KEYS: the objects restored are "
    "self.checkpointables[name] (KeyError if the loader does not hold `name`; `model` is always restored); modelled as such "
    "(Bundle.Mode.select), compared with the real code on every run — not part of the property",
    "a SIGINT during iteration 0 makes the kill path die with ZeroDivisionError in CommonMetricPrinter.write (nothing is "
    "saved for iter_idx < 5 anyway)",
    "an object that is not a HasStateDict (e.g. an enabled torch.amp.GradScaler('cpu'), which is not a "
    "torch.cuda.amp.GradScaler) is silently left out of the checkpoint (theorem non_stateful_object_is_not_restored)",
]


def oracle(ctx: Ctx, deep: bool = False):
    rng = ctx.rng
    ctx.notes.extend("observation: " + o for o in OBSERVATIONS)
    st = ctx.__dict__.get("c15")
    if st is None:
        prepare(ctx)
        st = ctx.__dict__["c15"]
    # (a) crash safety on the real operation order: every materialised crash state loads the previous or the new checkpoint
    verdicts = [v for v in st["verdicts"] if not v["pinned"]]
    if not verdicts:
        for name, prev, new, stale in _scenarios(st):
            for n, m in crash_points(new[0], True):
                _crash_case(ctx, st, name, prev, new, False, n, m, stale)["impl"]()
        verdicts = [v for v in st["verdicts"] if not v["pinned"]]
    for v in verdicts:
        it, sid = v["new"]
        allowed = {f"ok 1 {it} {sid}"}
        allowed.add(f"ok 1 {v['prev_of'][0]} {v['prev_of'][1]}" if v["prev_of"] else "ok 0")
        if v["before"] not in allowed and v["before"].startswith("ok"):
            allowed.add(v["before"])     # stale-tmp scenarios: the crashed earlier save may already have put its file in place
        if v["before"].startswith("err"):
            yield Violation("crash-load-fails", f"directory left by an earlier crashed save ({v['scenario']}) does not load: "
                            f"`{v['before']}`", {"op": "crash", "scenario": v["scenario"], "n": -1, "m": None,
                                                 "observed": v["before"], "allowed": sorted(allowed)})
        ctx.count(("crash", v["scenario"], v["n"], v["m"]), 0 < v["n"] < v["nops"] or v["m"] is not None,
                  bucket="oracle/crash/" + v["scenario"])
        if v["verdict"] not in allowed:
            fails = v["verdict"].startswith("err")
            yield Violation("crash-load-fails" if fails else "crash-load-wrong-checkpoint",
                            f"process dies after {v['n']} file operations" + (f" and {v['m']} bytes of the next write" if v["m"] is not None else "")
                            + f" of save({it}) ({v['scenario']}): load('latest') gives `{v['verdict']}`, allowed {sorted(allowed)}",
                            {"op": "crash", "scenario": v["scenario"], "n": v["n"], "m": v["m"], "observed": v["verdict"],
                             "allowed": sorted(allowed)})
    # (a') an exception inside a write of the save: load('latest') gives what it gave before or the new checkpoint
    excs = st.get("exc_verdicts")
    if excs is None:
        excs = []
        for name, prev, new, which, m, ek, _ in exception_cases(st, True):
            b, a = real_exception_state(prev, new, which, m, ek)
            excs.append({"scenario": name, "prev": prev, "new": list(new), "which": which, "m": m, "exc": ek, "before": b, "after": a})
    for v in excs:
        ctx.count(("exc", v["scenario"], v["which"], v["m"]), True, bucket="oracle/exception-in-save/" + v["scenario"])
        allowed = {v["before"], f"ok 1 {v['new'][0]} {v['new'][1]}"}
        if v["after"] not in allowed or v["before"].startswith("err"):
            yield Violation("exception-in-save-corrupts",
                            f"saves {v['prev']} complete, then save{tuple(v['new'])} whose {v['which']} write raises "
                            f"{['OSError(ENOSPC)', 'KeyboardInterrupt', 'ProcessKilledException'][v['exc'] % 3]} after {v['m']} bytes "
                            f"(Python unwinds through save): load('latest') gives `{v['after']}`, allowed {sorted(allowed)}",
                            {"op": "exception", **v})
    # … and for every non-default constructor option found by introspection (e.g. a pruning option)
    for run in st.get("option_runs", []):
        for name, prev, new, stale in _scenarios(run)[:3]:
            ops, payload, it, sid = new
            for n, m in crash_points(ops, False):
                with toy.scratch_dir() as d:
                    for pops, ppay, _, _ in prev:
                        apply_ops(d, pops, ppay, 10 ** 6, None)
                    before = real_load_verdict(d)
                    apply_ops(d, ops, payload, n, m)
                    v = real_load_verdict(d)
                ctx.count(("crash-opt", str(run["opts"]), name, n, m), 0 < n < len(ops) or m is not None,
                          bucket="oracle/crash/option/" + name)
                allowed = {f"ok 1 {it} {sid}", before}
                if v not in allowed or before.startswith("err"):
                    yield Violation("crash-load-fails" if v.startswith("err") else "crash-load-wrong-checkpoint",
                                    f"Checkpointer({run['opts']}): process dies after {n} file operations"
                                    + (f" and {m} bytes of the next write" if m is not None else "")
                                    + f" of save({it}) ({name}; operations {[o[:2] for o in ops]}): load('latest') gives `{v}`, "
                                    f"allowed {sorted(allowed)}",
                                    {"op": "crash", "scenario": name, "n": n, "m": m, "observed": v, "allowed": sorted(allowed),
                                     "opts": run["opts"]})
                    break
    # 'latest' = most recent completed save
    for i, (name, prev, new, stale) in enumerate(_scenarios(st)):
        with toy.scratch_dir() as d:
            for pops, ppay, _, _ in prev:
                apply_ops(d, pops, ppay, 10 ** 6, None)
            if stale is not None:
                apply_ops(d, stale[0][0], stale[0][1], stale[1], stale[2])
            apply_ops(d, new[0], new[1], 10 ** 6, None)
            got = real_load_verdict(d)
        ctx.count(("latest", name), True, bucket="oracle/latest")
        if got != f"ok 1 {new[2]} {new[3]}":
            yield Violation("latest-not-last-complete", f"after complete saves ({name}) load('latest') gives `{got}`",
                            {"op": "latest", "scenario": name, "observed": got})
    # (b) save → load round trip of every state_dict (this also answers: does torch.load accept a real checkpoint at all?)
    for i in range(ctx.budget(8, 60)):
        ok, sk = ["adam", "sgd"][i % 2], ["multistep", "cosine"][(i // 2) % 2]
        ctx.count(("roundtrip", ok, sk, i), True, bucket=f"oracle/roundtrip/{ok}/{sk}")
        sub_seed = rng.randrange(2 ** 31)
        try:
            bad = _roundtrip_case(random.Random(sub_seed), ok, sk)
        except Exception as e:  # noqa: BLE001
            bad = [f"raises {err_name(e)}: {e}"[:300]]
        if bad:
            yield Violation("roundtrip-" + ("load-raises" if bad[0].startswith("raises") else "state-differs"),
                            f"save then load('latest') does not restore: {bad}", {"op": "roundtrip", "opt": ok, "sched": sk,
                                                                                 "rng_seed": sub_seed})
    # (c) interrupted histories vs the uninterrupted run, bit for bit (k = 1)
    hs = list(st["histories"])
    for i in range(ctx.budget(14, 150) + (60 if deep else 0)):
        opt = [("adam",), ("sgd", Fr(1, 2)), ("adam",)][i % 3]
        kk = 1 if i % 4 else rng.choice([2, 3])
        c, stops = gen_history(rng, k=kk, opt=opt, tmax=60 if (ctx.thorough or deep) and i % 3 == 0 else 16)
        if kk > 1:     # SIGINTs at window boundaries (and anything else: misaligned histories are recognised and skipped)
            stops = [[2, max(5, s[1] - s[1] % kk + (kk if s[1] % kk else 0)) if s[1] - s[1] % kk + kk < c["T"] else s[1], s[2] % 2]
                     if rng.random() < 0.8 else s for s in stops]
        if i % 2:
            c["sched"] = dict(c["sched"], kind="cosine", max_iters=c["T"], gamma=Fr(1, 10), wf=Fr(1, 1000))
        hs.append((c, stops, None))
    for c, stops, procs in hs:
        ctx.count(("history", toy.proto("h", toy.toy_groups(c, [c["ck"]])), str(c["opt"]), c["sched"]["kind"], str(stops)),
                  any(s[1] >= 5 for s in stops),
                  bucket=f"oracle/history/k{c['k']}/{c['opt'][0]}/{c['sched']['kind']}/" + "+".join(sorted({['', 'vanish', 'kill', 'crash'][s[0]] for s in stops})))
        bad = check_history(c, stops, procs)
        if bad == "misaligned":
            ctx.hist["oracle/history/misaligned-skipped"] = ctx.hist.get("oracle/history/misaligned-skipped", 0) + 1
        elif bad:
            yield Violation(bad[0], bad[1], _hist_replay(c, stops))
    yield from engine_oracle(ctx, st, deep)


# --------------------------------------------------------------------------------------------------
# the property on the real engine / Checkpointer around the core
def check_vhistory(c, procs, val, theta, out=None, real_scaler=False):
    """processes that all resume (same `initialization` flag): every process is on the trajectory of the uninterrupted
    run — which, with an initialization checkpoint, is the fresh run started from the file's model weights — including the
    training-mode flags of the models; bit for bit"""
    out = out if out is not None else eng.run_vhistory(c, procs, val, theta, real_scaler)
    if any("failed" not in r and r["start"] % c["k"] != 0 for r in out):
        return "misaligned"
    d = c["d"]
    ini = bool(procs[0][4])
    ref_c = dict(c, w0=[float(v) for v in theta[:d]]) if ini else c
    with toy.scratch_dir() as tmp:
        full = eng.run_vprocess(tmp, ref_c, resume=False, val_steps=val[0], has_val=val[1], aux0=theta[d:] if ini else None,
                                real_scaler=real_scaler)
    kinds = "+".join(sorted({["finish", "vanish", "kill", "crash", "error", "die"][p[0]] for p in procs[:-1]})) or "finish"
    for i, r in enumerate(out):
        if "failed" in r:
            return ("resume-load-fails", f"process {i} of {procs} cannot start: {r['detail']}")
        for off, rec in enumerate(r["records"]):
            it = r["start"] + off
            if it >= len(full["records"]) or rec != full["records"][it]:
                ref = full["records"][it] if it < len(full["records"]) else None
                key = "validation-leaves-aux-models-in-eval" if ref is not None and rec[2] != ref[2] else \
                    ("initialization-restores-training-state" if ini and r["start"] == 0 else f"resume-differs-{kinds}")
                return (key, f"processes {procs} (validation every {val[0]}, data={val[1]}, initialization={ini}): iteration "
                        f"{it} of process {i} (started at {r['start']}) gives (w, lr, aux.training, model.training)={rec}; "
                        f"the uninterrupted run {ref}")
    last = out[-1]
    if last["w"] != full["w"] or last["last_epoch"] != full["last_epoch"] or not _state_equal(last["opt_state"], full["opt_state"]) \
            or last["scaler"] != full["scaler"] or last["flag"] != full["flag"] or last["scaler_state"] != full["scaler_state"]:
        key = "scaler-state-not-restored" if last["scaler_state"] != full["scaler_state"] and last["w"] == full["w"] \
            else f"resume-differs-{kinds}"
        return (key, f"after processes {procs} the final state differs from the uninterrupted run: "
                f"w {last['w']} vs {full['w']}, last_epoch {last['last_epoch']} vs {full['last_epoch']}, scaler "
                f"{last['scaler']} vs {full['scaler']} (GradScaler state {last['scaler_state']} vs {full['scaler_state']}), "
                f"aux.training {last['flag']} vs {full['flag']}")
    return None


def check_restart(c, val, theta, ini):
    """a run leaves checkpoints; `Engine.train(resume=False[, initialization])` on the same directory must start at iteration 0
    on the trajectory of a fresh run (from the initialization file's weights when given)"""
    d = c["d"]
    with toy.scratch_dir() as tmp:
        init = eng.make_init_file(os.path.join(tmp, "init"), c, theta)
        exp = os.path.join(tmp, "exp")
        os.mkdir(exp)
        eng.run_vprocess(exp, c, stop=(1, c["T"] - 2, 0), resume=True, val_steps=val[0], has_val=val[1])
        r = eng.run_vprocess(exp, c, resume=False, init_path=init if ini else None, val_steps=val[0], has_val=val[1])
    ref_c = dict(c, w0=[float(v) for v in theta[:d]]) if ini else c
    with toy.scratch_dir() as tmp:
        full = eng.run_vprocess(tmp, ref_c, resume=False, val_steps=val[0], has_val=val[1], aux0=theta[d:] if ini else None)
    if r["start"] != 0 or r["records"] != full["records"]:
        return (f"Engine.train(resume=False, initialization={bool(ini)}) over a directory with checkpoints started at iteration "
                f"{r['start']} with {len(r['records'])} iterations; first record {r['records'][:1]}, fresh run {full['records'][:1]}")
    return None


def _vh_replay(c, procs, val, theta, real_scaler=False):
    r = toy._cfg_replay(c)
    r.update({"op": "vhistory", "procs": procs, "val": list(val), "theta": [str(v) for v in theta], "real_scaler": real_scaler})
    return r


def api_checks(rng):
    """[(bucket, key, what, replay-case)] for the Checkpointer API stated directly on the real code; what is None when fine"""
    from direct.checkpointer import Checkpointer

    out = []
    P = eng.PMod
    # DataParallel / plain in every combination: save → load restores the saver's values under the loader's names
    for sdp, ldp, adp, bdp in [(a, b, x, y) for a in (0, 1) for b in (0, 1) for x in (0, 1) for y in (0, 1)]:
        names = sorted(rng.sample(range(4), rng.randint(1, 3)))
        vals = [(n, rng.randint(1, 9)) for n in names]
        avals = [(n, rng.randint(1, 9)) for n in names[:2]]
        case = {"kind": "dp", "flags": [sdp, ldp, adp, bdp], "vals": vals, "avals": avals}
        out.append(("dp", "dataparallel-roundtrip", _api_case(case), case))
    for case in ({"kind": "missing"}, {"kind": "save_to_disk"}, {"kind": "forms"}, {"kind": "models_only"}, {"kind": "rank"},
                 {"kind": "sched_keys"}, {"kind": "url"}):
        out.append((case["kind"], {"missing": "partial-model-load", "save_to_disk": "save-to-disk-false-writes",
                                   "forms": "load-argument-forms", "models_only": "initialization-restores-training-state",
                                   "rank": "non-main-process-writes", "sched_keys": "scheduler-state-incomplete",
                                   "url": "initialization-from-url"}[case["kind"]],
                    _api_case(case), case))
    return out


def _api_case(case):
    """returns a description of the violation, or None"""
    from direct.checkpointer import Checkpointer

    P, wrap = eng.PMod, eng._wrap
    try:
        with toy.scratch_dir() as d:
            dp = pathlib.Path(d)
            if case["kind"] == "dp":
                sdp, ldp, adp, bdp = case["flags"]
                vals, avals = [tuple(v) for v in case["vals"]], [tuple(v) for v in case["avals"]]
                Checkpointer(dp, model=wrap(P(vals), sdp), sensitivity_model=wrap(P(avals), adp)).save(2)
                m, a = P([(n, 0) for n, _ in vals]), P([(n, 0) for n, _ in avals])
                Checkpointer(dp, model=wrap(m, ldp), sensitivity_model=wrap(a, bdp)).load("latest")
                got = m.values([n for n, _ in vals]), a.values([n for n, _ in avals])
                want = [v for _, v in vals], [v for _, v in avals]
                return None if got == want else f"wrappers (saver model/aux, loader model/aux) = {case['flags']}: loaded {got}, saved {want}"
            if case["kind"] == "missing":
                Checkpointer(dp, model=P([(0, 5)]), sensitivity_model=P([(0, 6)])).save(2)
                for kw in ({"model": P([(0, 1), (1, 1)]), "sensitivity_model": P([(0, 1)])},
                           {"model": P([(0, 1)]), "sensitivity_model": P([(0, 1), (2, 1)])}):
                    try:
                        Checkpointer(dp, **kw).load(2)
                    except Exception:  # noqa: BLE001
                        continue
                    return "a module with a parameter that is not in the checkpoint was loaded without an error (partial load)"
                return None
            if case["kind"] == "save_to_disk":
                Checkpointer(dp, save_to_disk=False, model=P([(0, 5)])).save(2)
                left = sorted(os.listdir(d))
                return None if not left else f"Checkpointer(save_to_disk=False).save wrote {left}"
            if case["kind"] == "forms":
                m0 = P([(0, 5)])
                Checkpointer(dp, model=m0).save(4)
                Checkpointer(dp, model=P([(0, 7)])).save(9)
                res = {}
                for name, arg in (("latest", "latest"), ("-1", -1), ("9", 9), ("4", 4), ("None", None)):
                    m = P([(0, 1)])
                    ck = Checkpointer(dp, model=m)
                    r = ck.load(arg)
                    res[name] = (r.get("iteration") if r else None, m.values([0])[0], ck.checkpoint_loaded)
                want = {"latest": (9, 7, 9), "-1": (9, 7, 9), "9": (9, 7, 9), "4": (4, 5, 4), "None": (None, 1, None)}
                if res != want:
                    return f"load argument forms (iteration, weight, checkpoint_loaded): {res}, expected {want}"
                for bad in ("newest", 2.5):
                    try:
                        Checkpointer(dp, model=P([(0, 1)])).load(bad)
                    except ValueError:
                        continue
                    except Exception as e:  # noqa: BLE001
                        return f"load({bad!r}) raises {err_name(e)} instead of ValueError"
                    return f"load({bad!r}) is accepted"
                return None
            if case["kind"] == "models_only":
                so = {3: make_obj(3, 4), 4: make_obj(4, 6), 5: make_obj(5, 8)}
                Checkpointer(dp, model=P([(0, 5)]), sensitivity_model=P([(0, 6)]), optimizer=so[3], lr_scheduler=so[4],
                             scaler=so[5]).save(11)
                lo = {3: make_obj(3, 1), 4: make_obj(4, 2), 5: make_obj(5, 3)}
                m, a = P([(0, 1)]), P([(0, 1)])
                Checkpointer(dp, model=m, sensitivity_model=a, optimizer=lo[3], lr_scheduler=lo[4],
                             scaler=lo[5]).load_models_from_file(dp / "model_11.pt")
                got = (m.values([0])[0], a.values([0])[0], [read_id(k, lo[k]) for k in (3, 4, 5)])
                return None if got == (5, 6, [1, 2, 3]) else \
                    f"load_models_from_file: (model, additional model, [optimizer, lr_scheduler, scaler]) = {got}, expected (5, 6, [1, 2, 3])"
            if case["kind"] == "url":
                # an initialization checkpoint given as a URL: fetched into the download cache, then only the models are loaded
                import direct.checkpointer as CK

                src, cache = dp / "remote", dp / "cache"
                src.mkdir()
                Checkpointer(src, model=P([(0, 5)]), optimizer=make_obj(3, 4)).save(11)
                real_dl, real_dir = CK.download_url, CK.DIRECT_MODEL_DOWNLOAD_DIR

                def fake_download(url, root, **kw):
                    os.makedirs(root, exist_ok=True)
                    shutil.copy(src / os.path.basename(url), pathlib.Path(root) / os.path.basename(url))
                CK.download_url, CK.DIRECT_MODEL_DOWNLOAD_DIR = fake_download, cache
                try:
                    m, o = P([(0, 1)]), make_obj(3, 2)
                    Checkpointer(dp / "exp", model=m, optimizer=o).load_models_from_file("https://example.org/zoo/v1/model_11.pt")
                finally:
                    CK.download_url, CK.DIRECT_MODEL_DOWNLOAD_DIR = real_dl, real_dir
                got = (m.values([0])[0], read_id(3, o))
                return None if got == (5, 2) else f"load_models_from_file(URL): (model, optimizer) = {got}, expected (5, 2)"
            if case["kind"] == "rank":
                c = toy.gen_cfg(random.Random(3), k=1, T=8, bs=1)
                c["ck"] = 2
                r = eng.run_vprocess(d, c, resume=True, main_process=False, has_val=False)
                left = sorted(f for f in os.listdir(d) if f.startswith("model_") or f.startswith("last_model"))
                return None if not left and len(r["records"]) == 8 else f"a process that is not the main process wrote {left}"
            if case["kind"] == "sched_keys":
                for kind in ("multistep", "cosine"):
                    o = torch.optim.SGD([torch.nn.Parameter(torch.zeros(1))], lr=0.5)
                    sc = {"kind": kind, "milestones": [2], "gamma": 0.5, "wf": 0.5, "warmup_iters": 2, "method": "linear", "max_iters": 9}
                    keys = set(toy.make_scheduler(o, sc).state_dict())
                    if not eng.SCHED_STATE_KEYS[kind] <= keys or "optimizer" in keys:
                        return f"{kind} scheduler state_dict has keys {sorted(keys)}"
                    if not {"lr", "initial_lr"} <= set(o.state_dict()["param_groups"][0]):
                        return "optimizer state_dict lacks lr / initial_lr"
                return None
    except Exception as e:  # noqa: BLE001
        return f"raises {err_name(e)}: {e}"[:300]
    return None


def engine_oracle(ctx: Ctx, st, deep: bool):
    rng = ctx.rng
    # (d) histories on the real engine with validation data, mode-dependent additional model, swv, initialization
    # nothing the engine hands to its Checkpointer may be dropped by the HasStateDict filter of `save`
    for key, kind in eng.train_objects():
        ctx.count(("train-object", key), True, bucket="oracle/train-objects/" + kind)
        if kind == "dropped":
            yield Violation("checkpointable-dropped:" + key,
                            f"Engine.train hands `{key}` to the Checkpointer, but it fails isinstance(obj, get_args(HasStateDict)) "
                            f"in Checkpointer.save: it is left out of every checkpoint (only a logger warning)",
                            {"op": "train-objects", "key": key})
    hs = [(c, procs, val, theta, out, rs) for (c, procs, val, theta, out, rs) in st.get("vhistories", [])
          if all(p[3] for p in procs) and len({p[4] for p in procs}) == 1]
    for i in range(ctx.budget(6, 120) + (30 if deep else 0)):
        c, procs, val, theta = eng.gen_vhistory(rng, k=1 if i % 3 else 2)
        ini = int(rng.random() < 0.4)
        procs = [[p[0], p[1], p[2], 1, ini, p[5]] for p in procs if p[3]]
        c["opt"] = [("sgd", Fr(1, 2)), ("adam",), ("sgd", Fr(0))][i % 3]
        if i % 4 == 3:
            c["sched"] = dict(c["sched"], kind="cosine", max_iters=c["T"], gamma=Fr(1, 10), wf=Fr(1, 1000))
        hs.append((c, procs, (val[0], True if i % 2 == 0 else val[1]), theta, None, i % 2 == 1))
    for c, procs, val, theta, out, rs in hs:
        ctx.count(("vhistory", toy.proto("h", toy.toy_groups(c, [c["ck"]])), str(c["opt"]), str(procs), str(val)),
                  any(p[1] >= 5 for p in procs[:-1]),
                  bucket=f"oracle/vhistory/k{c['k']}/{c['opt'][0]}/" + ("val" if val[1] else "noval") +
                         ("/init" if procs[0][4] else "") + ("/swv" if any(p[5] for p in procs) else "") +
                         ("/real-scaler" if rs else ""))
        bad = check_vhistory(c, procs, val, theta, out, rs)
        if bad == "misaligned":
            ctx.hist["oracle/vhistory/misaligned-skipped"] = ctx.hist.get("oracle/vhistory/misaligned-skipped", 0) + 1
        elif bad:
            yield Violation(bad[0], bad[1], _vh_replay(c, procs, val, theta, rs))
    # resume=False ignores whatever the directory holds (with and without an initialization checkpoint)
    for ini in (0, 1):
        c, _, val, theta = eng.gen_vhistory(rng, k=1)
        ctx.count(("restart", ini, toy.proto("h", toy.toy_groups(c, [c["ck"]]))), True, bucket="oracle/restart-resume=False")
        bad = check_restart(c, val, theta, ini)
        if bad:
            yield Violation("resume-false-resumes", bad, dict(_vh_replay(c, [], val, theta), op="restart", ini=ini))
    # (e) the Checkpointer API
    for bucket, key, what, case in api_checks(rng):
        ctx.count(("api", str(case)), True, bucket="oracle/api/" + bucket)
        if what:
            yield Violation(key, what, {"op": "api", "case": case})
    # (f) scheduler resumed into objects built with another learning rate = uninterrupted, bit for bit
    for i in range(ctx.budget(6, 60)):
        total = rng.randint(4, 24)
        sc = gen_sched(rng, total, dyadic=bool(i % 2))
        e = rng.randint(1, total)
        lr2 = rng.choice([0.75, 0.0625, 2.0])
        ctx.count(("lr-other-constructor", i, total, e), True, bucket="oracle/lr-resume-other-constructor-lr/" + sc["kind"])
        got, ref = _real_resumed_lrs(sc, total, e, lr2), _real_resumed_lrs(sc, total, 0)
        if got != ref:
            yield Violation("lr-resume-differs", f"{sc['kind']} scheduler checkpointed at last_epoch {e} and restored into objects "
                            f"built with lr {lr2}: learning rates {got}, uninterrupted {ref}",
                            {"op": "lr2", "sched": {k: (str(v) if isinstance(v, Fr) else v) for k, v in sc.items()},
                             "total": total, "e": e, "lr2": lr2})


def replay(rep: dict) -> bool:
    if rep.get("op") == "history":
        c = toy._cfg_from_replay(rep)
        return check_history(c, rep["stops"]) not in (None, "misaligned")
    if rep.get("op") == "crash" and rep.get("opts"):
        ctx = Ctx(PROP, "quick", 0)
        saves, payloads, _ = trace_saves(ctx, rep["opts"])
        for name, prev, new, stale in _scenarios({"saves": saves, "payloads": payloads})[:3]:
            if name == rep["scenario"]:
                with toy.scratch_dir() as d:
                    for pops, ppay, _, _ in prev:
                        apply_ops(d, pops, ppay, 10 ** 6, None)
                    apply_ops(d, new[0], new[1], rep["n"], rep["m"])
                    return real_load_verdict(d) not in rep["allowed"]
    if rep.get("op") == "crash":
        ctx = Ctx(PROP, "quick", 0)
        prepare(ctx)
        st = ctx.__dict__["c15"]
        for name, prev, new, stale in _scenarios(st):
            if name == rep["scenario"]:
                v = _crash_case(ctx, st, name, prev, new, False, max(rep["n"], 0), rep["m"], stale)["impl"]()
                return v not in rep["allowed"]
    if rep.get("op") == "roundtrip":
        return bool(_roundtrip_case(random.Random(rep["rng_seed"]), rep["opt"], rep["sched"]))
    if rep.get("op") == "vhistory":
        c = toy._cfg_from_replay(rep)
        return check_vhistory(c, rep["procs"], tuple(rep["val"]), [Fr(v) for v in rep["theta"]],
                              real_scaler=bool(rep.get("real_scaler"))) not in (None, "misaligned")
    if rep.get("op") == "train-objects":
        return dict(eng.train_objects()).get(rep["key"]) == "dropped"
    if rep.get("op") == "exception":
        b, a = real_exception_state([tuple(x) for x in rep["prev"]], tuple(rep["new"]), rep["which"], rep["m"], rep["exc"])
        return a not in {b, f"ok 1 {rep['new'][0]} {rep['new'][1]}"}
    if rep.get("op") == "restart":
        c = toy._cfg_from_replay(rep)
        return check_restart(c, tuple(rep["val"]), [Fr(v) for v in rep["theta"]], rep["ini"]) is not None
    if rep.get("op") == "api":
        return _api_case(rep["case"]) is not None
    if rep.get("op") == "lr2":
        sc = {k: (Fr(v) if k in ("gamma", "wf", "base") else v) for k, v in rep["sched"].items()}
        return _real_resumed_lrs(sc, rep["total"], rep["e"], rep["lr2"]) != _real_resumed_lrs(sc, rep["total"], 0)
    return True
