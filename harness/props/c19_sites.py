"""C19 phase 2 — per-site oracle: the data-consistency physics re-implemented inside the unrolled models.

Every site is exercised on the REAL module with tiny parameters.  The modules get *recording* forward / backward
operators (they take them as constructor arguments) and the functions `expand_operator` / `reduce_operator` are
wrapped in the module's namespace (observation only: the module still computes with its own composition).  From the
recorded events the data-consistency term the module computed is compared with an independent reference:

    grad(x)  = autograd gradient of 1/2 || M F E x - y ||^2     (image-domain sites)
    M (k - y)                                                    (soft DC in k-space)
    A x = M F E x,  A^H k = R F^H M k                            (operator pairs; adjointness)
    y + (1 - M) F E x                                            (hard DC of the engines)

`SITE_TABLE` is the (site, form, verdict) table of the report; the bridge lemma named there pins the AST.
"""
from __future__ import annotations

import contextlib
import functools
import importlib
import math
import types

import boot  # noqa: F401
import torch

# (site, where, form in the model, relation to the data-fidelity term, bridge lemma(s), oracle)
SITE_TABLE = [
    ("MRILogLikelihood.forward", "nn/rim/rim.py", "loglik", "s·A^H(A x − M y): gradient of s·½‖M F E x − y‖²", "loglik_plan_sem",
     "autograd, all flags"),
    ("RIM.forward → grad_likelihood", "nn/rim/rim.py", "loglik (call)", "argument order (image, k-space, S, mask, scaling)",
     "rim_llg_call_args", "hook on the block inside a real RIM"),
    ("RIMBlock.forward → grad_likelihood (CIRIM)", "nn/cirim/cirim.py", "loglik (call)", "argument order (image, k-space, S, mask)",
     "cirim_llg_call_args", "hook on the block inside a real RIMBlock"),
    ("RIMBlock.forward soft_dc (CIRIM)", "nn/cirim/cirim.py", "softDC", "M(k − y): gradient of ½‖M k − M y‖² in k-space",
     "site_cirim_softdc_sem", "returned k-space"),
    ("RIMBlock.forward returned k-space (CIRIM)", "nn/cirim/cirim.py", "cirimKspace",
     "y − M(k − y) − F E x: DIFFERS — model prediction enters un-masked with a minus sign; not a gradient step",
     "site_cirim_kspace_sem", "closed form on the real block"),
    ("EndToEndVarNetBlock.forward kspace_error", "nn/varnet/varnet.py", "softDC", "M(k − y): k-space gradient; pulled back = image gradient",
     "site_varnet_softdc_sem", "exact (zero regulariser): k − out"),
    ("EndToEndVarNetBlock.forward regulariser in/out", "nn/varnet/varnet.py", "sense / feOp", "R F^H k and F E x (no mask, by design)",
     "site_varnet_reg_in_sem, site_varnet_reg_out_sem", "events"),
    ("RecurrentVarNetBlock.forward kspace_error", "nn/recurrentvarnet/recurrentvarnet.py", "softDC", "M(k − y)",
     "site_rvn_softdc_sem", "exact (zero recurrent unit): k − out"),
    ("RecurrentVarNetBlock.forward recurrent in/out", "nn/recurrentvarnet/recurrentvarnet.py", "sense / feOp", "R F^H k and F E x",
     "site_rvn_reg_in_sem, site_rvn_reg_out_sem", "events"),
    ("VSharpNet.forward dc", "nn/vsharp/vsharp.py", "dcGradAfter", "R F^H M(F E x − y) = A^H(A x − M y): the gradient",
     "site_vsharp_dc_sem", "events vs autograd, every ADMM/DC step"),
    ("VSharpNet3D.forward dc", "nn/vsharp/vsharp.py", "dcGradAfter (dims (3,4))", "same, per slice", "site_vsharp3d_dc_sem",
     "events vs autograd"),
    ("VSharpNet.forward / IterDualNet.forward initialisation", "nn/vsharp, nn/iterdualnet", "sense(y)", "R F^H y (zero-filled SENSE)",
     "site_vsharp_init_sem, site_iterdual_init_sem", "events"),
    ("JointICNet._forward_operator / _backward_operator", "nn/jointicnet/jointicnet.py", "aOp / aStar", "A = M F E and A^H = R F^H M",
     "site_jointic_fwd_sem, site_jointic_bwd_sem", "direct call, adjointness"),
    ("JointICNet.forward step_image data term", "nn/jointicnet/jointicnet.py", "dcGradTwice", "A^H(A x − y) = A^H(A x − M y): the gradient",
     "site_jointic_image_dc_sem", "events vs autograd (current sensitivity map)"),
    ("JointICNet.forward step_sensitivity_map data term", "nn/jointicnet/jointicnet.py", "sensGrad",
     "F^H M(A x − y)·conj(x): gradient w.r.t. the sensitivity map", "site_jointic_sens_grad_sem", "events: k-space residual part"),
    ("IterDualNet._forward_operator / _backward_operator", "nn/iterdualnet/iterdualnet.py", "aOp / aStar", "A and A^H",
     "site_iterdual_fwd_sem, site_iterdual_bwd_sem", "direct call, adjointness"),
    ("IterDualNet.forward dc_out", "nn/iterdualnet/iterdualnet.py", "dcGradTwice", "A^H(A x − y): the gradient", "site_iterdual_dc_sem",
     "events vs autograd"),
    ("LPDNet._forward_operator / _backward_operator", "nn/lpd/lpd.py", "aOp / aStar", "A and A^H", "site_lpd_fwd_sem, site_lpd_bwd_sem",
     "direct call, adjointness"),
    ("CrossDomainNetwork (XPDNet) _forward_operator / _backward_operator", "nn/crossdomain/crossdomain.py", "aOp / aStar", "A and A^H",
     "site_xpd_fwd_sem, site_xpd_bwd_sem", "direct call, adjointness"),
    ("MRIVarSplitNet.forward dc", "nn/varsplitnet/varsplitnet.py", "loglik", "s·A^H(A x − M y): literally the likelihood-gradient block",
     "site_varsplit_dc_sem", "events vs autograd"),
    ("KIKINet.forward image / k-space steps", "nn/kikinet/kikinet.py", "aStar / aOp", "A^H k and A x", "site_kiki_image_sem, site_kiki_kspace_sem",
     "events + sub-module hooks"),
    ("MultiDomainNet / MultiDomainConv2d", "nn/multidomainnet", "—", "no data-consistency term: operators only switch domains (dims (1,2))",
     "—", "—"),
    ("MRIModelEngine._forward_operator / _backward_operator", "nn/mri_models.py", "aOp / aStar", "A and A^H",
     "site_engine_fwd_sem, site_engine_bwd_sem", "direct call (duck-typed self), adjointness"),
    ("SSLMRIModelEngine / JSSLMRIModelEngine._do_iteration", "nn/ssl/mri_models.py", "hardDC", "y + (1 − M) F E x: sampled = data, unsampled = model",
     "site_ssl_harddc_sem, site_jssl_harddc_sem", "real _do_iteration in inference mode (duck-typed self)"),
    ("VSharpNetSSLEngine._do_iteration (training and inference branches)", "nn/vsharp/vsharp_engine.py", "hardDC", "y + (1 − M) F E x",
     "site_vsharp_ssl_harddc0_sem, site_vsharp_ssl_harddc1_sem", "real _do_iteration in inference mode (duck-typed self)"),
    ("VSharpNetJSSLEngine._do_iteration", "nn/vsharp/vsharp_engine.py", "hardDC (training branch only)",
     "y + (1 − M) F E x while training; DIFFERS in inference: returns |x| of the network output with NO data consistency "
     "(VSharpNetSSLEngine applies it)", "site_vsharp_jssl_harddc0_sem", "bridge only"),
    ("VSharpNetEngine / VSharpNet3DEngine.forward_function", "nn/vsharp/vsharp_engine.py", "hardDC (padding inside)", "y + (1 − M) pad(F E x)",
     "site_vsharp_engine_harddc_sem, site_vsharp3d_engine_harddc_sem", "real forward_function (duck-typed self)"),
]

ZERO = torch.tensor([0.0])


# ----------------------------------------------------------------------------------------------------
class Recorder:
    """recording forward/backward operators + wrapped expand/reduce"""

    def __init__(self, fop, bop):
        self.fop, self.bop = fop, bop
        self.events: list[dict] = []

    def forward_operator(self, data, dim=(2, 3), **kw):
        out = self.fop(data, dim=tuple(dim))
        self.events.append({"op": "fwd", "in": data.detach().clone(), "out": out.detach().clone(), "dim": tuple(dim)})
        return out

    def backward_operator(self, data, dim=(2, 3), **kw):
        out = self.bop(data, dim=tuple(dim))
        self.events.append({"op": "bwd", "in": data.detach().clone(), "out": out.detach().clone(), "dim": tuple(dim)})
        return out

    @contextlib.contextmanager
    def patched(self, *module_names):
        import direct.data.transforms as T

        mods = [T] + [importlib.import_module(m) for m in module_names]
        saved = []
        orig = {"expand_operator": T.expand_operator, "reduce_operator": T.reduce_operator}

        def make(name):
            f = orig[name]

            @functools.wraps(f)
            def wrapper(*a, **k):
                out = f(*a, **k)
                first = a[0] if a else (k.get("coil_data") if name == "reduce_operator" else k.get("data"))
                sens = a[1] if len(a) > 1 else k.get("sensitivity_map")
                dim = a[2] if len(a) > 2 else k.get("dim", 0)
                self.events.append({"op": "expand" if name == "expand_operator" else "reduce", "in": first.detach().clone(),
                                    "out": out.detach().clone(), "sens": sens.detach().clone(), "dim": dim})
                return out
            return wrapper

        wrappers = {n: make(n) for n in orig}
        try:
            for m in mods:
                for n, w in wrappers.items():
                    if hasattr(m, n):
                        saved.append((m, n, getattr(m, n)))
                        setattr(m, n, w)
            yield self
        finally:
            for m, n, f in saved:
                setattr(m, n, f)

    def ops(self, seq=None):
        return [e["op"] for e in (self.events if seq is None else seq)]

    def chains(self, pattern: list[str]):
        """all maximal consecutive occurrences of `pattern` in the event stream"""
        names = self.ops()
        out = []
        i = 0
        while i + len(pattern) <= len(names):
            if names[i:i + len(pattern)] == pattern:
                out.append(self.events[i:i + len(pattern)])
                i += len(pattern)
            else:
                i += 1
        return out


def real_ops(centered: bool):
    import direct.data.transforms as T

    return (functools.partial(T.fft2, centered=centered, normalized=True), functools.partial(T.ifft2, centered=centered, normalized=True))


class _Hist:
    """call histories on PERSISTENT instances (phase 3).

    While `active`, `persist(tag, build)` hands every site check the module it built in the first step of the history
    (with its recorder, events cleared) instead of a new one, and `problem()` follows the directive of the current step:

      "fresh"   new tensor objects (the first step always is)
      "refill"  the SAME S / y / mask tensor objects, their content replaced in place by a new problem
      "remask"  the same objects; only the mask (and the k-space, re-masked in place from the same full data) changes
      "clone"   new objects with the content of the previous step
      "same"    the very same objects, unchanged (a repeated call)

    A result that depends on anything but the content of the current arguments — a term memoised under the identity,
    `id()`, `data_ptr()`, shape or device of an argument, a flag left on the instance — then differs from the reference
    the check computes independently from the current content."""
    active = False
    step = 0
    directive = "fresh"
    models: dict = {}
    slots: dict = {}
    calls = 0

    @classmethod
    def begin(cls):
        cls.active, cls.step, cls.directive, cls.models, cls.slots = True, 0, "fresh", {}, {}

    @classmethod
    def end(cls):
        cls.active, cls.models, cls.slots = False, {}, {}

    @classmethod
    def next(cls, k, directive):
        cls.step, cls.directive, cls.calls = k, directive, 0


class _Cfg:
    """coil count override and `nn.Module.training` for the modules the site checks build (set by `configure`)"""
    coils = None
    mode = "train"


def configure(coils=None, mode="train"):
    _Cfg.coils, _Cfg.mode = coils, mode


def _apply_mode(obj):
    if isinstance(obj, torch.nn.Module):
        obj.train(_Cfg.mode == "train")
    return obj


def persist(tag: str, build):
    """`build() -> (module, recorder or None)`; one instance per history"""
    if not _Hist.active:
        obj, rec = build()
        return _apply_mode(obj), rec
    if tag not in _Hist.models:
        _Hist.models[tag] = build()
    obj, rec = _Hist.models[tag]
    if rec is not None:
        rec.events = []
    return _apply_mode(obj), rec


def _fresh_problem(seed: int, shape, mask_kind, extra_dims):
    n_, c_, h_, w_ = shape
    g = torch.Generator().manual_seed(seed)
    full = (n_, c_) + tuple(extra_dims) + (h_, w_)
    S = torch.randn(*full, 2, generator=g)
    yfull = torch.randn(*full, 2, generator=g)
    mshape = (n_, 1) + tuple(1 for _ in extra_dims) + (h_, w_, 1)
    if mask_kind == "full":
        m = torch.ones(mshape, dtype=torch.bool)
    elif mask_kind == "empty":
        m = torch.zeros(mshape, dtype=torch.bool)
    else:
        m = torch.rand(mshape, generator=g) < 0.5
    return S, yfull, m, g


def problem(seed: int, shape, mask_kind="random", extra_dims=()):
    """random float32 problem: S, y (masked), mask of shape (N, 1, [1,] H, W, 1)"""
    if _Cfg.coils is not None:
        shape = (shape[0], _Cfg.coils) + tuple(shape[2:])
    if not _Hist.active:
        S, yfull, m, g = _fresh_problem(seed, shape, mask_kind, extra_dims)
        return S, torch.where(m == 0, ZERO, yfull), m, g
    key = (tuple(shape), tuple(extra_dims), _Hist.calls)
    _Hist.calls += 1
    d, slot = _Hist.directive, _Hist.slots.get(key)
    S2, yf2, m2, g = _fresh_problem(seed + 7919 * _Hist.step, shape, mask_kind, extra_dims)
    if slot is None or d == "fresh":
        slot = {"S": S2, "yfull": yf2, "m": m2, "y": torch.where(m2 == 0, ZERO, yf2)}
    elif d == "refill":
        slot["S"].copy_(S2)
        slot["yfull"] = yf2
        slot["m"].copy_(m2)
        slot["y"].copy_(torch.where(m2 == 0, ZERO, yf2))
    elif d == "remask":
        slot["m"].copy_(m2)
        slot["y"].copy_(torch.where(m2 == 0, ZERO, slot["yfull"]))
    elif d == "clone":
        slot = {"S": slot["S"].clone(), "yfull": slot["yfull"], "m": slot["m"].clone(), "y": slot["y"].clone()}
    elif d != "same":
        raise ValueError(d)
    _Hist.slots[key] = slot
    return slot["S"], slot["y"], slot["m"], g


HISTORY_SCRIPTS = [
    ["fresh", "refill", "remask", "same", "clone", "refill"],
    ["fresh", "remask", "remask", "fresh", "refill"],
    ["fresh", "same", "refill", "clone", "remask"],
]


def run_site(name: str, seed: int, centered: bool, mask_kind: str, coils=None, mode="train"):
    configure(coils, mode)
    try:
        return dict(SITE_CHECKS)[name](seed, centered, mask_kind)
    finally:
        configure()


def run_site_history(name: str, seed: int, centered: bool, script, mask_kinds=None, coils=None, mode="train"):
    """run one site check `len(script)` times on persistent instances -> (relations checked, fails, failing step)"""
    fn = dict(SITE_CHECKS)[name]
    total, fails = 0, []
    _Hist.begin()
    configure(coils, mode)
    try:
        for k, d in enumerate(script):
            _Hist.next(k, d)
            mk = (mask_kinds or ["random"] * len(script))[k]
            n, f = fn(seed, centered, mk)
            total += n
            if f:
                return total, [(key, f"[history step {k} of {script}: {d}] {what}") for key, what in f], k
    finally:
        _Hist.end()
        configure()
    return total, fails, None


def ref_A(fop, x, S, m, dims=(2, 3)):
    import direct.data.transforms as T

    return torch.where(m == 0, ZERO, fop(T.expand_operator(x, S, dim=1), dim=dims))


def ref_grad(fop, x, S, m, y, dims=(2, 3)):
    """autograd gradient of 1/2 || M F E x - y ||^2 (x of shape (N, [D,] H, W, 2))"""
    xi = x.detach().clone().requires_grad_(True)
    loss = 0.5 * ((ref_A(fop, xi, S, m, dims) - y) ** 2).sum()
    g, = torch.autograd.grad(loss, xi)
    return g


def rel(a, b, extra_scale=0.0):
    return float((a - b).norm()) / (float(b.norm()) + extra_scale + 1e-12)


def close(a, b, tol=2e-4, extra_scale=0.0):
    return tuple(a.shape) == tuple(b.shape) and rel(a, b, extra_scale) <= tol


# ====================================================================================================
# the individual site checks: each returns (number of relations checked, [(key, what), ...])
def _fail(key, what):
    return (key, what)


def site_vsharp(seed, centered, three_d=False, mask_kind="random"):
    from direct.nn.types import InitType
    from direct.nn.vsharp.vsharp import VSharpNet, VSharpNet3D

    torch.manual_seed(seed)
    fop, bop = real_ops(centered)

    def build():
        rec = Recorder(fop, bop)
        if three_d:
            return VSharpNet3D(rec.forward_operator, rec.backward_operator, num_steps=2, num_steps_dc_gd=2, image_init=InitType.SENSE,
                               no_parameter_sharing=False, initializer_channels=(2, 2, 4), initializer_dilations=(1, 1, 1),
                               initializer_multiscale=1, auxiliary_steps=-1, unet_num_filters=2, unet_num_pool_layers=1), rec
        return VSharpNet(rec.forward_operator, rec.backward_operator, num_steps=2, num_steps_dc_gd=2, image_init=InitType.SENSE,
                         no_parameter_sharing=False, initializer_channels=(2, 2, 4), initializer_dilations=(1, 1, 1),
                         initializer_multiscale=1, auxiliary_steps=-1, image_unet_num_filters=2, image_unet_num_pool_layers=2), rec

    model, rec = persist("vsharp3d" if three_d else "vsharp", build)
    if three_d:
        S, y, m, _ = problem(seed, (2, 2, 4, 4), mask_kind, extra_dims=(2,))
        dims, tag = (3, 4), "vsharp3d"
    else:
        S, y, m, _ = problem(seed, (2, 2, 8, 8), mask_kind)
        dims, tag = (2, 3), "vsharp"
    with rec.patched("direct.nn.vsharp.vsharp"), torch.no_grad():
        model(y, S, m)
    fails, n = [], 0
    ev = rec.events
    if rec.ops()[:2] != ["bwd", "reduce"] or not close(ev[1]["out"], _sense(bop, y, S, dims)):
        fails.append(_fail(f"site-{tag}-init", "SENSE initialisation is not R F^H y"))
    n += 1
    chains = rec.chains(["expand", "fwd", "bwd", "reduce"])
    if len(chains) != 4:
        fails.append(_fail(f"site-{tag}-dc", f"expected 4 expand→forward→backward→reduce chains, saw {len(chains)}"))
    for ch in chains:
        n += 1
        x, dc = ch[0]["in"], ch[3]["out"]
        g = ref_grad(fop, x, S, m, y, dims)
        if ch[1]["dim"] != dims or ch[2]["dim"] != dims or not close(dc, g, extra_scale=_gscale(S, x, y)):
            fails.append(_fail(f"site-{tag}-dc", f"dc differs from the gradient of ½‖M F E x − y‖²: rel {rel(dc, g):.3g}"))
            break
    return n, fails


def _sense(bop, k, S, dims=(2, 3)):
    import direct.data.transforms as T

    return T.reduce_operator(bop(k, dim=dims), S, dim=1)


def _gscale(S, x, y):
    s = float(S.abs().max()) * math.sqrt(S.shape[1])
    return 1e-2 * s * (float(y.norm()) + s * float(x.norm()))


def site_varsplit(seed, centered, mask_kind="random"):
    from direct.nn.get_nn_model_config import ModelName
    from direct.nn.varsplitnet.varsplitnet import MRIVarSplitNet

    torch.manual_seed(seed)
    fop, bop = real_ops(centered)

    def build():
        rec = Recorder(fop, bop)
        return MRIVarSplitNet(rec.forward_operator, rec.backward_operator, 2, 2, "sense", False, ModelName.UNET, True, None,
                              image_unet_num_filters=2, image_unet_num_pool_layers=2), rec

    model, rec = persist("varsplit", build)
    S, y, m, g = problem(seed, (2, 2, 8, 8), mask_kind)
    scal = torch.tensor([0.5, 2.0]) if (seed + _Hist.step) % 2 else None
    with rec.patched("direct.nn.varsplitnet.varsplitnet"), torch.no_grad():
        model(y, S, m, scal)
    fails, n = [], 0
    chains = rec.chains(["expand", "fwd", "bwd", "reduce"])
    if len(chains) != 4:
        fails.append(_fail("site-varsplit-dc", f"expected 4 DC chains, saw {len(chains)}"))
    sc = torch.ones(2) if scal is None else scal
    for ch in chains:
        n += 1
        x, dc = ch[0]["in"], ch[3]["out"]
        # scaling enters twice (s·E x and s·M y) and the operators are linear: dc = s · grad
        gref = ref_grad(fop, x, S, m, y) * sc.reshape(-1, 1, 1, 1)
        if not close(dc, gref, extra_scale=_gscale(S, x, y)):
            fails.append(_fail("site-varsplit-dc", f"dc differs from s·gradient: rel {rel(dc, gref):.3g}"))
            break
    return n, fails


def site_iterdual(seed, centered, mask_kind="random"):
    from direct.nn.iterdualnet.iterdualnet import IterDualNet

    torch.manual_seed(seed)
    fop, bop = real_ops(centered)

    def build():
        rec = Recorder(fop, bop)
        return IterDualNet(rec.forward_operator, rec.backward_operator, num_iter=2, image_unet_num_filters=2, image_unet_num_pool_layers=2,
                           kspace_unet_num_filters=2, kspace_unet_num_pool_layers=2), rec

    model, rec = persist("iterdual", build)
    S, y, m, _ = problem(seed, (2, 2, 8, 8), mask_kind)
    with rec.patched("direct.nn.iterdualnet.iterdualnet"), torch.no_grad():
        model(y, m, S)
    fails, n = [], 1
    ev = rec.events
    if rec.ops()[:2] != ["bwd", "reduce"] or not close(ev[1]["out"], _sense(bop, y, S)):
        fails.append(_fail("site-iterdual-init", "initialisation is not R F^H y"))
    # per step: [expand fwd] f, [bwd reduce] k-space model, [expand fwd bwd reduce] data consistency
    body = ev[2:]
    per = ["expand", "fwd", "bwd", "reduce", "expand", "fwd", "bwd", "reduce"]
    if [e["op"] for e in body] != per * 2:
        fails.append(_fail("site-iterdual-dc", f"unexpected operator sequence {[e['op'] for e in body]}"))
        return n, fails
    for it in range(2):
        ch = body[8 * it + 4: 8 * it + 8]
        n += 1
        x, dc = ch[0]["in"], ch[3]["out"]
        g = ref_grad(fop, x, S, m, y)
        if not close(dc, g, extra_scale=_gscale(S, x, y)):
            fails.append(_fail("site-iterdual-dc", f"dc_out differs from the gradient: rel {rel(dc, g):.3g}"))
            break
    return n, fails


def site_jointic(seed, centered, mask_kind="random"):
    from direct.nn.jointicnet.jointicnet import JointICNet

    torch.manual_seed(seed)
    fop, bop = real_ops(centered)

    def build():
        rec = Recorder(fop, bop)
        return JointICNet(rec.forward_operator, rec.backward_operator, 2, False, image_unet_num_filters=2, image_unet_num_pool_layers=2,
                          kspace_unet_num_filters=2, kspace_unet_num_pool_layers=2, sens_unet_num_filters=2,
                          sens_unet_num_pool_layers=2), rec

    model, rec = persist("jointic", build)
    # an empty mask makes JointICNet divide by max|A^H y| = 0 (NaN by construction): not a data-consistency question
    S, y, m, _ = problem(seed, (1, 2, 8, 8), "random" if mask_kind == "empty" else mask_kind)
    with rec.patched("direct.nn.jointicnet.jointicnet"), torch.no_grad():
        model(y, m, S)
    fails, n = [], 0
    quads = rec.chains(["expand", "fwd", "bwd", "reduce"])
    if len(quads) != 2:
        fails.append(_fail("site-jointic-image-dc", f"expected 2 image-step chains, saw {len(quads)}: {rec.ops()}"))
    for ch in quads:
        n += 1
        x, Scur, dc = ch[0]["in"], ch[0]["sens"], ch[3]["out"]
        g = ref_grad(fop, x, Scur, m, y)
        if not close(dc, g, extra_scale=_gscale(Scur, x, y)):
            fails.append(_fail("site-jointic-image-dc", f"image-step data term differs from the gradient: rel {rel(dc, g):.3g}"))
            break
    # sensitivity step: expand, fwd, bwd (not followed by reduce): F^H M (A x − y)
    names = rec.ops()
    for i in range(len(names) - 3):
        if names[i:i + 3] == ["expand", "fwd", "bwd"] and names[i + 3] != "reduce":
            n += 1
            e = rec.events
            x, Scur = e[i]["in"], e[i]["sens"]
            want = bop(torch.where(m == 0, ZERO, ref_A(fop, x, Scur, m) - y), dim=(2, 3))
            if not close(e[i + 2]["out"], want, extra_scale=_gscale(Scur, x, y)):
                fails.append(_fail("site-jointic-sens-grad", "k-space residual of the sensitivity step is not F^H M(A x − y)"))
                break
    return n, fails


def site_kiki(seed, centered, mask_kind="random"):
    from direct.nn.kikinet.kikinet import KIKINet

    torch.manual_seed(seed)
    fop, bop = real_ops(centered)

    def build():
        rec = Recorder(fop, bop)
        return KIKINet(rec.forward_operator, rec.backward_operator, image_model_architecture="UNET", kspace_model_architecture="CONV",
                       num_iter=2, image_unet_num_filters=2, image_unet_num_pool_layers=2, kspace_conv_hidden_channels=2,
                       kspace_conv_n_convs=2), rec

    model, rec = persist("kiki", build)
    S, y, m, _ = problem(seed, (1, 2, 8, 8), mask_kind)
    kout, iout, kin = [], [], []
    hooks = []

    def _khook(mod, i, o):
        kin.append(i[0].detach().clone())
        kout.append(_t(o).detach().clone())

    def _ihook(mod, i, o):
        iout.append(_t(o).detach().clone())

    for mod in {id(q): q for q in model.kspace_model_list}.values():      # the list repeats ONE module
        hooks.append(mod.register_forward_hook(_khook))
    for mod in {id(q): q for q in model.image_model_list}.values():
        hooks.append(mod.register_forward_hook(_ihook))
    try:
        with rec.patched("direct.nn.kikinet.kikinet"), torch.no_grad():
            model(y, m, S)
    finally:
        for h in hooks:
            h.remove()
    fails, n = [], 0
    ev = rec.events
    if rec.ops() != ["bwd", "reduce", "expand", "fwd", "bwd", "reduce"]:
        return 0, [_fail("site-kiki", f"unexpected operator sequence {rec.ops()}")]
    for it, (bi, ri) in enumerate(((0, 1), (4, 5))):
        n += 1
        k = kout[it].permute(0, 1, 3, 4, 2).contiguous()
        want = _sense(bop, torch.where(m == 0, ZERO, k), S)
        if not close(ev[ri]["out"], want):
            fails.append(_fail("site-kiki-image", "image step is not A^H k = R F^H M k"))
    n += 1
    x = iout[0].permute(0, 2, 3, 1).contiguous()
    want = ref_A(fop, x, S, m).permute(0, 1, 4, 2, 3)
    if not close(ev[2]["in"], x) or not close(kin[1], want):
        fails.append(_fail("site-kiki-kspace", "k-space step is not A x = M F E x"))
    return n, fails


def _t(o):
    return o[0] if isinstance(o, (tuple, list)) else o


class _ZeroImage(torch.nn.Module):
    def forward(self, x, *a):
        return torch.zeros_like(x)


class _ZeroRecurrent(torch.nn.Module):
    def forward(self, x, h):
        return torch.zeros_like(x), h


def site_varnet_blocks(seed, centered, mask_kind="random"):
    """EndToEndVarNetBlock / RecurrentVarNetBlock with a zero regulariser: out = k − lr · M(k − y)"""
    from direct.nn.recurrentvarnet.recurrentvarnet import RecurrentVarNetBlock
    from direct.nn.varnet.varnet import EndToEndVarNetBlock

    torch.manual_seed(seed)
    fop, bop = real_ops(centered)
    S, y, m, g = problem(seed, (2, 3, 6, 5), mask_kind)
    k = torch.randn(y.shape, generator=g)
    fails, n = [], 0
    for tag, make in (("varnet", lambda r: EndToEndVarNetBlock(r.forward_operator, r.backward_operator, _ZeroImage())),
                      ("rvn", lambda r: RecurrentVarNetBlock(r.forward_operator, r.backward_operator, 2, 4, 1))):

        def build(tag=tag, make=make):
            rec = Recorder(fop, bop)
            blk = make(rec)
            if tag == "rvn":
                blk.regularizer = _ZeroRecurrent()
            return blk, rec

        blk, rec = persist("varnet-blocks/" + tag, build)
        lr = 0.75
        with torch.no_grad():
            blk.learning_rate.fill_(lr)
        mod = "direct.nn.varnet.varnet" if tag == "varnet" else "direct.nn.recurrentvarnet.recurrentvarnet"
        with rec.patched(mod), torch.no_grad():
            out = blk(k, y, m, S) if tag == "varnet" else blk(k, y, m, S, None)[0]
        n += 3
        want = k - lr * torch.where(m == 0, ZERO, k - y)
        if not close(out, want, tol=1e-6):
            fails.append(_fail(f"site-{tag}-softdc", f"block output is not k − lr·M(k − y) for a zero regulariser: rel {rel(out, want):.3g}"))
        ev = rec.events
        if rec.ops() != ["bwd", "reduce", "expand", "fwd"]:
            fails.append(_fail(f"site-{tag}-reg", f"unexpected operator sequence {rec.ops()}"))
            continue
        if not close(ev[0]["in"], k) or not close(ev[1]["out"], _sense(bop, k, S)):
            fails.append(_fail(f"site-{tag}-reg", "image fed to the regulariser is not R F^H k"))
        if not close(ev[3]["in"], ev[2]["out"]) or float(ev[2]["in"].abs().max()) != 0.0:
            fails.append(_fail(f"site-{tag}-reg", "regulariser output is not mapped by F E"))
    return n, fails


def site_cirim(seed, centered, mask_kind="random"):
    from direct.nn.cirim.cirim import RIMBlock
    from direct.nn.rim.rim import RIM

    torch.manual_seed(seed)
    fop, bop = real_ops(centered)
    S, y, m, g = problem(seed, (1, 2, 8, 8), mask_kind)
    k = torch.randn(y.shape, generator=g)
    fails, n = [], 0
    for tag in ("cirim", "rim"):
        calls = []

        def build(tag=tag):
            rec = Recorder(fop, bop)
            if tag == "cirim":
                return RIMBlock(rec.forward_operator, rec.backward_operator, depth=1, in_channels=2, hidden_channels=4, time_steps=2,
                                no_parameter_sharing=False), rec
            return RIM(rec.forward_operator, rec.backward_operator, hidden_channels=4, length=2, depth=1, no_parameter_sharing=False), rec

        blk, rec = persist("cirim-rim/" + tag, build)
        def _lhook(mod, i, o, calls=calls):
            calls.append((tuple(a.detach().clone() for a in i if isinstance(a, torch.Tensor)), o.detach().clone()))

        h = blk.grad_likelihood.register_forward_hook(_lhook)
        try:
            with rec.patched("direct.nn.cirim.cirim", "direct.nn.rim.rim"), torch.no_grad():
                if tag == "cirim":
                    ks, _ = blk(k, y, m, S, None, parameter_sharing=False)
                else:
                    x0 = _sense(bop, y, S)
                    blk(x0, y, m, S, loglikelihood_scaling=torch.tensor([0.5]))
        finally:
            h.remove()
        if len(calls) != 2:
            fails.append(_fail(f"site-{tag}-llg", f"expected 2 calls of the likelihood-gradient block, saw {len(calls)}"))
        for args, out in calls:
            n += 1
            x = args[0].permute(0, 2, 3, 1)
            gref = ref_grad(fop, x, S, m, y).permute(0, 3, 1, 2) * (0.5 if tag == "rim" else 1.0)
            if not close(out, gref, extra_scale=_gscale(S, x, y)):
                fails.append(_fail(f"site-{tag}-llg", f"likelihood gradient inside {tag.upper()} differs from autograd: rel {rel(out, gref):.3g}"))
                break
        if tag == "cirim":
            fwds = [e for e in rec.events if e["op"] == "fwd"][-2:]
            exps = [e for e in rec.events if e["op"] == "expand"][-2:]
            for kout, f, e in zip(ks, fwds, exps):
                n += 1
                want = y - torch.where(m == 0, ZERO, k - y) - fop(e["out"], dim=(2, 3))
                if not close(kout, want, tol=1e-5) or not close(f["in"], e["out"]):
                    fails.append(_fail("site-cirim-kspace", "returned k-space is not y − M(k − y) − F E x"))
                    break
            n += 1
            red = [e for e in rec.events if e["op"] == "reduce"][0]
            if not close(red["out"], _sense(bop, k, S)):
                fails.append(_fail("site-cirim-image", "current estimate is not R F^H k"))
    return n, fails


def _fake_self(fop, bop, dims=(2, 3)):
    return types.SimpleNamespace(forward_operator=fop, backward_operator=bop, _coil_dim=1, _spatial_dims=dims, _complex_dim=-1)


def site_operator_pairs(seed, centered, mask_kind="random"):
    """_forward_operator / _backward_operator of the models and of the engine: A, A^H, adjointness"""
    import direct.data.transforms as T
    from direct.nn.crossdomain.crossdomain import CrossDomainNetwork
    from direct.nn.iterdualnet.iterdualnet import IterDualNet
    from direct.nn.jointicnet.jointicnet import JointICNet
    from direct.nn.lpd.lpd import LPDNet
    from direct.nn.mri_models import MRIModelEngine

    fop, bop = real_ops(centered)
    S, y, m, g = problem(seed, (2, 3, 5, 6), mask_kind)
    x = torch.randn(2, 5, 6, 2, generator=g)
    k = torch.randn(y.shape, generator=g)
    me, _ = persist("operator-pairs", lambda: (_fake_self(fop, bop), None))
    Ax, Ahk = ref_A(fop, x, S, m), _sense(bop, torch.where(m == 0, ZERO, k), S)
    fails, n = [], 0
    for tag, cls in (("jointic", JointICNet), ("iterdual", IterDualNet), ("lpd", LPDNet), ("xpd", CrossDomainNetwork), ("engine", MRIModelEngine)):
        n += 3
        f = cls._forward_operator(me, image=x, sampling_mask=m, sensitivity_map=S)
        b_ = cls._backward_operator(me, kspace=k, sampling_mask=m, sensitivity_map=S)
        if not close(f, Ax, tol=1e-6):
            fails.append(_fail(f"site-{tag}-fwd", f"{cls.__name__}._forward_operator is not M F E x"))
        if not close(b_, Ahk, tol=1e-6):
            fails.append(_fail(f"site-{tag}-bwd", f"{cls.__name__}._backward_operator is not R F^H M k"))
        ip1 = float((T.complex_multiplication(T.conjugate(f), k)).sum(dim=(0, 1, 2, 3))[0])
        ip2 = float((T.complex_multiplication(T.conjugate(x), b_)).sum(dim=(0, 1, 2))[0])
        if abs(ip1 - ip2) > 1e-3 * (abs(ip1) + float(f.norm()) * float(k.norm()) * 1e-1 + 1e-6):
            fails.append(_fail(f"site-{tag}-adjoint", f"{cls.__name__}: <A x, k> = {ip1:.6g} but <x, A^H k> = {ip2:.6g}"))
    # hard data consistency of the SSL engines: kspace + _forward_operator(x, S, ~mask)
    n += 2
    hard = y + MRIModelEngine._forward_operator(me, x, S, ~m)
    if not close(torch.where(m == 0, ZERO, hard), y, tol=1e-6):
        fails.append(_fail("site-ssl-harddc", "hard data consistency changes sampled positions"))
    if not close(torch.where(m == 0, hard, ZERO), torch.where(m == 0, fop(T.expand_operator(x, S, dim=1), dim=(2, 3)), ZERO), tol=1e-6):
        fails.append(_fail("site-ssl-harddc", "hard data consistency does not put F E x on the unsampled positions"))
    return n, fails


def site_vsharp_engine(seed, centered, mask_kind="random"):
    """VSharpNetEngine / VSharpNet3DEngine.forward_function on a duck-typed self with a stub model"""
    import direct.data.transforms as T
    from direct.nn.vsharp.vsharp_engine import VSharpNet3DEngine, VSharpNetEngine

    fop, bop = real_ops(centered)
    fails, n = [], 0
    for tag, cls, dims, extra in (("vsharp-engine", VSharpNetEngine, (2, 3), ()), ("vsharp3d-engine", VSharpNet3DEngine, (3, 4), (2,))):
        S, y, m, g = problem(seed, (1, 2, 6, 4), mask_kind, extra_dims=extra)
        x = torch.randn((1,) + extra + (6, 4, 2), generator=g)
        me, _ = persist("vsharp-engines/" + tag, lambda dims=dims: (_fake_self(fop, bop, dims), None))
        me.model = lambda masked_kspace, sampling_mask, sensitivity_map, x=x: [x * 0.5, x]
        me.compute_sensitivity_map = lambda s_: s_
        data = {"masked_kspace": y, "sampling_mask": m, "sensitivity_map": S}
        imgs, ksp = cls.forward_function(me, data)
        n += 2
        fe = fop(T.expand_operator(x, S, dim=1), dim=dims)
        if not close(torch.where(m == 0, ZERO, ksp), y, tol=1e-6):
            fails.append(_fail(f"site-{tag}-harddc", "data consistency changes sampled positions"))
        if not close(torch.where(m == 0, ksp, ZERO), torch.where(m == 0, fe, ZERO), tol=1e-6):
            fails.append(_fail(f"site-{tag}-harddc", "data consistency does not put F E x on the unsampled positions"))
    return n, fails


SITE_CHECKS = [
    ("vsharp", lambda s, c, mk: site_vsharp(s, c, False, mk)),
    ("vsharp3d", lambda s, c, mk: site_vsharp(s, c, True, mk)),
    ("varsplit", site_varsplit),
    ("iterdual", site_iterdual),
    ("jointic", site_jointic),
    ("kiki", site_kiki),
    ("varnet-blocks", site_varnet_blocks),
    ("cirim-rim", site_cirim),
    ("operator-pairs", site_operator_pairs),
    ("vsharp-engines", site_vsharp_engine),
]


class _StubModel:
    """stands for the reconstruction network: returns fixed images (the data-consistency code around it is real)"""
    training = False

    def __init__(self, x):
        self.x = x

    def __call__(self, masked_kspace, sampling_mask, sensitivity_map):
        return [self.x * 0.5, self.x]


def site_ssl_engines(seed, centered, mask_kind="random"):
    """`_do_iteration` of the four SSL engines in inference mode on a duck-typed self: the k-space they reconstruct from
    (input of the final backward operator) must be y on the sampled and F E x on the unsampled positions"""
    import direct.data.transforms as T
    from direct.nn.mri_models import MRIModelEngine
    from direct.nn.ssl.mri_models import JSSLMRIModelEngine, SSLMRIModelEngine
    from direct.nn.vsharp.vsharp_engine import VSharpNetSSLEngine

    fop, bop = real_ops(centered)
    S, y, m, g = problem(seed, (1, 2, 6, 4), mask_kind)
    x = torch.randn(1, 6, 4, 2, generator=g)
    fe = fop(T.expand_operator(x, S, dim=1), dim=(2, 3))
    fails, n = [], 0
    # (VSharpNetJSSLEngine applies the data consistency only in its training branch; in inference it returns
    #  |x| of the network output directly — recorded in SITE_TABLE, nothing to check here)
    for tag, cls in (("ssl", SSLMRIModelEngine), ("jssl", JSSLMRIModelEngine), ("vsharp-ssl", VSharpNetSSLEngine)):

        def build():
            rec = Recorder(fop, bop)
            return _fake_self(rec.forward_operator, rec.backward_operator), rec

        me, rec = persist("ssl-engines/" + tag, build)
        me.device = "cpu"
        me.mixed_precision = False
        me.model = _StubModel(x)
        me.compute_sensitivity_map = lambda s_: s_
        me.forward_function = lambda data: (x, None)
        me._forward_operator = lambda *a, me=me: MRIModelEngine._forward_operator(me, *a)
        me.compute_loss_on_data = lambda d, fns, data, oi, ok, *a: d
        data = {"masked_kspace": y.clone(), "sampling_mask": m.clone(), "sensitivity_map": S.clone(), "target": torch.zeros(1, 6, 4),
                "is_ssl": [False]}
        with torch.no_grad():
            cls._do_iteration(me, data, None, None)
        bw = [e for e in rec.events if e["op"] == "bwd"]
        n += 2
        if not bw:
            fails.append(_fail(f"site-{tag}-harddc", "no backward operator call observed"))
            continue
        ksp = bw[-1]["in"]
        if not close(torch.where(m == 0, ZERO, ksp), y, tol=1e-6):
            fails.append(_fail(f"site-{tag}-harddc", "data consistency changes sampled positions"))
        if not close(torch.where(m == 0, ksp, ZERO), torch.where(m == 0, fe, ZERO), tol=1e-6):
            fails.append(_fail(f"site-{tag}-harddc", "data consistency does not put F E x on the unsampled positions"))
    return n, fails


SITE_CHECKS.append(("ssl-engines", site_ssl_engines))


def _dense_solve(fop, S, m, y, z, lam):
    """float64 dense solve of (A^H A + lam) x = A^H y + lam z per batch element, A = M F E built from the real operator"""
    import direct.data.transforms as T

    n_, c_, h_, w_ = S.shape[:4]
    npx = h_ * w_
    eye = torch.zeros(npx, h_, w_, 2)
    for j in range(npx):
        eye[j, j // w_, j % w_, 0] = 1.0
    out = []
    for b in range(n_):
        k = torch.where(m[b:b + 1] == 0, ZERO, fop(T.expand_operator(eye, S[b:b + 1], dim=1), dim=(2, 3)))
        A = torch.view_as_complex(k.contiguous()).reshape(npx, c_ * npx).T.to(torch.complex128)
        yc = torch.view_as_complex(y[b].contiguous()).reshape(-1).to(torch.complex128)
        zc = torch.view_as_complex(z[b].contiguous()).reshape(-1).to(torch.complex128)
        out.append(torch.linalg.solve(A.conj().T @ A + lam * torch.eye(npx, dtype=torch.complex128), A.conj().T @ yc + lam * zc))
    return torch.stack(out)


# how the update type reaches the block: enum member, its name in any case, and through the structured config
# (a plain lower-case string handed directly to the constructor is outside the documented forms: `self.bk_update_type == "FR"`
#  is then an ordinary string comparison and the `else` (BAN) branch runs; the structured config rejects such a value —
#  recorded as an observation by `lowercase_update_type_note`, not judged)
_CGNET_UPDATE_FORMS = [("FR", "enum"), ("PRP", "enum"), ("FR", "str"), ("PRP", "str"), ("FR", "config"), ("PRP", "config"),
                       ("FR", "default")]


def lowercase_update_type_note():
    from direct.nn.conjgradnet.conjgrad import ConjGrad

    fop, bop = real_ops(True)
    S, y, m, g = problem(11, (1, 2, 3, 3), "random")
    z = torch.randn(1, 3, 3, 2, generator=g)
    lam = torch.tensor([0.5])
    with torch.no_grad():
        outs = {f: ConjGrad(fop, bop, num_iters=40, tol=1e-9, bk_update_type=f)(y, S, m, z, lam) for f in ("FR", "fr", "BAN")}
    same_as_ban = bool(torch.equal(outs["fr"], outs["BAN"]))
    return {"observation": "ConjGrad(bk_update_type='fr') given as a plain lower-case string (not CGUpdateType, not through the config, "
                           "which rejects it) " + ("runs the BAN branch" if same_as_ban else "does not run the BAN branch") +
                           f"; deviation from the FR result {rel(outs['fr'], outs['FR']):.3g} — outside the documented argument forms"}


def site_conjgradnet(seed, centered, mask_kind="random"):
    """ConjGradNet (the caller of ConjGrad outside the anchored file): every `self.conj_grad(...)` call inside a real
    ConjGradNet.forward is observed with a forward hook; its output must solve (A^H A + mu) x = A^H y + mu z for the z it was
    given, with y / S / mask the network's own inputs and mu = `self.mu`; z_0 is the SENSE image R F^H y."""
    from direct.nn.conjgradnet.config import ConjGradNetConfig
    from direct.nn.conjgradnet.conjgrad import CGUpdateType
    from direct.nn.conjgradnet.conjgradnet import ConjGradNet

    torch.manual_seed(seed)
    fop, bop = real_ops(centered)
    form = _CGNET_UPDATE_FORMS[(seed + _Hist.step * 0) % len(_CGNET_UPDATE_FORMS)]
    h_, w_ = 4, 3

    def build():
        name, how = form
        common = dict(num_steps=2, denoiser_architecture="conv", image_init="sense", no_parameter_sharing=True,
                      cg_iters=3 * h_ * w_ + 10, cg_tol=1e-9, conv_hidden_channels=2, conv_n_convs=2)
        if how == "config":
            from omegaconf import OmegaConf
            cfg = OmegaConf.merge(OmegaConf.structured(ConjGradNetConfig),
                                  {"cg_param_update_type": name, "model_name": "conjgradnet.conjgradnet.ConjGradNet"})
            kw = {k: v for k, v in cfg.items() if k not in ("model_name", "engine_name")}
            kw.update(common)
            return ConjGradNet(fop, bop, **kw), None
        if how == "default":
            return ConjGradNet(fop, bop, **common), None
        return ConjGradNet(fop, bop, cg_param_update_type=CGUpdateType(name) if how == "enum" else name, **common), None

    model, _ = persist("conjgradnet/" + "/".join(form), build)
    with torch.no_grad():
        model.mu.fill_(0.4 + 0.1 * ((seed + _Hist.step) % 5))
    S, y, m, _ = problem(seed, (2, 2, h_, w_), mask_kind)
    calls = []

    def hook(mod, inp, out):
        calls.append(([a.detach().clone() if isinstance(a, torch.Tensor) else a for a in inp], out.detach().clone()))

    net_io = []
    hs = [model.conj_grad.register_forward_hook(hook)]
    for net in model.nets:
        hs.append(net.register_forward_hook(lambda mod, inp, out_: net_io.append((inp[0].detach().clone(), out_.detach().clone()))))
    try:
        with torch.no_grad():
            out = model(y, S, m)
    finally:
        for h in hs:
            h.remove()
    fails, n = [], 0
    tag = "/".join(form)
    if len(calls) != 3:
        return 0, [_fail("site-conjgradnet-calls", f"expected 3 conj_grad calls (num_steps + 1), saw {len(calls)}")]
    mu = float(model.mu.detach())
    for i, (inp, xo) in enumerate(calls):
        n += 2
        ok_args = (len(inp) == 5 and torch.equal(inp[0], y) and torch.equal(inp[1], S) and torch.equal(inp[2], m)
                   and float(inp[4]) == mu)
        if not ok_args:
            fails.append(_fail("site-conjgradnet-args", f"[{tag}] conj_grad call {i} is not (masked_kspace, sensitivity_map, sampling_mask, z, mu)"))
            break
        z = inp[3]
        if i == 0 and not close(z, _sense(bop, y, S), tol=1e-5):
            fails.append(_fail("site-conjgradnet-init", f"[{tag}] z_0 is not the SENSE image R F^H y"))
        if i >= 1:
            # z_i = learning_rate[i-1] * denoiser_{i-1}(x_{i-1}), x_{i-1} = the previous conjugate-gradient solution
            n += 1
            ok_chain = (len(net_io) >= i and torch.equal(net_io[i - 1][0], calls[i - 1][1].permute(0, 3, 1, 2))
                        and close(z, float(model.learning_rate[i - 1].detach()) * net_io[i - 1][1].permute(0, 2, 3, 1), tol=1e-6))
            if not ok_chain:
                fails.append(_fail("site-conjgradnet-args", f"[{tag}] conj_grad call {i}: z is not learning_rate·denoiser(previous solution)"))
                break
        sol = _dense_solve(fop, S, m, y, z, mu)
        xc = torch.view_as_complex(xo.contiguous()).reshape(sol.shape).to(torch.complex128)
        r = float((xc - sol).norm()) / (float(sol.norm()) + 1e-12)
        if not r <= 2e-3:
            fails.append(_fail("site-conjgradnet-solution",
                               f"[{tag}] conj_grad call {i} inside ConjGradNet does not solve (A^H A + mu) x = A^H y + mu z: rel {r:.3g} "
                               f"(update type given as {form[1]} {form[0]!r}, block holds {model.conj_grad.bk_update_type!r})"))
            break
    if not fails and not torch.equal(out, calls[-1][1]):
        fails.append(_fail("site-conjgradnet-output", f"[{tag}] ConjGradNet.forward does not return the last conjugate-gradient solution"))
    return n, fails


SITE_CHECKS.append(("conjgradnet", site_conjgradnet))
SITE_TABLE.append(("ConjGradNet.forward → conj_grad / init_z", "nn/conjgradnet/conjgradnet.py", "conjGradForward (call) / sense",
                   "x_i = argmin ½‖A x − y‖² + ½ mu ‖x − z_i‖²; z_0 = R F^H y",
                   "conjgradnet_cg_calls_ok, conjgradnet_ctor_args_eq, site_conjgradnet_init_sem, forward_call_args_eq",
                   "hook on the block inside a real ConjGradNet vs dense solve; update type as enum / string / via config"))
