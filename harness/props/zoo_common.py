"""Model zoo shared by C17 (shape contracts) and C18 (batch separability).

Every reconstruction network and every building-block denoiser of `direct.nn` is instantiated from the real classes with
tiny channel widths; every supported regulariser architecture / initialisation option gets its own entry.  The entries
know how the real model is called, where its reconstruction sits in the returned structure, what the documented output
layout is and which spatial sizes the architecture admits (`admissible`).  Nothing here re-implements the networks.
"""
from __future__ import annotations

import functools
from dataclasses import dataclass, field
from typing import Callable

import boot  # noqa: F401
import torch
from torch import nn


def _ops():
    from direct.data.transforms import fft2, ifft2

    return fft2, ifft2


@dataclass
class Entry:
    name: str
    family: str                       # file-level family (unet2d, mwcnn, lpd, …)
    kind: str                         # "den2d" | "den3d" | "gru" | "recon" | "recon3d"
    build: Callable[[], nn.Module]
    out: str                          # "image" (N,H,W,2) | "kspace" (N,C,H,W,2) | "chw" (N,c,H,W) | "mag" (N,H,W) | …
    call: Callable = None             # (model, inputs) -> tensor (the reconstruction)
    in_ch: int = 2                    # denoisers: input channels
    out_ch: int = 2
    min_hw: Callable[[int, int], bool] = lambda h, w: True     # admissible spatial sizes
    min_note: str = ""
    coil_invariant: bool = True       # image output must not depend on the coil order
    tags: tuple = ()
    tol: float = 1e-5                 # C18 relative tolerance
    seed: int = 0
    min_zhw: Callable[[int, int, int], bool] = lambda z, h, w: True   # 3-D kinds
    finding: str = ""                 # non-empty: this configuration is a known/pending finding of that class
    tier: str = "quick"               # "thorough": only exercised in the thorough tier

    def admissible(self, h: int, w: int, z: int | None = None) -> bool:
        if self.kind in ("den3d", "recon3d"):
            return self.min_zhw(z, h, w)
        return self.min_hw(h, w)

    def model(self) -> nn.Module:
        torch.manual_seed(1000 + self.seed)
        m = self.build()
        # un-trivialise parameters that are initialised to constants (PReLU, norms) but keep them small
        with torch.no_grad():
            for mod in m.modules():
                if isinstance(mod, (nn.BatchNorm2d, nn.BatchNorm3d)):
                    mod.running_mean.uniform_(-0.2, 0.2)
                    mod.running_var.uniform_(0.6, 1.4)
        m.eval()
        return m


# ----------------------------------------------------------------------------------------------------------------
# inputs
def recon_inputs(n: int, coils: int, h: int, w: int, seed: int = 0, scale: float = 1.0, slices: int | None = None):
    g = torch.Generator().manual_seed(seed)
    sp = (h, w) if slices is None else (slices, h, w)
    ksp = torch.randn((n, coils) + sp + (2,), generator=g) * scale
    sens = torch.randn((n, coils) + sp + (2,), generator=g)
    # normalise the maps (rss = 1) as the pipeline does
    rss = (sens ** 2).sum((-1, 1), keepdim=True).sqrt()
    sens = sens / rss
    mask = (torch.rand((n, 1) + sp + (1,), generator=g) > 0.4)
    if h * w <= 8:
        mask[:] = True       # a two-pixel image from one k-space sample is constant: degenerate for every normalisation
    # always sample the centre so that zero-filled images are not all zero
    idx = tuple([slice(None), slice(None)] + [s // 2 for s in sp] + [slice(None)])
    mask[idx] = True
    ksp = ksp * mask
    return {"masked_kspace": ksp, "sensitivity_map": sens, "sampling_mask": mask,
            "scaling_factor": torch.ones(n) * 1.0}


def select(inputs: dict, idx) -> dict:
    """Sub-batch of a recon input dict."""
    return {k: v[idx] for k, v in inputs.items()}


def cat_inputs(items: list[dict]) -> dict:
    return {k: torch.cat([it[k] for it in items], 0) for k in items[0]}


def permute_coils(inputs: dict, perm) -> dict:
    out = dict(inputs)
    out["masked_kspace"] = inputs["masked_kspace"][:, perm]
    out["sensitivity_map"] = inputs["sensitivity_map"][:, perm]
    return out


# ----------------------------------------------------------------------------------------------------------------
# call conventions of the recon models (each returns the reconstruction tensor)
def _c_ks(m, i):           # (masked_kspace, sensitivity_map)
    return m(i["masked_kspace"], i["sensitivity_map"])


def _c_kms(m, i):          # (masked_kspace, sampling_mask, sensitivity_map)
    return m(i["masked_kspace"], i["sampling_mask"], i["sensitivity_map"])


def _c_ksm(m, i):          # (masked_kspace, sensitivity_map, sampling_mask)
    return m(i["masked_kspace"], i["sensitivity_map"], i["sampling_mask"])


def _c_kms_scaled(m, i):   # crossdomain / kikinet with scaling factor
    return m(i["masked_kspace"], i["sampling_mask"], i["sensitivity_map"], i["scaling_factor"])


def _c_rim(m, i):
    outs, _state = m(None, i["masked_kspace"], i["sampling_mask"], i["sensitivity_map"])
    return outs[-1]


def _c_rim_scaled(m, i):
    # as the engine does: scale / scaling_factor**2 reshaped to (batch, 1)
    s = (1.0 / i["scaling_factor"] ** 2).reshape(-1, 1)
    outs, _state = m(None, i["masked_kspace"], i["sampling_mask"], i["sensitivity_map"], loglikelihood_scaling=s)
    return outs[-1]


def _c_cirim(m, i):
    etas = next(m(i["masked_kspace"], i["sampling_mask"], i["sensitivity_map"]))
    return etas[-1][-1]


def _c_last_ksm(m, i):
    return m(i["masked_kspace"], i["sensitivity_map"], i["sampling_mask"])[-1]


def _c_varsplit(m, i):
    return m(i["masked_kspace"], i["sensitivity_map"], i["sampling_mask"], i["scaling_factor"])


# ----------------------------------------------------------------------------------------------------------------
# admissibility of spatial sizes (what the architecture supports; mirrored by Model/Shapes.lean and checked against it)
def unet_ok(levels: int):
    def ok(h, w):
        return h >= 2 ** levels and w >= 2 ** levels and (h >> levels) * (w >> levels) >= 2
    return ok


def m16(n: int) -> int:
    return ((n - 1) | 15) + 1


def normunet_ok(levels: int, in_ch: int = 2, groups: int = 2):
    """padded size must be admissible for the inner U-Net; a group must have at least two elements (std)"""
    u = unet_ok(levels)
    return lambda h, w: u(m16(h), m16(w)) and (in_ch // groups) * h * w >= 2


def unet3d_ok(levels: int):
    def ok(z, h, w):
        p = [max(n, 2 ** levels) >> levels for n in (z, h, w)]
        return p[0] * p[1] * p[2] >= 2
    return ok


def normunet3d_ok(levels: int, in_ch: int = 2, groups: int = 2):
    u = unet3d_ok(levels)
    return lambda z, h, w: u(m16(z), m16(h), m16(w)) and (in_ch // groups) * z * h * w >= 2


def mwcnn_ok(scales: int):
    def axis_ok(n):
        # every odd length met by `pad` must be >= 3 (reflect-pad by one needs a neighbour); lengths: n, then after each DWT
        if n < 2:
            return False
        e = n + n % 2
        for idx in range(1, scales):
            e = e // 2
            if idx != scales - 1:
                if e % 2 and e < 3:
                    return False
                e = e + e % 2
            if e < 1:
                return False
        return True

    return lambda h, w: axis_ok(h) and axis_ok(w)


def didn_ok(h, w):
    return h >= 3 and w >= 3


def any_ok(h, w):
    return h >= 1 and w >= 1


def both(*preds):
    return lambda h, w: all(p(h, w) for p in preds)


# ----------------------------------------------------------------------------------------------------------------
def denoisers() -> list[Entry]:
    from direct.nn.conv.conv import Conv2d
    from direct.nn.didn.didn import DIDN, DUB
    from direct.nn.multidomainnet.multidomain import MultiDomainUnet2d
    from direct.nn.mwcnn.mwcnn import MWCNN
    from direct.nn.resnet.resnet import ResNet
    from direct.nn.unet.unet_2d import NormUnetModel2d, UnetModel2d

    fwd, bwd = _ops()
    E = []
    for L in (1, 2, 3):
        E.append(Entry(f"UnetModel2d/L{L}", "unet2d", "den2d",
                       lambda L=L: UnetModel2d(2, 2, 2, L, 0.0), "chw", min_hw=unet_ok(L),
                       min_note="h, w >= 2^L and bottleneck not 1x1 (instance norm)", tags=("unet", f"L{L}")))
    E.append(Entry("UnetModel2d/L2/dropout", "unet2d", "den2d", lambda: UnetModel2d(2, 2, 2, 2, 0.5), "chw", min_hw=unet_ok(2),
                   tags=("unet", "dropout")))
    for L in (1, 2, 4):
        E.append(Entry(f"NormUnetModel2d/L{L}", "unet2d", "den2d",
                       lambda L=L: NormUnetModel2d(2, 2, 2, L, 0.0), "chw", min_hw=normunet_ok(L),
                       min_note="padded (multiple of 16) size admissible for the U-Net: L=4 needs h>16 or w>16; group of >= 2 elements",
                       tags=("normunet", f"L{L}")))
    E.append(Entry("NormUnetModel2d/in6out2", "unet2d", "den2d", lambda: NormUnetModel2d(6, 2, 2, 2, 0.0), "chw",
                   in_ch=6, min_hw=normunet_ok(2, 6), tags=("normunet",)))
    for S in (2, 3, 4):
        for bn in (False, True):
            E.append(Entry(f"MWCNN/S{S}{'/bn' if bn else ''}", "mwcnn", "den2d",
                           lambda S=S, bn=bn: MWCNN(2, 2, num_scales=S, batchnorm=bn), "chw", min_hw=mwcnn_ok(S),
                           min_note="reflect-pad-by-one needs every odd intermediate length >= 3",
                           tags=("mwcnn", f"S{S}") + (("batchnorm",) if bn else ())))
    for skip in (False, True):
        E.append(Entry(f"DIDN/{'skip' if skip else 'noskip'}", "didn", "den2d",
                       lambda skip=skip: DIDN(2, 2, hidden_channels=4, num_dubs=2, num_convs_recon=2, skip_connection=skip),
                       "chw", min_hw=didn_ok, min_note="h, w >= 3 (DUB reflect pad of a length-1 axis)", tags=("didn",)))
    E.append(Entry("DUB", "didn", "den2d", lambda: DUB(4, 4), "chw", in_ch=4, out_ch=4,
                   min_hw=lambda h, w: h >= 2 and w >= 2, min_note="h, w >= 2", tags=("didn", "dub")))
    for bn in (False, True):
        E.append(Entry(f"ResNet/{'bn' if bn else 'nobn'}", "resnet", "den2d",
                       lambda bn=bn: ResNet(hidden_channels=4, in_channels=2, num_blocks=2, batchnorm=bn), "chw",
                       min_hw=any_ok, tags=("resnet",) + (("batchnorm",) if bn else ())))
        E.append(Entry(f"Conv2d/{'bn' if bn else 'nobn'}", "conv", "den2d",
                       lambda bn=bn: Conv2d(2, 2, 4, n_convs=3, batchnorm=bn), "chw", min_hw=any_ok,
                       tags=("conv",) + (("batchnorm",) if bn else ())))
    E.append(Entry("MultiDomainUnet2d/L2", "multidomainnet", "den2d",
                   lambda: MultiDomainUnet2d(fwd, bwd, 2, 2, 4, 2, 0.0), "chw", min_hw=unet_ok(2), tags=("unet", "multidomain")))
    return E


def denoisers3d() -> list[Entry]:
    from direct.nn.unet.unet_3d import NormUnetModel3d, UnetModel3d

    E = []
    for L in (1, 2):
        E.append(Entry(f"UnetModel3d/L{L}", "unet3d", "den3d", lambda L=L: UnetModel3d(2, 2, 2, L, 0.0), "czhw",
                       min_zhw=unet3d_ok(L), min_note="bottleneck of the (2^L-padded) volume not 1x1x1", tags=("unet3d", f"L{L}")))
    E.append(Entry("NormUnetModel3d/L2", "unet3d", "den3d", lambda: NormUnetModel3d(2, 2, 2, 2, 0.0), "czhw",
                   min_zhw=normunet3d_ok(2), tags=("unet3d", "normunet")))
    return E


def grus() -> list[Entry]:
    from direct.nn.recurrent.recurrent import Conv2dGRU, NormConv2dGRU

    E = []
    for norm in (False, True):
        for inorm in (False, True):
            cls = NormConv2dGRU if norm else Conv2dGRU
            E.append(Entry(f"{cls.__name__}/{'in' if inorm else 'noin'}", "recurrent", "gru",
                           lambda cls=cls, inorm=inorm: cls(in_channels=4, hidden_channels=4, out_channels=2, num_layers=2,
                                                            instance_norm=inorm, dense_connect=1 if inorm else 0),
                           "chw", in_ch=4, min_hw=(lambda h, w: h * w >= 2) if inorm else any_ok,
                           tags=("gru",) + (("normalized",) if norm else ()) + (("instance_norm",) if inorm else ())))
    from direct.nn.recurrent.recurrent import Conv2dGRU as _G
    for layers in (1, 2, 3):
        E.append(Entry(f"Conv2dGRU/zeropad-L{layers}", "recurrent", "gru",
                       lambda layers=layers: _G(in_channels=4, hidden_channels=4, out_channels=2, num_layers=layers,
                                                replication_padding=False),
                       "chw", in_ch=4, min_hw=any_ok, tags=("gru", "zeropad")))
    return E


def recons() -> list[Entry]:
    from direct.nn.cirim.cirim import CIRIM
    from direct.nn.conjgradnet.conjgradnet import ConjGradNet
    from direct.nn.iterdualnet.iterdualnet import IterDualNet
    from direct.nn.jointicnet.jointicnet import JointICNet
    from direct.nn.kikinet.kikinet import KIKINet
    from direct.nn.lpd.lpd import LPDNet
    from direct.nn.multidomainnet.multidomainnet import MultiDomainNet
    from direct.nn.recurrentvarnet.recurrentvarnet import RecurrentVarNet
    from direct.nn.rim.rim import RIM
    from direct.nn.unet.unet_2d import Unet2d
    from direct.nn.varnet.varnet import EndToEndVarNet
    from direct.nn.varsplitnet.varsplitnet import MRIVarSplitNet
    from direct.nn.vsharp.vsharp import VSharpNet
    from direct.nn.xpdnet.xpdnet import XPDNet

    fwd, bwd = _ops()
    E: list[Entry] = []
    u2 = unet_ok(2)
    # inside a network the normalised U-Net sees intermediate images; with fewer than 9 pixels the tiny-width zoo models can
    # produce a constant (dead-ReLU) image, whose std is 0 — a degenerate input for every (x - mean) / std
    nu = both(normunet_ok(2), lambda h, w: h * w >= 9)
    # ---- Unet2d
    for normalized in (False, True):
        for init in ("sense", "zero_filled"):
            for skip in (False, True):
                if skip and init == "zero_filled":
                    continue
                E.append(Entry(f"Unet2d/{'norm' if normalized else 'plain'}/{init}{'/skip' if skip else ''}", "unet2d", "recon",
                               lambda normalized=normalized, init=init, skip=skip: Unet2d(
                                   fwd, bwd, num_filters=2, num_pool_layers=2, dropout_probability=0.0, skip_connection=skip,
                                   normalized=normalized, image_initialization=init),
                               "image", _c_ks, min_hw=nu if normalized else u2, tags=("unet",)))
    E.append(Entry("Unet2d/norm/sense/dropout", "unet2d", "recon",
                   lambda: Unet2d(fwd, bwd, num_filters=2, num_pool_layers=2, dropout_probability=0.4, normalized=True,
                                  image_initialization="sense"), "image", _c_ks, min_hw=nu, tags=("unet", "dropout")))
    E.append(Entry("EndToEndVarNet/dropout", "varnet", "recon",
                   lambda: EndToEndVarNet(fwd, bwd, num_layers=2, regularizer_num_filters=2, regularizer_num_pull_layers=2,
                                          regularizer_dropout=0.5),
                   "kspace", _c_kms, min_hw=u2, coil_invariant=False, tags=("unet", "dropout")))
    # ---- EndToEndVarNet
    E.append(Entry("EndToEndVarNet", "varnet", "recon",
                   lambda: EndToEndVarNet(fwd, bwd, num_layers=2, regularizer_num_filters=2, regularizer_num_pull_layers=2),
                   "kspace", _c_kms, min_hw=u2, coil_invariant=False, tags=("unet",)))
    # ---- RIM
    rim_cfgs = {
        "default": {},
        "shared": {"no_parameter_sharing": False},
        "instnorm": {"instance_norm": True},
        "dense": {"dense_connect": True, "depth": 2},
        "sense": {"image_initialization": "sense"},
        "learned-init": {"learned_initializer": True, "initializer_channels": (2, 2, 4), "initializer_dilations": (1, 1, 2),
                         "initializer_multiscale": 2},
        "normalized": {"normalized": True},
    }
    for nm, kw in rim_cfgs.items():
        E.append(Entry(f"RIM/{nm}", "rim", "recon", lambda kw=kw: RIM(fwd, bwd, **{"hidden_channels": 4, "length": 2, "depth": 1, **kw}),
                       "chw", _c_rim, min_hw=nu if nm in ("instnorm", "normalized") else any_ok,
                       tags=("gru",) + ((nm,) if nm != "default" else ())))
    E.append(Entry("RIM/noskip", "rim", "recon", lambda: RIM(fwd, bwd, hidden_channels=4, length=2, depth=1, skip_connections=False),
                   "chw", _c_rim, tags=("gru", "noskip")))
    E.append(Entry("RIM/zeropad", "rim", "recon", lambda: RIM(fwd, bwd, hidden_channels=4, length=2, depth=1, replication_padding=False),
                   "chw", _c_rim, tags=("gru", "zeropad")))
    E.append(Entry("RIM/scaled-loglikelihood", "rim", "recon", lambda: RIM(fwd, bwd, hidden_channels=4, length=2, depth=1),
                   "chw", _c_rim_scaled, tags=("gru", "scaling_factor")))
    # ---- LPDNet
    lpd_kw = dict(primal_mwcnn_hidden_channels=2, primal_mwcnn_num_scales=2, primal_unet_num_filters=2,
                  primal_unet_num_pool_layers=2, dual_conv_hidden_channels=4, dual_conv_n_convs=2,
                  dual_didn_hidden_channels=4, dual_didn_num_dubs=2, dual_didn_num_convs_recon=2, dual_unet_num_filters=2,
                  dual_unet_num_pool_layers=2)
    pm = {"MWCNN": mwcnn_ok(2), "UNET": u2, "NORMUNET": nu}
    dm = {"CONV": any_ok, "DIDN": didn_ok, "UNET": u2, "NORMUNET": nu}
    for p, d in [("MWCNN", "DIDN"), ("MWCNN", "CONV"), ("UNET", "UNET"), ("NORMUNET", "NORMUNET"), ("UNET", "DIDN"),
                 ("NORMUNET", "CONV")]:
        E.append(Entry(f"LPDNet/{p}-{d}", "lpd", "recon",
                       lambda p=p, d=d: LPDNet(fwd, bwd, num_iter=2, num_primal=2, num_dual=2, primal_model_architecture=p,
                                               dual_model_architecture=d, **lpd_kw),
                       "image", _c_ksm, min_hw=both(pm[p], dm[d]), tags=(p.lower(), d.lower())))
    # ---- XPDNet
    xkw = dict(mwcnn_hidden_channels=2, mwcnn_num_scales=2, dual_conv_hidden_channels=4, dual_conv_n_convs=2,
               dual_didn_hidden_channels=4, dual_didn_num_dubs=2, dual_didn_num_convs_recon=2)
    for nm, kw, ok in [("primal-only", {"use_primal_only": True}, mwcnn_ok(2)),
                       ("CONV", {"use_primal_only": False, "kspace_model_architecture": "CONV"}, mwcnn_ok(2)),
                       ("DIDN", {"use_primal_only": False, "kspace_model_architecture": "DIDN"}, both(mwcnn_ok(2), didn_ok)),
                       ("primal-only/bn", {"use_primal_only": True, "mwcnn_batchnorm": True}, mwcnn_ok(2))]:
        E.append(Entry(f"XPDNet/{nm}", "xpdnet", "recon",
                       lambda kw=kw: XPDNet(fwd, bwd, num_primal=2, num_dual=2, num_iter=2, **{**xkw, **kw}),
                       "image", _c_kms, min_hw=ok, tags=("mwcnn",) + (("batchnorm",) if nm.endswith("bn") else ())))
    E.append(Entry("XPDNet/normalize", "xpdnet", "recon",
                   lambda: XPDNet(fwd, bwd, num_primal=2, num_dual=1, num_iter=2, normalize=True, **xkw),
                   "image", _c_kms_scaled, min_hw=mwcnn_ok(2), tags=("mwcnn", "scaling_factor")))
    # ---- KIKINet
    kkw = dict(image_mwcnn_hidden_channels=2, image_mwcnn_num_scales=2, image_unet_num_filters=2, image_unet_num_pool_layers=2,
               kspace_conv_hidden_channels=4, kspace_conv_n_convs=2, kspace_didn_hidden_channels=4, kspace_didn_num_dubs=2,
               kspace_didn_num_convs_recon=2, kspace_unet_num_filters=2, kspace_unet_num_pool_layers=2)
    for im, ks in [("MWCNN", "DIDN"), ("UNET", "CONV"), ("NORMUNET", "UNET"), ("MWCNN", "NORMUNET")]:
        E.append(Entry(f"KIKINet/{im}-{ks}", "kikinet", "recon",
                       lambda im=im, ks=ks: KIKINet(fwd, bwd, image_model_architecture=im, kspace_model_architecture=ks,
                                                   num_iter=2, **kkw),
                       "image", _c_kms, min_hw=both(pm[im], dm[ks]), tags=(im.lower(), ks.lower()),
                       # a normalised U-Net on raw k-space amplifies float32 rounding (measured 7e-6 between batched/single kernels)
                       tol=1e-4 if "NORMUNET" in (im, ks) else 1e-5))
    E.append(Entry("KIKINet/normalize", "kikinet", "recon",
                   lambda: KIKINet(fwd, bwd, image_model_architecture="UNET", kspace_model_architecture="CONV", num_iter=2,
                                   normalize=True, **kkw),
                   "image", _c_kms_scaled, min_hw=u2, tags=("unet", "scaling_factor")))
    # ---- JointICNet
    jkw = dict(image_unet_num_filters=2, image_unet_num_pool_layers=2, kspace_unet_num_filters=2, kspace_unet_num_pool_layers=2,
               sens_unet_num_filters=2, sens_unet_num_pool_layers=2)
    for norm in (False, True):
        E.append(Entry(f"JointICNet/{'normunet' if norm else 'unet'}", "jointicnet", "recon",
                       lambda norm=norm: JointICNet(fwd, bwd, num_iter=2, use_norm_unet=norm, **jkw), "image", _c_kms,
                       min_hw=nu if norm else u2, tags=("normunet" if norm else "unet",)))
    # ---- MultiDomainNet
    E.append(Entry("MultiDomainNet/std/dropout", "multidomainnet", "recon",
                   lambda: MultiDomainNet(fwd, bwd, standardization=True, num_filters=4, num_pool_layers=2, dropout_probability=0.3),
                   "kspace", _c_ks, min_hw=u2, coil_invariant=False, tags=("unet", "multidomain", "dropout")))
    for std in (True, False):
        E.append(Entry(f"MultiDomainNet/{'std' if std else 'nostd'}", "multidomainnet", "recon",
                       lambda std=std: MultiDomainNet(fwd, bwd, standardization=std, num_filters=4, num_pool_layers=2),
                       "kspace", _c_ks, min_hw=u2, coil_invariant=False, tags=("unet", "multidomain")))
    # ---- RecurrentVarNet
    rv = {"default": {}, "shared": {"no_parameter_sharing": False}, "normalized": {"normalized": True}}
    for init in ("sense", "zero_filled"):
        rv[f"learned-{init}"] = {"learned_initializer": True, "initializer_initialization": init,
                                 "initializer_channels": (2, 2, 4), "initializer_dilations": (1, 1, 2)}
    for nm, kw in rv.items():
        E.append(Entry(f"RecurrentVarNet/{nm}", "recurrentvarnet", "recon",
                       lambda kw=kw: RecurrentVarNet(fwd, bwd, num_steps=2, recurrent_hidden_channels=4, recurrent_num_layers=2, **kw),
                       "kspace", _c_kms, min_hw=nu if nm == "normalized" else any_ok, coil_invariant=False, tags=("gru",)))
    # ---- CIRIM
    for share in (True, False):
        E.append(Entry(f"CIRIM/{'noshare' if share else 'share'}", "cirim", "recon",
                       lambda share=share: CIRIM(fwd, bwd, depth=2, time_steps=2, recurrent_hidden_channels=4, num_cascades=2,
                                                 no_parameter_sharing=share), "mag", _c_cirim, tags=("indrnn",)))
    # ---- IterDualNet
    ikw = dict(image_unet_num_filters=2, image_unet_num_pool_layers=2, kspace_unet_num_filters=2, kspace_unet_num_pool_layers=2)
    for nm, kw, ok in [("default", {}, u2), ("normunets", {"image_normunet": True, "kspace_normunet": True}, nu),
                       ("shared-nopercoil", {"image_no_parameter_sharing": False, "kspace_no_parameter_sharing": False,
                                             "compute_per_coil": False}, u2)]:
        E.append(Entry(f"IterDualNet/{nm}", "iterdualnet", "recon",
                       lambda kw=kw: IterDualNet(fwd, bwd, num_iter=2, **{**ikw, **kw}), "image", _c_kms, min_hw=ok,
                       tags=("unet",)))
    # ---- ConjGradNet
    ckw = dict(resnet_hidden_channels=4, resnet_num_blocks=2, unet_num_filters=2, unet_num_pool_layers=2, didn_hidden_channels=4,
               didn_num_dubs=2, didn_num_convs_recon=2, conv_hidden_channels=4, conv_n_convs=2)
    am = {"resnet": any_ok, "unet": u2, "normunet": nu, "didn": didn_ok, "conv": any_ok}
    for arch, init, upd in [("resnet", "sense", "FR"), ("unet", "zero_filled", "PRP"), ("normunet", "zeros", "DY"),
                            ("didn", "sense", "BAN"), ("conv", "sense", "FR")]:
        E.append(Entry(f"ConjGradNet/{arch}-{init}-{upd}", "conjgradnet", "recon",
                       lambda arch=arch, init=init, upd=upd: ConjGradNet(fwd, bwd, num_steps=2, denoiser_architecture=arch,
                                                                         image_init=init, cg_iters=4, cg_param_update_type=upd,
                                                                         **ckw),
                       "image", _c_ksm, min_hw=am[arch], tags=(arch, "cg"), tol=1e-3))
    E.append(Entry("ConjGradNet/conv-sense-FR/tol1e-3", "conjgradnet", "recon",
                   lambda: ConjGradNet(fwd, bwd, num_steps=2, denoiser_architecture="conv", image_init="sense", cg_iters=15,
                                       cg_tol=1e-3, cg_param_update_type="FR", **ckw),
                   "image", _c_ksm, tags=("conv", "cg", "cg-tol"), finding="conjgrad-batch-mean-stop"))
    # ---- MRIVarSplitNet
    vkw = {f"image_{k}": v for k, v in ckw.items()}
    vkw.update({f"kspace_{k}": v for k, v in ckw.items()})
    for arch, ks, init in [("unet", None, "sense"), ("resnet", "conv", "sense"),
                           ("didn", "unet", "sense"), ("conv", "didn", "zero_filled"), ("unet", "resnet", "sense")]:
        ok = am[arch] if ks is None else both(am[arch], am[ks])
        E.append(Entry(f"MRIVarSplitNet/{arch}-{ks}-{init}", "varsplitnet", "recon",
                       lambda arch=arch, ks=ks, init=init: MRIVarSplitNet(fwd, bwd, num_steps_reg=2, num_steps_dc=2, image_init=init,
                                                                         image_model_architecture=arch,
                                                                         kspace_model_architecture=ks, **vkw),
                       "image", _c_varsplit, min_hw=ok, tags=(arch,) + ((f"k-{ks}",) if ks else ())))
    E.append(Entry("MRIVarSplitNet/unet-normunet-sense", "varsplitnet", "recon",
                   lambda: MRIVarSplitNet(fwd, bwd, num_steps_reg=2, num_steps_dc=2, image_init="sense",
                                          image_model_architecture="unet", kspace_model_architecture="normunet", **vkw),
                   "image", _c_varsplit, min_hw=both(u2, normunet_ok(2, 5)), tags=("unet", "k-normunet"), finding="normunet-5ch-groups"))
    E.append(Entry("MRIVarSplitNet/normunet-None-zero_filled", "varsplitnet", "recon",
                   lambda: MRIVarSplitNet(fwd, bwd, num_steps_reg=2, num_steps_dc=2, image_init="zero_filled",
                                          image_model_architecture="normunet", kspace_model_architecture=None, **vkw),
                   "image", _c_varsplit, min_hw=normunet_ok(2, 4), tags=("normunet",), finding="normunet-zero-group"))
    # ---- VSharpNet
    skw = {f"image_{k}": v for k, v in ckw.items()}
    for arch, init in [("unet", "sense"), ("normunet", "zero_filled"), ("resnet", "sense"), ("didn", "sense"), ("conv", "zero_filled")]:
        E.append(Entry(f"VSharpNet/{arch}-{init}", "vsharp", "recon",
                       lambda arch=arch, init=init: VSharpNet(fwd, bwd, num_steps=2, num_steps_dc_gd=2, image_init=init,
                                                              image_model_architecture=arch, initializer_channels=(2, 2, 4),
                                                              initializer_dilations=(1, 1, 2), initializer_multiscale=2,
                                                              auxiliary_steps=-1, **skw),
                       "image", _c_last_ksm, min_hw=am[arch], tags=(arch,)))
    return E


def recons3d() -> list[Entry]:
    from direct.nn.vsharp.vsharp import VSharpNet3D

    fwd, bwd = _ops()
    E = []
    for norm in (False, True):
        E.append(Entry(f"VSharpNet3D/{'normunet' if norm else 'unet'}", "vsharp", "recon3d",
                       lambda norm=norm: VSharpNet3D(fwd, bwd, num_steps=2, num_steps_dc_gd=2, initializer_channels=(2, 2, 4),
                                                     initializer_dilations=(1, 1, 2), unet_num_filters=2, unet_num_pool_layers=2,
                                                     unet_norm=norm),
                       "image3d", _c_last_ksm, min_zhw=normunet3d_ok(2) if norm else unet3d_ok(2), tags=("unet3d",)))
    return E


class EngineWrap(nn.Module):
    """An engine's reconstruction path as a module: `forward(inputs)` = `engine.forward_function(dict(inputs))`, returning the
    image when there is one, else the k-space.  The model and the sensitivity model are registered so that `.eval()` and the
    module scans reach them."""

    def __init__(self, engine, model, **extra):
        super().__init__()
        self.engine = [engine]          # not a sub-module: the engine is plain Python
        self.model = model
        for k, v in extra.items():
            self.add_module(k, v)

    def forward(self, inputs):
        data = {k: (v.clone() if hasattr(v, "clone") else v) for k, v in inputs.items()}
        data["is_ssl"] = torch.zeros(data["masked_kspace"].shape[0], dtype=torch.bool)
        img, ksp = self.engine[0].forward_function(data)
        if isinstance(img, (list, tuple)):
            img = img[-1]
        return img if img is not None else ksp


def engines() -> list[Entry]:
    """the reconstruction path (`forward_function`) of the supervised, SSL and JSSL engines around their models, with a
    learned sensitivity-map refinement (per coil; 3-D: per slice or with a 3-D U-Net) — thorough tier"""
    from direct.config.defaults import DefaultConfig, ModelConfig
    from direct.nn.conjgradnet.conjgradnet import ConjGradNet
    from direct.nn.conjgradnet.conjgradnet_engine import ConjGradNetEngine
    from direct.nn.iterdualnet.iterdualnet import IterDualNet
    from direct.nn.iterdualnet.iterdualnet_engine import IterDualNetEngine
    from direct.nn.jointicnet.jointicnet import JointICNet
    from direct.nn.jointicnet.jointicnet_engine import JointICNetEngine
    from direct.nn.kikinet.kikinet import KIKINet
    from direct.nn.kikinet.kikinet_engine import KIKINetEngine
    from direct.nn.lpd.lpd import LPDNet
    from direct.nn.lpd.lpd_engine import LPDNetEngine
    from direct.nn.multidomainnet.multidomainnet import MultiDomainNet
    from direct.nn.multidomainnet.multidomainnet_engine import MultiDomainNetEngine
    from direct.nn.recurrentvarnet.recurrentvarnet import RecurrentVarNet
    from direct.nn.recurrentvarnet.recurrentvarnet_engine import RecurrentVarNetEngine
    from direct.nn.unet.config import Unet2dConfig
    from direct.nn.unet.unet_2d import Unet2d, UnetModel2d
    from direct.nn.unet.unet_3d import UnetModel3d
    from direct.nn.unet.unet_engine import Unet2dEngine, Unet2dJSSLEngine, Unet2dSSLEngine
    from direct.nn.varnet.varnet import EndToEndVarNet
    from direct.nn.varnet.varnet_engine import EndToEndVarNetEngine, EndToEndVarNetJSSLEngine, EndToEndVarNetSSLEngine
    from direct.nn.varsplitnet.varsplitnet import MRIVarSplitNet
    from direct.nn.varsplitnet.varsplitnet_engine import MRIVarSplitNetEngine
    from direct.nn.vsharp.vsharp import VSharpNet, VSharpNet3D
    from direct.nn.vsharp.vsharp_engine import VSharpNet3DEngine, VSharpNetEngine
    from direct.nn.xpdnet.xpdnet import XPDNet
    from direct.nn.xpdnet.xpdnet_engine import XPDNetEngine

    fwd, bwd = _ops()
    u2 = unet_ok(2)

    def wrap(engine_cls, model, cfg_model=None, ndim=2, sens="2d"):
        cfg = DefaultConfig(model=cfg_model if cfg_model is not None else ModelConfig(model_name="zoo"))
        extra = {}
        if sens == "2d":
            extra["sensitivity_model"] = UnetModel2d(2, 2, 2, 1, 0.0)
        elif sens == "3d":
            extra["sensitivity_model_3d"] = UnetModel3d(2, 2, 2, 1, 0.0)
        eng = engine_cls(cfg, model, "cpu", fwd, bwd, **extra)
        eng.ndim = ndim
        return EngineWrap(eng, model, **extra)

    E: list[Entry] = []

    def add(name, build, min_hw=u2, kind="recon", coil_invariant=True, min_zhw=None, tol=1e-5):
        kw = {"min_zhw": min_zhw} if min_zhw is not None else {}
        E.append(Entry(f"engine/{name}", "engine", kind, build, "auto", lambda m, i: m(i), min_hw=min_hw,
                       coil_invariant=coil_invariant, tags=("engine",), tier="thorough", tol=tol, **kw))

    ucfg = Unet2dConfig(num_filters=2, num_pool_layers=2, image_initialization="sense")
    for cls in (Unet2dEngine, Unet2dSSLEngine, Unet2dJSSLEngine):
        add(cls.__name__, lambda cls=cls: wrap(cls, Unet2d(fwd, bwd, num_filters=2, num_pool_layers=2, dropout_probability=0.0,
                                                            image_initialization="sense"), ucfg))
    for cls in (EndToEndVarNetEngine, EndToEndVarNetSSLEngine, EndToEndVarNetJSSLEngine):
        add(cls.__name__, lambda cls=cls: wrap(cls, EndToEndVarNet(fwd, bwd, num_layers=2, regularizer_num_filters=2,
                                                                  regularizer_num_pull_layers=2)),
            coil_invariant=(cls is EndToEndVarNetEngine))
    add("VSharpNetEngine", lambda: wrap(VSharpNetEngine, VSharpNet(
        fwd, bwd, num_steps=2, num_steps_dc_gd=2, image_model_architecture="unet", initializer_channels=(2, 2, 4),
        initializer_dilations=(1, 1, 2), auxiliary_steps=-1, image_unet_num_filters=2, image_unet_num_pool_layers=2)))
    for sens in ("2d", "3d"):
        add(f"VSharpNet3DEngine/sens{sens}", lambda sens=sens: wrap(VSharpNet3DEngine, VSharpNet3D(
            fwd, bwd, num_steps=2, num_steps_dc_gd=2, initializer_channels=(2, 2, 4), initializer_dilations=(1, 1, 2),
            unet_num_filters=2, unet_num_pool_layers=2), ndim=3, sens=sens), kind="recon3d",
            # the 2-D sensitivity U-Net (one pooling level) is applied slice by slice and has no padding to a power of two
            min_zhw=(lambda z, h, w: unet3d_ok(2)(z, h, w) and unet_ok(1)(h, w)) if sens == "2d" else unet3d_ok(2))
    add("LPDNetEngine", lambda: wrap(LPDNetEngine, LPDNet(fwd, bwd, num_iter=2, num_primal=2, num_dual=2,
                                                         primal_model_architecture="UNET", dual_model_architecture="CONV",
                                                         primal_unet_num_filters=2, primal_unet_num_pool_layers=2,
                                                         dual_conv_hidden_channels=4, dual_conv_n_convs=2)))
    add("XPDNetEngine", lambda: wrap(XPDNetEngine, XPDNet(fwd, bwd, num_primal=2, num_dual=1, num_iter=2, normalize=True,
                                                         mwcnn_hidden_channels=2, mwcnn_num_scales=2)), min_hw=both(u2, mwcnn_ok(2)))
    add("KIKINetEngine", lambda: wrap(KIKINetEngine, KIKINet(fwd, bwd, image_model_architecture="UNET",
                                                            kspace_model_architecture="CONV", num_iter=2, normalize=True,
                                                            image_unet_num_filters=2, image_unet_num_pool_layers=2,
                                                            kspace_conv_hidden_channels=4, kspace_conv_n_convs=2)))
    add("JointICNetEngine", lambda: wrap(JointICNetEngine, JointICNet(
        fwd, bwd, num_iter=2, image_unet_num_filters=2, image_unet_num_pool_layers=2, kspace_unet_num_filters=2,
        kspace_unet_num_pool_layers=2, sens_unet_num_filters=2, sens_unet_num_pool_layers=2)), tol=1e-4)
    add("MultiDomainNetEngine", lambda: wrap(MultiDomainNetEngine, MultiDomainNet(fwd, bwd, num_filters=4, num_pool_layers=2)))
    add("RecurrentVarNetEngine", lambda: wrap(RecurrentVarNetEngine, RecurrentVarNet(
        fwd, bwd, num_steps=2, recurrent_hidden_channels=4, recurrent_num_layers=2)))
    add("IterDualNetEngine", lambda: wrap(IterDualNetEngine, IterDualNet(
        fwd, bwd, num_iter=2, image_unet_num_filters=2, image_unet_num_pool_layers=2, kspace_unet_num_filters=2,
        kspace_unet_num_pool_layers=2)))
    add("ConjGradNetEngine", lambda: wrap(ConjGradNetEngine, ConjGradNet(
        fwd, bwd, num_steps=2, denoiser_architecture="conv", image_init="sense", cg_iters=4, conv_hidden_channels=4,
        conv_n_convs=2)), tol=1e-3)
    add("MRIVarSplitNetEngine", lambda: wrap(MRIVarSplitNetEngine, MRIVarSplitNet(
        fwd, bwd, num_steps_reg=2, num_steps_dc=2, image_model_architecture="unet", image_unet_num_filters=2,
        image_unet_num_pool_layers=2)))
    return E


def zoo(thorough: bool = True) -> list[Entry]:
    all_entries = denoisers() + denoisers3d() + grus() + recons() + recons3d() + engines()
    return [e for e in all_entries if thorough or e.tier == "quick"]


def expected_shape(e: Entry, n: int, coils: int, h: int, w: int, slices: int | None = None) -> tuple:
    return {
        "image": (n, h, w, 2), "kspace": (n, coils, h, w, 2), "chw": (n, e.out_ch, h, w), "mag": (n, h, w),
        "image3d": (n, slices, h, w, 2), "czhw": (n, e.out_ch, slices, h, w), "auto": None,
    }[e.out]


def auto_shape_ok(shape: tuple, n: int, coils: int, h: int, w: int, slices: int | None = None) -> bool:
    """engines return a magnitude image, a complex image or a k-space (documented layouts)"""
    sp = (h, w) if slices is None else (slices, h, w)
    return tuple(shape) in ((n,) + sp, (n,) + sp + (2,), (n, coils) + sp + (2,))


def run_entry(e: Entry, model: nn.Module, inputs):
    """Run the real model; `inputs` is a tensor for denoisers, a dict for recon models."""
    with torch.no_grad():
        if e.kind in ("den2d", "den3d"):
            return model(inputs)
        if e.kind == "gru":
            x, state = inputs
            return model(x, state)[0]
        return e.call(model, inputs)


# ----------------------------------------------------------------------------------------------------------------
# forward hooks: what the REAL network does, block by block
class Recorder:
    """Registers forward hooks on `modules`; records (input spatial/ full shape, output shape) per call, in call order."""

    def __init__(self, modules, full: bool = False):
        self.calls = []
        self.handles = []
        seen = set()
        for m in modules:
            if id(m) in seen:
                continue
            seen.add(id(m))
            self.handles.append(m.register_forward_hook(self._hook))
        self.full = full

    def _hook(self, module, inputs, output):
        out = output[0] if isinstance(output, (tuple, list)) else output
        inp = inputs[0]
        self.calls.append((tuple(inp.shape), tuple(out.shape)))

    def close(self):
        for h in self.handles:
            h.remove()
        self.handles = []

    def __enter__(self):
        return self

    def __exit__(self, *a):
        self.close()


def _conv_kp(conv):
    """(kernel, stride, padding, dilation) of a torch conv; the axes must agree (the model applies one law per axis)."""
    def one(v):
        v = tuple(v) if isinstance(v, (tuple, list)) else (v,)
        if len(set(v)) != 1:
            raise ValueError(f"anisotropic hyper-parameter {v}")
        return int(v[0])
    return one(conv.kernel_size), one(conv.stride), one(conv.padding), one(conv.dilation)


def trace_spec(e: Entry, m: nn.Module):
    """For a building-block denoiser: (driver op name, parameter groups read from the instantiated module, modules to
    hook).  The driver line is `op <groups> | dims`."""
    from translate.recipes.c17 import MD, U2, U3, pool_params

    fam = e.name.split("/")[0]
    if fam in ("UnetModel2d", "NormUnetModel2d", "UnetModel3d", "NormUnetModel3d", "MultiDomainUnet2d"):
        u = m
        outer = []
        if fam == "NormUnetModel2d":
            u, outer = m.unet2d, [m.unet2d]
        if fam == "NormUnetModel3d":
            u, outer = m.unet3d, [m.unet3d]
        first = u.down_sample_layers[0].layers[0]
        first = getattr(first, "image_conv", first)
        tconv = u.up_transpose_conv[0].layers[0]
        tconv = getattr(tconv, "image_conv", tconv)
        ck, _cs, cp, _cd = _conv_kp(first)
        tk, ts, _tp, _td = _conv_kp(tconv)
        file, func, call = {"UnetModel2d": (U2, "UnetModel2d.forward", "F.avg_pool2d"),
                            "NormUnetModel2d": (U2, "UnetModel2d.forward", "F.avg_pool2d"),
                            "MultiDomainUnet2d": (MD, "MultiDomainUnet2d.forward", "F.avg_pool2d"),
                            "UnetModel3d": (U3, "UnetModel3d.forward", "F.avg_pool3d"),
                            "NormUnetModel3d": (U3, "UnetModel3d.forward", "F.avg_pool3d")}[fam]
        pk, ps, _pp = pool_params(file, func, call)
        P = [ck, cp, pk, ps, tk, ts]
        L = len(u.down_sample_layers)
        hooks = list(u.down_sample_layers) + [u.conv] + list(u.up_transpose_conv) + list(u.up_conv) + outer
        op = {"UnetModel2d": "unet", "MultiDomainUnet2d": "unet", "NormUnetModel2d": "normunet", "UnetModel3d": "unet3d",
              "NormUnetModel3d": "normunet3d"}[fam]
        groups = [[L], P] + ([[m.norm_groups, e.in_ch]] if fam.startswith("Norm") else [])
        return op, groups, hooks, ("unet", P)
    if fam == "MWCNN":
        P = [m._kernel_size, m.IWT._r]
        return "mwcnn", [[m.num_scales], P], [m.DWT, m.IWT] + list(m.down) + list(m.up), ("mwcnn", P)
    if fam in ("DUB", "DIDN"):
        d = m if fam == "DUB" else m.dubs[0]
        ck, _s, cp, _d = _conv_kp(d.conv1_1[0])
        dk, ds, dp, _d = _conv_kp(d.down1)
        P = [ck, cp, dk, ds, dp, d.up1[0].pixelshuffle.upscale_factor]
        if fam == "DUB":
            return "dub", [[1], P], [c for _n, c in m.named_children()], ("didn", P)
        hooks = [m.conv_in, m.down] + list(m.dubs) + [m.recon_block, m.recon_agg, m.conv, m.up2, m.conv_out]
        return "didn", [[m.num_dubs, m.recon_block.num_convs, int(m.skip_connection)], P], hooks, ("didn", P)
    if fam == "ResNet":
        k, _s, p, _d = _conv_kp(m.conv_in)
        nblocks = sum(1 for b in m.resblocks if type(b).__name__ == "ResNetBlock")
        return "resnet", [[k, p, nblocks]], [m.conv_in, m.resblocks, m.conv_out], None
    if fam == "Conv2d":
        convs = [c for c in m.conv if isinstance(c, nn.Conv2d)]
        k, _s, p, _d = _conv_kp(convs[0])
        bn = int(any(isinstance(c, nn.BatchNorm2d) for c in m.conv))
        return "convnet", [[k, p, bn, len(convs)]], list(m.conv), None
    if fam in ("Conv2dGRU", "NormConv2dGRU"):
        g = m.convgru if fam == "NormConv2dGRU" else m
        repl = int(isinstance(g.conv_blocks[0][0], nn.ReplicationPad2d))
        inorm = int(isinstance(g.reset_gates[0][0], nn.InstanceNorm2d))
        grp = [m.norm_groups, e.in_ch] if fam == "NormConv2dGRU" else [0, 0]
        return "gru", [[repl, inorm, g.num_layers], grp], list(g.conv_blocks), None
    raise KeyError(fam)


# ----------------------------------------------------------------------------------------------------------------
# unrolled networks: which sub-modules are the denoisers, how often and on which layout they are called
IMAGE, PER_COIL, COIL_BATCH = 0, 1, 2


def schedule(e: Entry, m: nn.Module):
    """(modules to hook, prologue blocks, body blocks, iterations); a block is (domain, cin, cout).  None when the model
    has no denoiser sub-modules of the zoo (CIRIM)."""
    fam = e.name.split("/")[0]
    if fam == "Unet2d":
        return [m.unet], [(IMAGE, 2, 2)], [], 0
    if fam == "EndToEndVarNet":
        return [l.regularizer_model for l in m.layers_list], [], [(IMAGE, 2, 2)], len(m.layers_list)
    if fam == "KIKINet":
        ks = m.kspace_model_list[0].model
        return [ks, m.image_model_list[0]], [], [(PER_COIL, 2, 2), (IMAGE, 2, 2)], m.num_iter
    if fam == "LPDNet":
        nd, npr = m.num_dual, m.num_primal
        return ([d.dual_block for d in m.dual_net] + [p.primal_block for p in m.primal_net], [],
                [(PER_COIL, 2 * (nd + 2), 2 * nd), (IMAGE, 2 * (npr + 1), 2 * npr)], m.num_iter)
    if fam == "XPDNet":
        nd, npr = m.kspace_buffer_size, m.image_buffer_size
        body, mods = [], list(m.image_model_list)
        if m.kspace_model_list is not None:
            body.append((PER_COIL, 2 * (nd + npr + 1), 2 * nd))
            mods += [k.model for k in m.kspace_model_list]
        body.append((IMAGE, 2 * (npr + nd), 2 * npr))
        return mods, [], body, len(m.image_model_list)
    if fam == "IterDualNet":
        return (list(m.kspace_block_list) + list(m.image_block_list), [],
                [(PER_COIL if m.compute_per_coil else IMAGE, 2, 2), (IMAGE, 2, 2)], m.num_iter)
    if fam == "JointICNet":
        return [m.sens_model, m.image_model, m.kspace_model], [], [(PER_COIL, 2, 2), (IMAGE, 2, 2), (IMAGE, 2, 2)], m.num_iter
    if fam == "MultiDomainNet":
        return [m.unet], [(PER_COIL, 4 if hasattr(m, "standardization") else 2, 2)], [], 0
    if fam == "MRIVarSplitNet":
        body, mods = [(IMAGE, 4, 2)], list(m.image_nets)
        if m.kspace_nets is not None:
            body.append((PER_COIL, 5, 2))
            mods += list(m.kspace_nets)
        return mods, [], body, m.num_steps_reg
    if fam in ("VSharpNet", "VSharpNet3D"):
        return list(m.denoiser_blocks), [], [(IMAGE, 6, 2)], m.num_steps
    if fam == "ConjGradNet":
        return list(m.nets), [], [(IMAGE, 2, 2)], m.num_steps
    if fam == "RecurrentVarNet":
        return [b.regularizer for b in m.block_list], [], [(IMAGE, 2, 2)], m.num_steps
    if fam == "RIM":
        return list(m.cell_list), [], [(IMAGE, 4, 2)], m.length
    if fam == "CIRIM":
        blk = m.block_list[0]
        hid = blk.hidden_channels
        mods = [l for b in m.block_list for l in b.layers] + [b.final_layer for b in m.block_list]
        body = [(IMAGE, 4, hid)] + [(IMAGE, hid, hid)] * (blk.depth - 1) + [(IMAGE, hid, 2)]
        return mods, [], body, len(m.block_list) * blk.time_steps
    return None


def sched_term(e: Entry, m: nn.Module):
    """the hand-written Lean schedule (`Shapes.Sched`) of the entry's family and its iteration count, as Lean text"""
    fam = e.name.split("/")[0]
    b = lambda v: "true" if v else "false"  # noqa: E731
    if fam == "Unet2d":
        return "Shapes.schedUnet2d", 0
    if fam == "EndToEndVarNet":
        return "Shapes.schedSingle 2 2", len(m.layers_list)
    if fam == "KIKINet":
        return "Shapes.schedKiki", m.num_iter
    if fam == "LPDNet":
        return f"Shapes.schedLpd {m.num_dual} {m.num_primal}", m.num_iter
    if fam == "XPDNet":
        return f"Shapes.schedXpd {m.kspace_buffer_size} {m.image_buffer_size} {b(m.kspace_model_list is not None)}", len(m.image_model_list)
    if fam == "IterDualNet":
        return f"Shapes.schedIterDual {b(m.compute_per_coil)}", m.num_iter
    if fam == "JointICNet":
        return "Shapes.schedJointIC", m.num_iter
    if fam == "MultiDomainNet":
        return f"Shapes.schedMultiDomain {b(hasattr(m, 'standardization'))}", 0
    if fam == "MRIVarSplitNet":
        return f"Shapes.schedVarSplit {b(m.kspace_nets is not None)}", m.num_steps_reg
    if fam in ("VSharpNet", "VSharpNet3D"):
        return "Shapes.schedSingle 6 2", m.num_steps
    if fam == "ConjGradNet":
        return "Shapes.schedSingle 2 2", m.num_steps
    if fam == "RecurrentVarNet":
        return "Shapes.schedSingle 2 2", m.num_steps
    if fam == "RIM":
        return "Shapes.schedSingle 4 2", m.length
    if fam == "CIRIM":
        blk = m.block_list[0]
        return f"Shapes.schedCirim {blk.depth} {blk.hidden_channels}", len(m.block_list) * blk.time_steps
    return None


def lean_ident(name: str) -> str:
    import re
    return re.sub(r"[^A-Za-z0-9]", "_", name)
